#!/usr/bin/env python3
"""Regenerate the generated tables of DESIGN.md (between <!-- BEGIN:x --> / <!-- END:x --> markers)
from known_findings.json, mutants/RESULTS.json and seeded/*/meta.json."""
import json, os, glob, re

ROOT = os.path.dirname(os.path.dirname(os.path.abspath(__file__)))

def esc(s):
    return str(s).replace("|", "\\|").replace("\n", " ")

def findings():
    k = json.load(open(os.path.join(ROOT, "known_findings.json")))["findings"]
    rows = ["| property | status | commit | example | what failed |", "|---|---|---|---|---|"]
    for e in sorted(k, key=lambda e: (e["property"], e.get("status") != "fixed")):
        what = e["what"]
        what = re.sub(r"^fixed: property=\S+ \S+ ", "", what)
        rows.append(f"| {e['property']} | {e['status']} | {e.get('commit','-')} | `{esc(e.get('example',''))[:70]}` | {esc(what)[:330]} |")
    return "\n".join(rows)

def mutants():
    p = os.path.join(ROOT, "mutants", "RESULTS.json")
    if not os.path.exists(p):
        return "(mutants/RESULTS.json not generated yet)"
    r = json.load(open(p))
    rows = ["| mutant | file | change | targeted check(s) | verdicts |", "|---|---|---|---|---|"]
    for name in sorted(r):
        m = r[name]
        spec = json.load(open(os.path.join(ROOT, "mutants", name + ".json")))
        verd = ", ".join(f"{p}: {v}" for p, v in sorted(m["verdicts"].items()))
        rows.append(f"| {name} | {esc(spec.get('file',''))} | {esc(spec.get('why',''))[:110]} | {' '.join(spec.get('props', []))} | {verd} |")
    killed = sum(1 for m in r.values() if any(v == "KILLED" for v in m["verdicts"].values()))
    rows.append("")
    rows.append(f"{killed} of {len(r)} killed by at least one listed check.")
    return "\n".join(rows)

def seeded():
    rows = ["| change | what it does | what it needs to show | checks run (quick tier) |", "|---|---|---|---|"]
    for d in sorted(glob.glob(os.path.join(ROOT, "seeded", "*"))):
        mp = os.path.join(d, "meta.json")
        if not os.path.exists(mp):
            continue
        m = json.load(open(mp))
        ch = []
        for p, v in sorted(m.get("checks", {}).items()):
            s = f"{p}: {v['verdict']}"
            if v.get("earlier_verdict"):
                s += f" (was {v['earlier_verdict']} before the check was strengthened)"
            ch.append(s)
        rows.append(f"| {os.path.basename(d)} | {esc(m.get('summary',''))[:260]} | {esc(m.get('needs',''))[:200]} | {'; '.join(ch)} |")
    return "\n".join(rows)

def main():
    p = os.path.join(ROOT, "DESIGN.md")
    s = open(p).read()
    for key, fn in (("findings", findings), ("mutants", mutants), ("seeded", seeded)):
        b, e = f"<!-- BEGIN:{key} -->", f"<!-- END:{key} -->"
        if b in s and e in s:
            i, j = s.index(b) + len(b), s.index(e)
            s = s[:i] + "\n" + fn() + "\n" + s[j:]
    open(p, "w").write(s)

main()
