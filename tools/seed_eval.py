#!/usr/bin/env python3
"""Confirm a seeded change produced by an independent sub-agent, then run the checks against it.

usage: tools/seed_eval.py <PROP> <a|b> [--props C01,C04] [--skip-confirm]

Input:  /tmp/seed-<PROP>/<a|b>/{patch.diff, notes.json, demo file}
Step 1 (confirmation, in the scratch worktree /tmp/wt-<PROP>, never in /repo):
   demo passes without the patch; patch applies; everything compiles; the repository's
   existing test suite still passes with the patch; the demo fails with the patch.
Step 2: apply the patch to /repo, run ./check <prop> quick for each listed property, revert.
Step 3: keep it under /verif/seeded/<PROP>-<a|b>/ (patch.diff, demo, meta.json).
"""
import json, os, shutil, subprocess, sys, time, re

ROOT = os.path.dirname(os.path.dirname(os.path.abspath(__file__)))

def sh(cmd, cwd=None, env=None, timeout=3600):
    e = dict(os.environ)
    if env: e.update(env)
    r = subprocess.run(cmd, shell=True, cwd=cwd, env=e, capture_output=True, text=True, timeout=timeout)
    return r.returncode, r.stdout + r.stderr

def suite_summary(out):
    ok = sum(int(m) for m in re.findall(r"test result: ok\. (\d+) passed", out))
    failed = re.findall(r"test result: FAILED\. (\d+) passed; (\d+) failed", out)
    failing_targets = re.findall(r"error: test failed, to rerun pass `([^`]*)`", out)
    return ok, failed, failing_targets

def main():
    prop, which = sys.argv[1], sys.argv[2]
    props = [prop]
    if "--props" in sys.argv:
        props = sys.argv[sys.argv.index("--props") + 1].split(",")
    skip_confirm = "--skip-confirm" in sys.argv
    confirm_only = "--confirm-only" in sys.argv
    seed = f"/tmp/seed-{prop}/{which}"
    wt = f"/tmp/wt-{prop}"
    if "--wt" in sys.argv:
        wt = sys.argv[sys.argv.index("--wt") + 1]
    notes = json.load(open(os.path.join(seed, "notes.json")))
    patch = os.path.join(seed, "patch.diff")
    demo_path = notes["demo_path"]
    demo_src = os.path.join(seed, os.path.basename(demo_path))
    demo_cmd = notes["demo_cmd"]
    if "--wt" in sys.argv:
        demo_cmd = re.sub(r"CARGO_TARGET_DIR=\S+", f"CARGO_TARGET_DIR={wt}/target", demo_cmd)
    if "CARGO_TARGET_DIR" not in demo_cmd:
        demo_cmd = f"CARGO_TARGET_DIR={wt}/target " + demo_cmd
    ran = []
    confirmed = None
    if not skip_confirm:
        sh("git checkout -- . && git clean -fd -e target", cwd=wt)
        os.makedirs(os.path.dirname(os.path.join(wt, demo_path)), exist_ok=True)
        shutil.copy(demo_src, os.path.join(wt, demo_path))
        rc0, out0 = sh(demo_cmd, cwd=wt)
        ran.append({"cmd": demo_cmd, "tree": "unmodified", "rc": rc0})
        rc, out = sh(f"git apply {patch}", cwd=wt)
        if rc != 0:
            print("patch does not apply:", out[:300]); sys.exit(2)
        rc1, out1 = sh(demo_cmd, cwd=wt)
        ran.append({"cmd": demo_cmd, "tree": "with patch", "rc": rc1})
        os.remove(os.path.join(wt, demo_path))
        suite_cmd = f"CARGO_TARGET_DIR={wt}/target cargo test --workspace --no-fail-fast --offline"
        rcs, outs = sh(suite_cmd, cwd=wt)
        ok, failed, targets = suite_summary(outs)
        bad_targets = [t for t in targets if "rink-sandbox --test integration" not in t]
        if bad_targets == ["-p rink --bin rink"]:
            # the CLI's download tests are timing dependent and fail when the machine is busy
            # (they do on the unmodified tree too): run that one target again on its own
            rc2, out2 = sh(f"CARGO_TARGET_DIR={wt}/target cargo test -p rink --bin rink --offline", cwd=wt)
            ok2, failed2, targets2 = suite_summary(out2)
            ran.append({"cmd": "cargo test -p rink --bin rink --offline (re-run alone: timing-dependent tests)", "tree": "with patch", "passed": ok2})
            if rc2 == 0 and not targets2:
                # `ok` counted only targets that passed completely: add the re-run target's tests
                ok = ok + ok2
                bad_targets = []
        ran.append({"cmd": suite_cmd, "tree": "with patch", "passed": ok, "failing_targets_other_than_known": bad_targets})
        sh("git checkout -- . && git clean -fd -e target", cwd=wt)
        confirmed = (rc0 == 0 and rc1 != 0 and not bad_targets and ok >= 152)
        print(f"[{prop}-{which}] demo without patch rc={rc0}, with patch rc={rc1}; suite with patch: {ok} passed, other failing targets {bad_targets} -> confirmed={confirmed}")
        if not confirmed:
            print("NOT CONFIRMED; not kept"); print(out0[-600:] if rc0 else out1[-600:]); sys.exit(3)
        json.dump({"confirmed": confirmed, "ran": ran}, open(os.path.join(seed, "confirm.json"), "w"), indent=1)
        if confirm_only:
            return
    elif os.path.exists(os.path.join(seed, "confirm.json")):
        c = json.load(open(os.path.join(seed, "confirm.json")))
        confirmed, ran = c["confirmed"], c["ran"]
    # step 2
    rc, out = sh("git status --porcelain --untracked-files=no", cwd="/repo")
    if out.strip():
        print("refusing: /repo dirty"); sys.exit(2)
    results = {}
    try:
        rc, out = sh(f"git apply {patch}", cwd="/repo")
        if rc != 0:
            print("patch does not apply to /repo:", out[:300]); sys.exit(2)
        for p in props:
            t = time.time()
            rc, out = sh(f"{ROOT}/check {p} quick", env={"VERIF_SEED": os.environ.get("VERIF_SEED", "0")})
            verdict = {0: "MISSED", 1: "DETECTED"}.get(rc, "INCONCLUSIVE")
            det = [l.strip() for l in out.splitlines() if l.strip().startswith("phase=")]
            results[p] = {"verdict": verdict, "seconds": round(time.time() - t), "first_violation": det[0][:400] if det else None}
            print(f"[{prop}-{which}] check {p}: {verdict} ({time.time()-t:.0f}s) {det[0][:260] if det else ''}")
            ran.append({"cmd": f"./check {p} quick (patch applied to /repo)", "rc": rc})
    finally:
        sh("git checkout -- .", cwd="/repo")
    # step 3
    dest = os.path.join(ROOT, "seeded", f"{prop}-{which}")
    os.makedirs(dest, exist_ok=True)
    shutil.copy(patch, os.path.join(dest, "patch.diff"))
    shutil.copy(demo_src, os.path.join(dest, os.path.basename(demo_path)))
    prev = {}
    if os.path.exists(os.path.join(dest, "meta.json")):
        try:
            prev = json.load(open(os.path.join(dest, "meta.json")))
        except Exception:
            prev = {}
    merged = dict(prev.get("checks", {}))
    for k, v in results.items():
        if k in merged and merged[k].get("verdict") != v.get("verdict"):
            v = dict(v, earlier_verdict=merged[k].get("verdict"))
        merged[k] = v
    results = merged
    if confirmed is None:
        confirmed = prev.get("confirmed_by_me")
        ran = prev.get("what_i_ran", []) + ran
    meta = {
        "property": prop,
        "summary": notes.get("summary"),
        "needs": notes.get("needs"),
        "demo_path": demo_path,
        "demo_cmd": notes["demo_cmd"],
        "confirmed_by_me": confirmed,
        "what_i_ran": ran,
        "checks": results,
        "origin": "independent sub-agent given only the property text and a scratch worktree",
    }
    for k, v in prev.items():
        if k not in meta:
            meta[k] = v
    json.dump(meta, open(os.path.join(dest, "meta.json"), "w"), indent=1)
    print("kept in", dest)

main()
