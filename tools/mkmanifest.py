#!/usr/bin/env python3
"""Regenerates /verif/MANIFEST.json from the table below (single source of truth)."""
import json, os, sys
ROOT = os.path.dirname(os.path.dirname(os.path.abspath(__file__)))

CHECKS = {
 "C01": dict(
   level="exploration",
   technique="property-based differential testing (proptest + bounded-exhaustive enumeration) against an independent exact-rational evaluator and modular fingerprints",
   text="Generated expression trees (all <=2-operator trees over a boundary literal alphabet, exhaustively; seeded random trees to ~28 nodes with operands to ~4000 bits, every literal notation, minimal and redundant parentheses) are rendered to query text and evaluated by rink; the result must equal an independent unreduced-BigInt-pair evaluation exactly, be in lowest terms, agree with three 61-bit modular fingerprints computed with u128 arithmetic only, and undefined expressions must be refused. A search, not a proof: it shows absence of disagreement on what was generated.",
   note="Trusted: rustc/std, num-bigint integer multiplication/division (for the reference only; fingerprints are independent), the manual's precedence table as pinned by the repo's own parser tests. 0^0 and negative shift counts accept {error, natural value}.",
   design="§4 C01"),
 "C02": dict(
   level="exploration",
   technique="property-based testing (proptest) of the expression-to-exponent-vector homomorphism against an own dimensional algebra, both directions",
   text="Random expression trees over every usable database unit (bare, prefixed, plural, quoted ad-hoc base units) and the operators/functions the statement names are evaluated by rink; an independent exponent-vector algebra decides the expected dimensionality or the expected refusal. Defined => right dimensionality with no zero exponent; dimensionally undefined => error; defined with no value hazard => must not be refused. Gated operators draw conformable operand pairs 60% of the time so both gate outcomes are exercised (counted; vacuous runs exit 2).",
   note="Leaf dimensionalities come from Context::lookup (trusted as the definition of the leaf). log's result dimensionality and functions whose rule the statement does not give are not asserted.",
   design="§4 C02"),
 "C03": dict(
   level="exploration",
   technique="exhaustive sweep over conformable unit pairs plus property-based testing (proptest) with an exact-rational oracle and a round-trip relation",
   text="Every ordered pair of units in every dimensionality class (thorough: all 565k pairs; quick: all classes of <=40 members exhaustively, larger ones sampled) and random compound sources/targets (products, quotients, powers, constants, prefixes, plurals, inline definitions) are converted; the reported quotient x must satisfy x*val(T) = val(S) exactly with values recomputed from registry leaves by own rationals, `x T -> S` must return the coefficient, non-conformable pairs must yield QueryError::Conformance with the reciprocal flag exactly in the reciprocal case and suggestions that multiply out dimensionally.",
   note="Leaf values from Context::lookup; float-valued units excluded (counted); suggestion texts the check cannot read are counted, not reported.",
   design="§4 C03"),
 "C04": dict(
   level="exploration",
   technique="property-based testing (proptest histories from a tape-driven query grammar, token soup, corpus mutation, aimed shapes, raw Unicode) with a crash/hang oracle in a supervised worker process and a static cost classifier",
   text="Histories of 20-120 input lines (<= 500 chars) are evaluated in order on one long-lived context inside a worker process with an 8 MiB main-thread stack and a 3 GiB address-space cap; each cheap input must come back from eval, to_string, the span tree and serde_json within 20 s (re-run alone with 60 s before a hang counts); panics are caught and reported by the worker, signal deaths (stack overflow, allocation abort) and overruns by the supervisor; a sentinel query every 10th position must keep its answer. A search: absence of crashes is never established.",
   note="Inputs are classed cheap/expensive statically (literal exponents <= 5000, digits <= 10000, every intermediate <= 2^15 bits by abstract interpretation, requested digits x bits of the value <= 10^7); expensive ones are skipped and counted, except a fixed alphabet of 131 extreme literals that is run with a 1 s budget (overrun tolerated, crash not). A ladder of 58 factorize operands of every complexity runs with the ordinary budget.",
   design="§4 C04, §2.1, §2.2"),
 "C06": dict(
   level="exploration",
   technique="exhaustive sweep over database units x magnitudes plus property-based testing (proptest), with an independent numeral reader and name read-back through Context::lookup as the oracle",
   text="Plain results for every usable unit across 10^-30..10^30 and powers 1..3, base-unit products built to hit every derived-unit regrouping and the gram/tonne and bit/byte special cases, conversions with constant factors / prefixes / inline names, unit lists and every definition reply: numeral (own reader) x factor/divfactor x product of lookup(printed name)^power must equal the computed quantity exactly for exact numerals and within one last-digit unit otherwise; printed dimensionality and quantity label must be the result's.",
   note="The computed quantity is raw_value for plain results (C01-C03 check that computation), the separately evaluated left-hand side for conversions, part x lookup(list unit) for list entries. Float-valued results skipped (counted).",
   design="§4 C06"),
 "C08": dict(
   level="exploration",
   technique="exhaustive re-evaluation of every stored definition (a metamorphic fixed-point relation) plus structural invariants, in two configurations",
   text="Core and core+currency databases are loaded (must report nothing, including parser warnings captured from fd 1); every stored definition with a stored unit is re-evaluated in the loaded context and must equal the stored value and dimensionality; declared base units only, quantity names unique, alias chains end, docs/categories belong to existing names, categories have display names, substance properties re-evaluate, two loads give identical exact dumps.",
   note="Currency overlay is the repo's snapshot. Substance properties that refer to sibling properties (names that exist only while the substance loads) are re-evaluated with the sibling names replaced by their definitions.",
   design="§4 C08"),
 "C12": dict(
   level="exploration",
   technique="property-based metamorphic testing (proptest permutations and generated definition databases) comparing exact registry dumps",
   text="The bundled definition list (thorough: also with the currency overlay) is loaded under reversal, rotations, strides, file splits and seeded uniform shuffles, and generated databases (acyclic graphs of up to 60 units with forward, prefixed and plural references, prefixes, quantities, substances, docs, categories; values known to the generator) under 4 permutations each: the canonical exact dump and the set of reported problems must equal those of the original order, and generated databases must load to the generator's independently computed values. Phase cli-split: generated user units (referring to bundled units, to each other, and to bundled substances by name, symbol or grammar-generated chemical formula) split over the real CLI's two user files in a generated order must answer as they do from one file, and must not change what bundled names mean.",
   note="Entries sharing (namespace, name) are reduced to the shipped-order winner first (the statement's premise).",
   design="§4 C12"),
 "C13": dict(
   level="exploration",
   technique="property-based testing (proptest: edit scripts over the bundled files, generated databases with injected problems and known values, scale cases, mutated currency JSON) with a crash/hang oracle in a supervised worker and a named-problem / surviving-value oracle",
   text="Mutated bundled files, generated databases (values known to the generator) with up to four injected problems of the kinds the loader says it reports, scale cases (cycles to 10000, alias chains, 10^5 blanks, parentheses to depth 1000) and mutated currency JSON are loaded in a worker process (8 MiB stack, 3 GiB, 20 s budget): the load must return, its error text must name every injected problem's definition, and afterwards the same context must give every surviving generated unit exactly the generator's value and still do arithmetic.",
   note="Texts containing a literal exponent or power above 5000 are excluded (C04's resource clause); raw fuzzer texts are also sized definition by definition with C04's static cost bound. After every load 20 fixed queries (8 for generated databases) exercise the evaluator paths that look up fixed names; second loads on top of the bundled database are generated too.",
   design="§4 C13"),
 "C14": dict(
   level="exploration",
   technique="property-based testing (proptest) against an own proleptic-Gregorian calendar and RFC 3339 reader, with round-trip relations",
   text="Instants (years 1..9999, nanoseconds, fixed offsets to +-23:59 and named zones) are written in eight documented literal patterns; the reply's rfc3339 read by an own reader must be the instant an own calendar computes; (d + t) - d = t and (d - t) + t = d exactly for t = k ns in nine time units with exact rational coefficients up to the documented maximum; d1 - d2 equals the calendar difference; re-zoning keeps the instant and shows the offset, offsets of 24 h or more are refused. Further phases: literals whose own fields are out of range or that use the ISO-week and month-day patterns; time-only zoned literals with the context clock set to days on which a zone's clocks change; subtractions written the other way round (`t - d`), which must be refused.",
   note="Named zones have no independent oracle: wall-clock fields and instant preservation only; zoned literals before 1980 and DST-gap wall-clock times are excluded (counted).",
   design="§4 C14"),
 "C15": dict(
   level="exploration",
   technique="model-based property testing (proptest query histories against a reference model of `ans`) with a differential oracle against a pristine context",
   text="Histories of 5-40 queries over 15 classes run through rink_core::eval on one context with the feature flag on or off and the previous answer unset or preset: previous_result must follow a reference model after every step, every reply (as JSON) must equal the reply of the same query on a pristine context given the model's previous answer (once per history also on a newly loaded context), and afterwards the exact registry dump and settings must be unchanged. The class of a query (command, conversion, plain expression) is read off the words of the line, not off rink's parse.",
   note="A time-valued plain expression counts as a numeric result (stated assumption). Queries depending on `now` are not generated because eval() re-reads the clock by design.",
   design="§4 C15"),
 "C16": dict(
   level="exploration",
   technique="exhaustive sweep over every substance x property x direction plus property-based testing (proptest) with an exact-rational linearity / inverse oracle and generated chemical formulas",
   text="For every substance and property whose names identify it unambiguously, `out of (a I S)` must equal output*(a/input) exactly and feeding the result back must return a; amounts of another dimensionality must give QueryError::Conformance; k*S and S/k must scale every `p of` and every dimensionless-input property of the reply; generated formulas (1-8 symbols, counts to 2^32-1) must give the exact count-weighted sum of element molar masses; near-miss strings must not be treated as formulas.",
   note="Property values are read from the registry (trusted as database content). Substance names that are also unit names, or that denote an amount of a substance, are excluded (counted).",
   design="§4 C16"),
 "C17": dict(
   level="exploration",
   technique="exhaustive enumeration of every quantity and occurring dimensionality in several spellings plus proptest-generated exponent vectors, with a set-equality oracle over a registry filter",
   text="Every named quantity and every dimensionality among stored units (as quantity name, as up to three units, as base-unit product, and as that product beside a foreign base unit to the power zero or times and divided by one) plus random exponent vectors: `units for` must list exactly the registry's non-alias units of that dimensionality (plus the base unit's long name for a first power), once each, under their own category; every `factorize` entry must multiply out to the dimensionality with no duplicates; all spellings must give identical lists.",
   note="factorize only for complexity score <= 10 (costlier searches, up to the refusal of hopeless ones, are run by C04). Category display names and alias status are read from the definitions file, not from the registry.",
   design="§4 C17"),
 "C18": dict(
   level="fault_enumeration",
   technique="fault-sequence enumeration (all request sequences of length 1..3 over six request kinds) plus proptest-generated longer sequences with gaps, one Sandbox driver process per sequence, per-request oracle with id echo",
   text="A test Service (add, panic, sleep, allocate, exit, large payload) runs under rink_sandbox::Sandbox in a driver process; every sequence of length <= 3 and random sequences of length 4-6 with gaps 0/50/300 ms are executed: exactly one reply per request in order, the right class of result, the request's own id echoed (no stale reply), and every request after a fault served normally by a restarted child. Two further request kinds put a child out of reach before a request arrives - one that answers and then exits by itself a few milliseconds later (death while idle), one whose payload is twice the memory limit - in every position of sequences of length <= 3, with gaps 0 / 150 ms.",
   note="Timing inputs stay far from the limits (sleep <= limit/4 or >= 3x limit); load-sensitive deviations count only if they reproduce in 3 consecutive runs; the Ctrl-C path is not exercised.",
   design="§4 C18"),
 "C20": dict(
   level="fault_enumeration",
   technique="fault enumeration over (prior cache state x scripted HTTP server fault x entry point x kill point), kill points injected with strace at syscall entry, against the real rink binary",
   text="The rink binary built from the working tree runs with scratch XDG dirs against a scriptable local HTTP server (complete, cut after k bytes with FIN/RST, chunked cut, header cut, error statuses, stalls, refused) and is killed at enumerated file-system syscalls; afterwards the cache bytes must be exactly the prior or the complete new contents, rink must still start, answer a non-currency query, fall back to a stale cache, and show new rates after a successful refresh. A phase of corner scenarios adds: a 200 whose body is delimited only by the close of the connection and stops early; the interactive prompt with `[limits] enabled = true` (a sandboxed second process loads the configuration and refreshes again); a configured timeout below one millisecond against a stalling server (a run that does not end within 25 s, twice, is the violation there).",
   note="kill -9 semantics only (no power-fail simulation); rename(2) atomicity is trusted; falls back to server-paced kills if ptrace is unavailable (evidence says which mode ran).",
   design="§4 C20"),
 "C05": dict(
   level="exploration",
   technique="property-based testing (proptest + boundary sweep) against an independent numeral reader (recurring blocks, exponents, fractions) in bases 2..36",
   text="(p, q, base, digits mode) cases from boundary families ((b^k±1)/(b^j±1), short/long recurring periods, notation switches, up to ~3000 bits) are printed by Numeric::to_string and through `p|q -> [mode] [base B]` queries; an own reader computes the rational each printed numeral denotes: marked exact => equal; marked approximate => truncation toward zero within one last-digit unit and not exact; stated period = bracket length; `approx.` shown iff approx_value present.",
   note="In bases >= 15 `e` is digit and exponent marker: all grammatical readings are tried (sound, slightly weaker there). Digits(n) generated up to n = 2000. Floats are out of scope.",
   design="§4 C05"),
 "C07": dict(
   level="exploration",
   technique="exhaustive enumeration of prefix+unit[+s] strings of the bundled database plus property-based generated colliding databases, against a reference resolver",
   text="All ~542k strings u, p+u, u+s, p+u+s of the loaded database are resolved with Context::lookup and compared with a reference resolver over a registry dump (exact > prefix split > plural; any split accepted), for determinism (second call, second independently loaded context) and for canonicalize preserving the denoted value; generated databases with deliberately colliding names and distinct prime values repeat this on their cross products.",
   note="The registry's public maps are the dump. Which split is taken among several is listed, not judged. ans/ANS/_ excluded (C15).",
   design="§4 C07"),
 "C09": dict(
   level="exploration",
   technique="property-based testing (proptest) of the mixed-radix decomposition laws recomputed with own rationals",
   text="Random values (zero, tiny, huge, negative, non-terminating) times lists of 2..6 units from one dimensionality class in random/ascending/descending order with repeats, and time values for the automatic breakdown: sum(part_i*u_i) = v exactly, inner parts integers, signs agree, each remainder smaller than the unit just used, last remainder zero; lists with a stranger or a value of another class must be refused.",
   note="Units with non-positive or float values are excluded from lists (named in evidence). Float *values* are outside the quantifier; two extra phases break them down all the same (sum within 1e-9 relative).",
   design="§4 C09"),
 "C10": dict(
   level="exploration",
   technique="enumeration of all scale/spelling pairs plus property-based testing (proptest) against textbook affine formulas as exact rationals",
   text="All 26x26 spelling pairs over a literal alphabet and random rationals in every notation (to 60 fractional digits, 1e+-20, negative, below absolute zero) with chains of up to 4 conversions: `x S` must denote the textbook kelvin value exactly, `x S1 -> S2` the textbook composition exactly (so chains neither drift nor fail to invert); scales on dimensioned operands and inside compound targets (scale first or last) must be refused.",
   note="Constants hard-coded from the textbook formulas, not read from the database.",
   design="§4 C10"),
 "C11": dict(
   level="exploration",
   technique="exhaustive enumeration of operator nestings plus property-based testing (proptest) of the print/parse round-trip",
   text="Skeletons (operator kinds x operand slots) are rendered fully parenthesised and parsed by rink to obtain parser-producible trees with exactly that nesting; every chain of nested (kind, slot) pairs to depth 3 (quick) / 4 (thorough) and random skeletons to depth 8 must satisfy parse_expr(e.to_string()) == e with all input consumed, also through serde_json of a DefEntry.",
   note="Numeric leaves only when they print exactly (the statement's precondition); dates and error nodes excluded. All expressions of the bundled definition files are round-tripped too.",
   design="§4 C11"),
 "C19": dict(
   level="exploration",
   technique="model-based property testing (bounded-exhaustive and proptest operation sequences against a reference model) plus barrier-synchronised multi-thread stress with a sound lower-bound oracle",
   text="Every operation sequence up to length 4 (quick) / 5-6 (thorough) over alloc/alloc_zeroed/realloc/dealloc/read-usage/read-peak/set_limit with boundary sizes on a private Alloc, and random sequences to 400 operations, are run against a reference model: usage = sum of live sizes, success => within limit, refusal => usage unchanged and block intact, peak >= model peak; 2..16 threads hit the limit simultaneously in barrier-released rounds while a harness counter that lower-bounds true usage must never exceed the limit. One thread role calls reset_max() inside the bursts, racing the other threads' operations.",
   note="Thread phase samples schedules (does not enumerate them); Layout align fixed to 8; a refusal of a request that would have fit is allowed (the statement is one-directional).",
   design="§4 C19"),
}

NOT_YET = "check not built yet in this session (planned; see DESIGN.md §4)"

def main():
    props = [json.loads(l)["id"] for l in open(os.path.join(ROOT, "properties.jsonl"))]
    checks = []
    for pid in props:
        c = CHECKS.get(pid)
        if not c: continue
        checks.append({
            "property_id": pid,
            "quick_cmd": f"./check {pid} quick",
            "thorough_cmd": f"./check {pid} thorough",
            "evidence_file": f"/verif/evidence/{pid}.json",
            "replay_cmd_template": f"./check {pid} --replay {{path}}",
            "engine": "rv",
            "level_claimed": {"category": c["level"], "text": c["text"], "design_ref": c["design"]},
            "level_note": c["note"],
            "technique": c["technique"],
        })
    na = [{"property_id": p, "reason": NOT_YET} for p in props if p not in CHECKS]
    m = {
        "version": 1,
        "setup_cmd": "./check --build",
        "hooks": {
            "guard": "--cfg rink_verif",
            "enable": "no hooks are needed: every observation point is public API; checks build /repo's crates unmodified through path dependencies (cargo build --release in /verif/harness)",
            "baseline_off_cmd": "cd /repo && cargo test --workspace --no-fail-fast --offline",
            "source_commits": [],
            "add_only": True,
        },
        "engines": [
            {"name": "rv", "path": "/verif/harness", "serves_properties": [c["property_id"] for c in checks],
             "kind_free_text": "Rust crate (lib + bins) with path dependencies on /repo/core and /repo/sandbox: seeded proptest runners (ChaCha, VERIF_SEED-derived per shard), bounded-exhaustive sweeps, independent oracles (exact rationals, modular fingerprints, numeral reader, resolver, calendar), supervised worker processes, evidence/replay writers"},
        ],
        "checks": checks,
        "not_applicable": na,
        "notes": "Exit codes: 0 held / 1 VIOLATION / 2 inconclusive. known_findings.json lists genuine defects (known or fixed); regress/ holds replayed witnesses. See DESIGN.md.",
    }
    json.dump(m, open(os.path.join(ROOT, "MANIFEST.json"), "w"), indent=1)
    print("wrote MANIFEST.json with", len(checks), "checks;", len(na), "not_applicable")

main()
