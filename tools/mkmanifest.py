#!/usr/bin/env python3
"""Regenerates /verif/MANIFEST.json from the table below (single source of truth)."""
import json, os, sys
ROOT = os.path.dirname(os.path.dirname(os.path.abspath(__file__)))

CHECKS = {
 "C01": dict(
   level="exploration",
   technique="property-based differential testing (proptest + bounded-exhaustive enumeration) against an independent exact-rational evaluator and modular fingerprints",
   text="Generated expression trees (all <=2-operator trees over a boundary literal alphabet, exhaustively; seeded random trees to ~28 nodes with operands to ~4000 bits, every literal notation, minimal and redundant parentheses) are rendered to query text and evaluated by rink; the result must equal an independent unreduced-BigInt-pair evaluation exactly, be in lowest terms, agree with three 61-bit modular fingerprints computed with u128 arithmetic only, and undefined expressions must be refused. A search, not a proof: it shows absence of disagreement on what was generated.",
   note="Trusted: rustc/std, num-bigint integer multiplication/division (for the reference only; fingerprints are independent), the manual's precedence table as pinned by the repo's own parser tests. 0^0 and negative shift counts accept {error, natural value}.",
   design="§4 C01"),
}

NOT_YET = "check not built yet in this session (planned; see DESIGN.md §4)"

def main():
    props = [json.loads(l)["id"] for l in open(os.path.join(ROOT, "properties.jsonl"))]
    checks = []
    for pid in props:
        c = CHECKS.get(pid)
        if not c: continue
        checks.append({
            "property_id": pid,
            "quick_cmd": f"./check {pid} quick",
            "thorough_cmd": f"./check {pid} thorough",
            "evidence_file": f"/verif/evidence/{pid}.json",
            "replay_cmd_template": f"./check {pid} --replay {{path}}",
            "engine": "rv",
            "level_claimed": {"category": c["level"], "text": c["text"], "design_ref": c["design"]},
            "level_note": c["note"],
            "technique": c["technique"],
        })
    na = [{"property_id": p, "reason": NOT_YET} for p in props if p not in CHECKS]
    m = {
        "version": 1,
        "setup_cmd": "./check --build",
        "hooks": {
            "guard": "--cfg rink_verif",
            "enable": "no hooks are needed: every observation point is public API; checks build /repo's crates unmodified through path dependencies (cargo build --release in /verif/harness)",
            "baseline_off_cmd": "cd /repo && cargo test --workspace --no-fail-fast --offline",
            "source_commits": [],
            "add_only": True,
        },
        "engines": [
            {"name": "rv", "path": "/verif/harness", "serves_properties": [c["property_id"] for c in checks],
             "kind_free_text": "Rust crate (lib + bins) with path dependencies on /repo/core and /repo/sandbox: seeded proptest runners (ChaCha, VERIF_SEED-derived per shard), bounded-exhaustive sweeps, independent oracles (exact rationals, modular fingerprints, numeral reader, resolver, calendar), supervised worker processes, evidence/replay writers"},
        ],
        "checks": checks,
        "not_applicable": na,
        "notes": "Exit codes: 0 held / 1 VIOLATION / 2 inconclusive. known_findings.json lists genuine defects (known or fixed); regress/ holds replayed witnesses. See DESIGN.md.",
    }
    json.dump(m, open(os.path.join(ROOT, "MANIFEST.json"), "w"), indent=1)
    print("wrote MANIFEST.json with", len(checks), "checks;", len(na), "not_applicable")

main()
