#!/bin/bash
# Re-run every quick check on the unchanged /repo and verify the evidence it wrote (run before committing:
# mutation runs and seeded-change runs overwrite evidence files with what they saw on a modified tree).
cd "$(dirname "$0")/.."
if [ -n "$(git -C /repo status --porcelain --untracked-files=no)" ]; then echo "refusing: /repo is modified"; exit 2; fi
rc=0
for p in C01 C02 C03 C04 C05 C06 C07 C08 C09 C10 C11 C12 C13 C14 C15 C16 C17 C18 C19 C20; do
  out=$(./check $p quick 2>&1 | grep "^VIOLATION\|^OK\|^INCONC")
  echo "$out" | cut -c1-160
  case "$out" in OK*) ;; *) rc=1;; esac
done
python3 - <<'PY' || rc=1
import json,glob,sys
bad=0
for f in sorted(glob.glob('evidence/C*.json')):
    e=json.load(open(f)); c=e['coverage']
    if e.get('violations') or c['distinct_nontrivial']<2 or not c.get('samples'):
        print("STALE/INVALID", f); bad=1
sys.exit(bad)
PY
python3-vt tools/validate.py 2>&1 | grep -v "^valid" 
exit $rc
