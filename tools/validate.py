#!/opt/veriftools/pyvenv/bin/python
import json, jsonschema, glob, sys
ok=True
m=json.load(open('/verif/MANIFEST.json')); s=json.load(open('/root/.vp/MANIFEST.schema.json'))
jsonschema.validate(m,s); print("manifest valid")
es=json.load(open('/root/.vp/EVIDENCE.schema.json'))
for f in sorted(glob.glob('/verif/evidence/*.json')):
    try:
        jsonschema.validate(json.load(open(f)),es); print("valid", f)
    except Exception as ex:
        ok=False; print("INVALID", f, str(ex)[:300])
sys.exit(0 if ok else 1)
