#!/usr/bin/env python3
"""Sensitivity testing: apply one source mutation to /repo, run checks, revert.

usage: tools/mutate.py <mutants/NAME.json>... [--tier quick]
A mutant file: {"file": "core/src/...", "old": "...", "new": "...", "props": ["C01"], "why": "..."}
(or "patch": "path/to/patch.diff" instead of file/old/new)
Prints one line per (mutant, property): KILLED (exit 1) / SURVIVED (exit 0) / INCONCLUSIVE (exit 2).
/repo is restored with `git checkout -- .` afterwards, always.
"""
import json, subprocess, sys, os, time
REPO="/repo"; ROOT=os.path.dirname(os.path.dirname(os.path.abspath(__file__)))

def clean():
    out=subprocess.run(["git","-C",REPO,"status","--porcelain","--untracked-files=no"],capture_output=True,text=True).stdout.strip()
    return out==""

def record(name,pid,verdict,detail):
    """merge one verdict into mutants/RESULTS.json (the kill matrix quoted in DESIGN.md)"""
    p=os.path.join(ROOT,"mutants","RESULTS.json")
    r=json.load(open(p)) if os.path.exists(p) else {}
    e=r.setdefault(name,{"verdicts":{},"first_violation":{}})
    e["verdicts"][pid]=verdict
    if detail: e["first_violation"][pid]=detail
    json.dump(r,open(p,"w"),indent=1,sort_keys=True)

def main():
    args=[a for a in sys.argv[1:] if not a.startswith("--")]
    tier="quick"
    if "--tier" in sys.argv: tier=sys.argv[sys.argv.index("--tier")+1]; args=[a for a in args if a!=tier]
    only=None
    if "--props" in sys.argv:
        only=sys.argv[sys.argv.index("--props")+1].split(","); args=[a for a in args if a!=",".join(only)]
    if not clean():
        print("refusing: /repo has uncommitted changes"); sys.exit(2)
    results=[]
    for mf in args:
        m=json.load(open(mf))
        name=os.path.basename(mf).replace(".json","")
        try:
            if "patch" in m:
                p=m["patch"] if os.path.isabs(m["patch"]) else os.path.join(os.path.dirname(os.path.abspath(mf)),m["patch"])
                r=subprocess.run(["git","-C",REPO,"apply",p],capture_output=True,text=True)
                if r.returncode!=0:
                    print(f"{name}: patch does not apply: {r.stderr.strip()[:200]}"); continue
            else:
                edits=m.get("edits") or [m]
                bad=False
                for e in edits:
                    path=os.path.join(REPO,e["file"]); s=open(path).read()
                    if s.count(e["old"])!=1:
                        print(f"{name}: 'old' text occurs {s.count(e['old'])} times in {e['file']} (need 1)"); bad=True; break
                    open(path,"w").write(s.replace(e["old"],e["new"]))
                if bad: continue
            for pid in (only or m["props"]):
                t=time.time()
                env=dict(os.environ); env.setdefault("VERIF_SEED","0")
                r=subprocess.run([os.path.join(ROOT,"check"),pid,tier],capture_output=True,text=True,env=env)
                verdict={0:"SURVIVED",1:"KILLED"}.get(r.returncode,"INCONCLUSIVE")
                line=[l for l in r.stdout.splitlines() if l.startswith("VIOLATION") or l.startswith("INCONCLUSIVE")]
                det=[l for l in r.stdout.splitlines() if l.strip().startswith("phase=") or l.strip().startswith("detail")]
                print(f"{name} x {pid}: {verdict} ({time.time()-t:.0f}s) {line[0][:120] if line else ''}")
                if det: print("    "+det[0].strip()[:300])
                if verdict=="INCONCLUSIVE": print("    "+r.stdout[-400:].replace("\n"," | "))
                results.append((name,pid,verdict))
                record(name,pid,verdict,det[0].strip()[:300] if det else "")
        finally:
            subprocess.run(["git","-C",REPO,"checkout","--","."])
    assert clean()
    return results

main()
