//! Supervised worker process for crash / hang / stack-overflow properties
//! (C04, C13, C17).
//!
//! Child side (`rv --worker`): owns a `Context`, serves length-prefixed JSON
//! commands on its main thread (8 MiB stack, RLIMIT_AS 3 GiB), each command
//! under catch_unwind; fd 1 is pointed at /dev/null (the loader prints there)
//! and the protocol uses a private duplicate.
//!
//! Parent side: `Worker::call(cmd, budget)` sends one command and classifies
//! the outcome as reply / panic (reported by the child) / death by signal or
//! exit / budget exceeded.

use crate::engine::{catch, install_panic_hook};
use rink_core::output::fmt::{Span, TokenFmt};
use rink_core::output::{QueryError, QueryReply};
use rink_core::Context;
use serde_json::{json, Value as J};
use std::io::{Read, Write};
use std::os::unix::io::FromRawFd;
use std::os::unix::process::ExitStatusExt;
use std::process::{Child, ChildStdin, Command, Stdio};
use std::sync::mpsc::{channel, Receiver, RecvTimeoutError};
use std::time::{Duration, Instant};

// ---------------------------------------------------------------------------
// child
// ---------------------------------------------------------------------------

fn flatten_spans(spans: &[Span], out: &mut String, depth: usize) {
    if depth > 64 {
        return;
    }
    for s in spans {
        match s {
            Span::Content { text, .. } => out.push_str(text),
            Span::Child(c) => flatten_spans(&c.to_spans(), out, depth + 1),
        }
    }
}

/// everything the property asks of one input: evaluate, then render in every
/// output form
pub fn eval_all_forms(ctx: &mut Context, line: &str, save_prev: bool, pinned: bool) -> J {
    ctx.save_previous_result = save_prev;
    let res: Result<QueryReply, QueryError> = if pinned {
        // parse + eval_query with the pinned clock, `ans` handled like rink_core::eval does
        let mut iter = rink_core::parsing::text_query::TokenIterator::new(line.trim()).peekable();
        let q = rink_core::parsing::text_query::parse_query(&mut iter);
        let r = ctx.eval_query(&q);
        if let (true, Ok(QueryReply::Number(parts))) = (save_prev, &r) {
            if let Some(raw) = &parts.raw_value {
                ctx.previous_result = Some(raw.clone());
            }
        }
        r
    } else {
        rink_core::eval(ctx, line)
    };
    let (kind, variant, text, spans, js) = match &res {
        Ok(r) => {
            let text = r.to_string();
            let mut flat = String::new();
            flatten_spans(&r.to_spans(), &mut flat, 0);
            let js = serde_json::to_value(r).map(|v| v.to_string().len()).unwrap_or(0);
            let variant = match r {
                QueryReply::Number(_) => "Number",
                QueryReply::Date(_) => "Date",
                QueryReply::Substance(_) => "Substance",
                QueryReply::Duration(_) => "Duration",
                QueryReply::Def(_) => "Def",
                QueryReply::Conversion(_) => "Conversion",
                QueryReply::Factorize(_) => "Factorize",
                QueryReply::UnitsFor(_) => "UnitsFor",
                QueryReply::UnitList(_) => "UnitList",
                QueryReply::Search(_) => "Search",
            };
            ("reply", variant, text, flat, js)
        }
        Err(e) => {
            let text = e.to_string();
            let mut flat = String::new();
            flatten_spans(&e.to_spans(), &mut flat, 0);
            let js = serde_json::to_value(e).map(|v| v.to_string().len()).unwrap_or(0);
            let variant = match e {
                QueryError::Conformance(_) => "Conformance",
                QueryError::NotFound(_) => "NotFound",
                QueryError::Generic { .. } => "Generic",
            };
            ("error", variant, text, flat, js)
        }
    };
    let cut = |s: &str| -> String { s.chars().take(400).collect() };
    let ans_bits = match ctx.previous_result.as_ref().map(|n| &n.value) {
        Some(rink_core::types::Numeric::Rational(r)) => (r.numer().inner().bits().max(1), r.denom().inner().bits().max(1)),
        Some(_) => (1100, 1100),
        None => (1, 1),
    };
    json!({"kind": kind, "variant": variant, "text": cut(&text), "spans_len": spans.len(), "json_len": js, "ans_bits": [ans_bits.0, ans_bits.1]})
}

fn handle(ctx: &mut Option<Context>, cmd: &J) -> J {
    let c = cmd["cmd"].as_str().unwrap_or("");
    match c {
        "ping" => json!({"ok": true}),
        "new_ctx" => {
            let mut c = rink_core::simple_context().expect("simple_context");
            if cmd["pinned"].as_bool().unwrap_or(false) {
                crate::rinkx::pin_time(&mut c);
            }
            c.use_humanize = cmd["humanize"].as_bool().unwrap_or(true);
            *ctx = Some(c);
            json!({"ok": true})
        }
        "empty_ctx" => {
            *ctx = Some(Context::new());
            json!({"ok": true})
        }
        "eval" => {
            let line = cmd["line"].as_str().unwrap_or("");
            let save = cmd["save_prev"].as_bool().unwrap_or(true);
            let pinned = cmd["pinned"].as_bool().unwrap_or(false);
            match ctx.as_mut() {
                Some(c) => eval_all_forms(c, line, save, pinned),
                None => json!({"kind": "no-context"}),
            }
        }
        "load_defs" => {
            let text = cmd["text"].as_str().unwrap_or("");
            if cmd["fresh"].as_bool().unwrap_or(true) || ctx.is_none() {
                *ctx = Some(Context::new());
            }
            let r = ctx.as_mut().unwrap().load_definitions(text);
            match r {
                Ok(()) => json!({"ok": true}),
                Err(e) => json!({"ok": false, "err": e}),
            }
        }
        "load_currency" => {
            let js = cmd["json"].as_str().unwrap_or("");
            let base = cmd["base"].as_str().unwrap_or("");
            if ctx.is_none() {
                *ctx = Some(Context::new());
            }
            let r = ctx.as_mut().unwrap().load_currency(js, base);
            match r {
                Ok(()) => json!({"ok": true}),
                Err(e) => json!({"ok": false, "err": e}),
            }
        }
        "lookup" => {
            let name = cmd["name"].as_str().unwrap_or("");
            match ctx.as_ref().and_then(|c| c.lookup(name)) {
                Some(n) => json!({"found": true, "exact": crate::oracle::regdump::number_text(&n)}),
                None => json!({"found": false}),
            }
        }
        "load_dates" => {
            let text = cmd["text"].as_str().unwrap_or("");
            if ctx.is_none() {
                *ctx = Some(Context::new());
            }
            ctx.as_mut().unwrap().load_date_file(text);
            json!({"ok": true})
        }
        _ => json!({"kind": "bad-command"}),
    }
}

/// entry point of `rv --worker`
pub fn worker_main() -> ! {
    install_panic_hook();
    unsafe {
        // a worker never outlives the process that supervises it (a supervisor that is killed
        // while its worker is inside a long evaluation would otherwise leave it spinning)
        libc::prctl(libc::PR_SET_PDEATHSIG, libc::SIGKILL);
        let lim = libc::rlimit {
            rlim_cur: 3 << 30,
            rlim_max: 3 << 30,
        };
        libc::setrlimit(libc::RLIMIT_AS, &lim);
    }
    // protocol on a private fd; fd 1 -> /dev/null
    let proto_fd = unsafe { libc::dup(1) };
    let devnull = std::fs::OpenOptions::new().write(true).open("/dev/null").expect("devnull");
    unsafe {
        libc::dup2(std::os::unix::io::AsRawFd::as_raw_fd(&devnull), 1);
    }
    let mut out = unsafe { std::fs::File::from_raw_fd(proto_fd) };
    let stdin = std::io::stdin();
    let mut inp = stdin.lock();
    let mut ctx: Option<Context> = None;
    loop {
        let mut len = [0u8; 4];
        if inp.read_exact(&mut len).is_err() {
            std::process::exit(0);
        }
        let n = u32::from_le_bytes(len) as usize;
        let mut buf = vec![0u8; n];
        if inp.read_exact(&mut buf).is_err() {
            std::process::exit(0);
        }
        let cmd: J = serde_json::from_slice(&buf).unwrap_or(json!({"cmd": "bad"}));
        let reply = match catch(|| handle(&mut ctx, &cmd)) {
            Ok(r) => r,
            Err(p) => json!({"kind": "panic", "msg": p}),
        };
        let bytes = serde_json::to_vec(&reply).unwrap();
        let _ = out.write_all(&(bytes.len() as u32).to_le_bytes());
        let _ = out.write_all(&bytes);
        let _ = out.flush();
    }
}

// ---------------------------------------------------------------------------
// parent
// ---------------------------------------------------------------------------

#[derive(Debug, Clone)]
pub enum Outcome {
    Reply(J),
    /// the child caught a panic and reported it
    Panic(String),
    /// the child died: signal number or exit code
    Died(String),
    /// no reply within the budget (child killed)
    Timeout(f64),
}

pub struct Worker {
    child: Child,
    stdin: Option<ChildStdin>,
    rx: Receiver<Option<Vec<u8>>>,
    pub spawned: Instant,
}

impl Worker {
    pub fn spawn() -> Result<Worker, String> {
        // the running image, even if the file on disk is replaced by a concurrent build
        let exe = if std::path::Path::new("/proc/self/exe").exists() {
            std::path::PathBuf::from("/proc/self/exe")
        } else {
            std::env::current_exe().map_err(|e| e.to_string())?
        };
        let mut cmd = Command::new(exe);
        cmd.arg("--worker").stdin(Stdio::piped()).stdout(Stdio::piped()).stderr(Stdio::null());
        unsafe {
            use std::os::unix::process::CommandExt;
            cmd.pre_exec(|| {
                // main-thread stack like an interactive rink: 8 MiB
                let lim = libc::rlimit {
                    rlim_cur: 8 << 20,
                    rlim_max: 8 << 20,
                };
                libc::setrlimit(libc::RLIMIT_STACK, &lim);
                Ok(())
            });
        }
        let mut child = cmd.spawn().map_err(|e| format!("spawn worker: {}", e))?;
        let stdin = child.stdin.take();
        let mut stdout = child.stdout.take().ok_or("no stdout")?;
        let (tx, rx) = channel();
        std::thread::Builder::new()
            .name("worker-reader".into())
            .spawn(move || loop {
                let mut len = [0u8; 4];
                if stdout.read_exact(&mut len).is_err() {
                    let _ = tx.send(None);
                    break;
                }
                let n = u32::from_le_bytes(len) as usize;
                let mut buf = vec![0u8; n];
                if stdout.read_exact(&mut buf).is_err() {
                    let _ = tx.send(None);
                    break;
                }
                if tx.send(Some(buf)).is_err() {
                    break;
                }
            })
            .map_err(|e| e.to_string())?;
        Ok(Worker {
            child,
            stdin,
            rx,
            spawned: Instant::now(),
        })
    }

    pub fn call(&mut self, cmd: &J, budget: Duration) -> Outcome {
        let bytes = serde_json::to_vec(cmd).unwrap();
        let t0 = Instant::now();
        let sent = match self.stdin.as_mut() {
            Some(s) => s
                .write_all(&(bytes.len() as u32).to_le_bytes())
                .and_then(|_| s.write_all(&bytes))
                .and_then(|_| s.flush())
                .is_ok(),
            None => false,
        };
        if !sent {
            return self.death();
        }
        match self.rx.recv_timeout(budget) {
            Ok(Some(buf)) => match serde_json::from_slice::<J>(&buf) {
                Ok(v) => {
                    if v["kind"].as_str() == Some("panic") {
                        Outcome::Panic(v["msg"].as_str().unwrap_or("").to_string())
                    } else {
                        Outcome::Reply(v)
                    }
                }
                Err(e) => Outcome::Died(format!("garbled reply: {}", e)),
            },
            Ok(None) => self.death(),
            Err(RecvTimeoutError::Timeout) => {
                let _ = self.child.kill();
                let _ = self.child.wait();
                Outcome::Timeout(t0.elapsed().as_secs_f64())
            }
            Err(RecvTimeoutError::Disconnected) => self.death(),
        }
    }

    fn death(&mut self) -> Outcome {
        self.stdin = None;
        // give the kernel a moment to reap
        let t0 = Instant::now();
        loop {
            match self.child.try_wait() {
                Ok(Some(st)) => {
                    return Outcome::Died(match (st.signal(), st.code()) {
                        (Some(s), _) => format!("signal {}{}", s, signal_name(s)),
                        (_, Some(c)) => format!("exit code {}", c),
                        _ => "unknown".into(),
                    })
                }
                Ok(None) => {
                    if t0.elapsed() > Duration::from_secs(5) {
                        let _ = self.child.kill();
                        let _ = self.child.wait();
                        return Outcome::Died("pipe closed, process lingering (killed)".into());
                    }
                    std::thread::sleep(Duration::from_millis(5));
                }
                Err(e) => return Outcome::Died(format!("wait failed: {}", e)),
            }
        }
    }
}

impl Drop for Worker {
    fn drop(&mut self) {
        self.stdin = None;
        let _ = self.child.kill();
        let _ = self.child.wait();
    }
}

fn signal_name(s: i32) -> &'static str {
    match s {
        11 => " (SIGSEGV: stack overflow)",
        6 => " (SIGABRT: allocation failure / abort)",
        9 => " (SIGKILL)",
        7 => " (SIGBUS)",
        _ => "",
    }
}

/// A worker that is (re)started on demand with a prelude of commands that
/// rebuild its state.
pub struct Supervised {
    pub worker: Option<Worker>,
    pub prelude: Vec<J>,
    pub restarts: u64,
}

impl Supervised {
    pub fn new(prelude: Vec<J>) -> Supervised {
        Supervised {
            worker: None,
            prelude,
            restarts: 0,
        }
    }
    pub fn ensure(&mut self) -> Result<(), String> {
        if self.worker.is_some() {
            return Ok(());
        }
        let mut w = Worker::spawn()?;
        for c in &self.prelude {
            match w.call(c, Duration::from_secs(60)) {
                Outcome::Reply(_) => {}
                other => return Err(format!("worker prelude failed: {:?}", other)),
            }
        }
        self.worker = Some(w);
        self.restarts += 1;
        Ok(())
    }
    /// one command; on any non-reply outcome the worker is discarded
    pub fn call(&mut self, cmd: &J, budget: Duration) -> Result<Outcome, String> {
        self.ensure()?;
        let o = self.worker.as_mut().unwrap().call(cmd, budget);
        if !matches!(o, Outcome::Reply(_)) {
            self.worker = None;
        }
        Ok(o)
    }
    /// run `cmd` alone on a fresh, idle worker (used to confirm hangs)
    pub fn call_alone(&mut self, cmd: &J, budget: Duration) -> Result<Outcome, String> {
        self.worker = None;
        self.call(cmd, budget)
    }
}
