pub mod refarith;
