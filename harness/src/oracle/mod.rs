pub mod numeral;
pub mod refarith;
pub mod regdump;
pub mod cost;
