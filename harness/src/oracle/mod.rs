pub mod numeral;
pub mod refarith;
