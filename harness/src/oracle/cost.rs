//! Static cost classifier for C04: is this input "cheap" (its exact result and
//! every intermediate value stay small), or is it allowed to take long because
//! its exact result is astronomically large?
//!
//! Stage 1 is a text scan (before any parsing: parsing `1e999999999` already
//! computes 10^999999999). Stage 2 parses with rink (now bounded) and runs an
//! abstract interpreter that bounds log2 of numerator and denominator of every
//! intermediate value. Exponents and shift counts are evaluated with rink only
//! when their own sub-expression has already been classified cheap.

use crate::engine::catch;
use rink_core::ast::{BinOpType, Conversion, Expr, Query, UnaryOpType};
use rink_core::parsing::text_query::{parse_query, TokenIterator};
use rink_core::types::Numeric;
use rink_core::{Context, Value};

#[derive(Debug, Clone, PartialEq)]
pub enum Cost {
    Cheap,
    Expensive(&'static str),
}

pub const MAX_CHARS: usize = 500;
pub const MAX_EXP_DIGITS_VALUE: u64 = 5000;
pub const MAX_DIGITS_ARG: u64 = 10_000;
pub const MAX_BITS: u64 = 1 << 15;
pub const MAX_FACTORIZE_SCORE: i64 = 10;

/// does the text contain a literal exponent above 5000 (any `e`/`E` followed by such digits)?
pub fn has_huge_exponent(text: &str) -> bool {
    // in whole files only an `e` that follows a digit can start an exponent
    // (unit names such as `scale60000` must not count)
    let chars: Vec<char> = text.chars().collect();
    let mut i = 1;
    while i < chars.len() {
        if (chars[i] == 'e' || chars[i] == 'E') && (chars[i - 1].is_ascii_digit() || chars[i - 1] == '.') {
            // the literal must not be part of a longer identifier: walk back over digits and dots
            let mut j = i - 1;
            while j > 0 && (chars[j - 1].is_ascii_digit() || chars[j - 1] == '.' || chars[j - 1] == '_') {
                j -= 1;
            }
            let starts_ident = j > 0 && (chars[j - 1].is_alphanumeric() || chars[j - 1] == '_');
            if !starts_ident {
                let mut k = i + 1;
                if k < chars.len() && (chars[k] == 'e' || chars[k] == 'E') {
                    k += 1;
                }
                if k < chars.len() && (chars[k] == '+' || chars[k] == '-') {
                    k += 1;
                }
                let mut v: u64 = 0;
                let mut digits = 0;
                while k < chars.len() && (chars[k].is_ascii_digit() || chars[k] == '_' || chars[k] == '\u{2009}') {
                    if let Some(d) = chars[k].to_digit(10) {
                        v = v.saturating_mul(10).saturating_add(d as u64);
                        digits += 1;
                    }
                    k += 1;
                }
                if digits > 0 && v > MAX_EXP_DIGITS_VALUE {
                    return true;
                }
            }
        }
        i += 1;
    }
    false
}

/// does the text raise something to a literal power above 5000, or shift by that much (`^`, `**`, `<<`
/// followed, after blanks, signs and opening parentheses, by such an integer)? In a whole file the base is
/// unknown, so this over-approximates "astronomically large".
pub fn has_huge_power(text: &str) -> bool {
    let chars: Vec<char> = text.chars().collect();
    // value of the literal (or tower of literals `8^9`, which the parser reads as 8^(9)) that starts at k
    fn tower(chars: &[char], mut k: usize, depth: u32) -> u64 {
        while k < chars.len() && (chars[k] == '*' || chars[k] == '<' || chars[k] == ' ' || chars[k] == '\t' || chars[k] == '-' || chars[k] == '+' || chars[k] == '(') {
            k += 1;
        }
        let mut v: u64 = 0;
        let mut digits = 0;
        while k < chars.len() && (chars[k].is_ascii_digit() || chars[k] == '_' || chars[k] == '\u{2009}') {
            if let Some(d) = chars[k].to_digit(10) {
                v = v.saturating_mul(10).saturating_add(d as u64);
                digits += 1;
            }
            k += 1;
        }
        if digits == 0 || depth > 6 {
            return v;
        }
        while k < chars.len() && (chars[k] == ' ' || chars[k] == '\t' || chars[k] == ')') {
            k += 1;
        }
        let caret = k < chars.len() && (chars[k] == '^' || (chars[k] == '*' && k + 1 < chars.len() && chars[k + 1] == '*'));
        if caret && v >= 2 {
            let e = tower(chars, k + 1, depth + 1);
            if e >= 2 {
                return v.checked_pow(e.min(64) as u32).unwrap_or(u64::MAX);
            }
        }
        v
    }
    let mut i = 0;
    while i < chars.len() {
        let op = chars[i] == '^' || (chars[i] == '*' && i + 1 < chars.len() && chars[i + 1] == '*') || (chars[i] == '<' && i + 1 < chars.len() && chars[i + 1] == '<');
        if op && tower(&chars, i + 1, 0) > MAX_EXP_DIGITS_VALUE {
            return true;
        }
        i += 1;
    }
    false
}

fn text_scan(line: &str) -> Cost {
    let chars: Vec<char> = line.chars().collect();
    if chars.len() > MAX_CHARS {
        return Cost::Expensive("longer than 500 characters (outside the property's domain)");
    }
    if let Cost::Expensive(w) = scan_exponents(&chars) {
        return Cost::Expensive(w);
    }
    scan_digits_keyword(line)
}

fn scan_exponents(chars: &[char]) -> Cost {
    let n = chars.len();
    let mut i = 0;
    while i < n {
        let c = chars[i];
        if c == 'e' || c == 'E' {
            let mut j = i + 1;
            if j < n && (chars[j] == 'e' || chars[j] == 'E') {
                j += 1;
            }
            if j < n && (chars[j] == '+' || chars[j] == '-') {
                j += 1;
            }
            let mut v: u64 = 0;
            let mut digits = 0;
            while j < n && (chars[j].is_ascii_digit() || chars[j] == '_' || chars[j] == '\u{2009}') {
                if let Some(d) = chars[j].to_digit(10) {
                    v = v.saturating_mul(10).saturating_add(d as u64);
                    digits += 1;
                }
                j += 1;
            }
            if digits > 0 && v > MAX_EXP_DIGITS_VALUE {
                return Cost::Expensive("literal exponent above 5000");
            }
        }
        i += 1;
    }
    Cost::Cheap
}

fn scan_digits_keyword(line: &str) -> Cost {
    // `digits N`
    let lower = line.to_lowercase();
    let mut from = 0;
    while let Some(p) = lower[from..].find("digits") {
        let start = from + p + 6;
        let rest: String = lower[start..].chars().skip_while(|c| c.is_whitespace()).take_while(|c| c.is_ascii_digit() || *c == '_' || *c == '\u{2009}').collect();
        let mut v: u64 = 0;
        for d in rest.chars().filter_map(|c| c.to_digit(10)) {
            v = v.saturating_mul(10).saturating_add(d as u64);
        }
        if v > MAX_DIGITS_ARG {
            return Cost::Expensive("digits count above 10000");
        }
        from = start;
    }
    Cost::Cheap
}

struct Interp<'a> {
    ctx: &'a Context,
    why: Option<&'static str>,
    /// size of the previous answer on the context that will evaluate the input
    ans_bits: (u64, u64),
    /// a huge exponent on a value of magnitude one was seen (see Pow)
    may_overrun: bool,
}

const SAT: u64 = 1 << 40;

fn bits_of(n: &Numeric) -> (u64, u64) {
    match n {
        Numeric::Rational(r) => (r.numer().inner().bits().max(1), r.denom().inner().bits().max(1)),
        Numeric::Float(_) => (1100, 1100),
    }
}

impl<'a> Interp<'a> {
    fn flag(&mut self, why: &'static str) {
        if self.why.is_none() {
            self.why = Some(why);
        }
    }
    fn check(&mut self, b: (u64, u64)) -> (u64, u64) {
        if b.0 > MAX_BITS || b.1 > MAX_BITS {
            self.flag("an intermediate or final value beyond 2^15 bits");
        }
        (b.0.min(SAT), b.1.min(SAT))
    }
    /// |value| of a sub-expression that has been classified cheap, via rink itself
    fn magnitude(&mut self, e: &Expr) -> Option<f64> {
        if mentions_ans(e) {
            return None;
        }
        match catch(|| self.ctx.eval(e)) {
            Ok(Ok(Value::Number(n))) => {
                let v = n.value.to_f64().abs();
                if v.is_finite() {
                    Some(v)
                } else {
                    Some(0.0) // NaN / inf: the operation errors (or panics) at once
                }
            }
            Ok(_) => Some(0.0), // evaluation error: the whole thing errors cheaply
            Err(_) => Some(0.0), // panics: cheap (and the worker will report it)
        }
    }
    fn size(&mut self, e: &Expr) -> (u64, u64) {
        if self.why.is_some() {
            return (1, 1);
        }
        let r = match e {
            Expr::Const { value } => bits_of(value),
            Expr::Unit { name } if name == "ans" || name == "ANS" || name == "_" => self.ans_bits,
            Expr::Unit { name } => match self.ctx.lookup(name) {
                Some(n) => bits_of(&n.value),
                None => (2048, 2048),
            },
            Expr::Quote { .. } | Expr::Date { .. } | Expr::Error { .. } => (64, 64),
            Expr::Of { expr, .. } => {
                let a = self.size(expr);
                (a.0 + 2048, a.1 + 2048)
            }
            Expr::Call { args, .. } => {
                for a in args {
                    self.size(a);
                }
                (1100, 1100)
            }
            Expr::Mul { exprs } => {
                let mut acc = (1u64, 1u64);
                for x in exprs {
                    let b = self.size(x);
                    acc = (acc.0 + b.0, acc.1 + b.1);
                }
                acc
            }
            Expr::UnaryOp(u) => {
                let a = self.size(&u.expr);
                match u.op {
                    UnaryOpType::Degree(_) => (a.0 + a.1 + 256, a.1 + 256),
                    _ => a,
                }
            }
            Expr::BinOp(b) => {
                let x = self.size(&b.left);
                if self.why.is_some() {
                    return (1, 1);
                }
                let y = self.size(&b.right);
                if self.why.is_some() {
                    return (1, 1);
                }
                match b.op {
                    BinOpType::Add | BinOpType::Sub => ((x.0 + y.1).max(y.0 + x.1) + 1, x.1 + y.1),
                    BinOpType::Frac => (x.0 + y.1, x.1 + y.0),
                    BinOpType::Equals => y,
                    BinOpType::Mod => (x.0 + y.1 + y.0 + x.1, x.1 + y.1),
                    BinOpType::And | BinOpType::Or | BinOpType::Xor => (x.0.max(y.0) + 1, 1),
                    BinOpType::Pow => match self.magnitude(&b.right) {
                        Some(k) => {
                            if k >= 2147483648.0 {
                                (x.0, x.1) // refused: "exponent too large"
                            } else if x == (1, 1) {
                                // numerator and denominator of one bit: the base is 0 or +-1 (a product
                                // of bare base units, say), and so is every power of it whatever the
                                // exponent. Only the *dimension* exponents get large: the statement lets
                                // an input with a huge literal exponent take long (rendering a result
                                // like meter^1073741824 does), but it must still not crash.
                                // (the exponent that matters is the one the dimensions end up with:
                                // `((m^49)^49)^6` is m^14406 although no literal is large)
                                let resulting = match catch(|| self.ctx.eval(e)) {
                                    Ok(Ok(Value::Number(n))) => n.unit.iter().map(|(_, p)| p.unsigned_abs()).max().unwrap_or(0),
                                    _ => 0,
                                };
                                if k > 4096.0 || resulting > 4096 {
                                    self.may_overrun = true;
                                }
                                (1, 1)
                            } else {
                                let k = k.ceil() as u64;
                                let k = k.max(1);
                                let m = x.0.max(x.1).saturating_mul(k);
                                (m, m)
                            }
                        }
                        None => {
                            self.flag("exponent depends on the previous answer");
                            (1, 1)
                        }
                    },
                    BinOpType::ShiftL | BinOpType::ShiftR => match self.magnitude(&b.right) {
                        Some(k) => {
                            if k >= 2147483648.0 {
                                (x.0, x.1)
                            } else {
                                let k = k.ceil() as u64;
                                (x.0 + k, x.1 + k)
                            }
                        }
                        None => {
                            self.flag("shift count depends on the previous answer");
                            (1, 1)
                        }
                    },
                }
            }
        };
        let r = if self.why.is_none() && r != (1, 1) && unit_magnitude(self.ctx, e) { (1, 1) } else { r };
        self.check(r)
    }
}

/// is the value certainly 0 or +-1 (products, quotients, powers and signs of units of value one)?
fn unit_magnitude(ctx: &Context, e: &Expr) -> bool {
    match e {
        Expr::Const { value } => bits_of(value) == (1, 1),
        Expr::Unit { name } if name == "ans" || name == "ANS" || name == "_" => false,
        Expr::Unit { name } => match ctx.lookup(name) {
            Some(n) => bits_of(&n.value) == (1, 1),
            None => false,
        },
        Expr::Quote { .. } => true,
        Expr::Mul { exprs } => exprs.iter().all(|x| unit_magnitude(ctx, x)),
        Expr::UnaryOp(u) => matches!(u.op, UnaryOpType::Negative | UnaryOpType::Positive) && unit_magnitude(ctx, &u.expr),
        Expr::BinOp(b) => match b.op {
            BinOpType::Frac => unit_magnitude(ctx, &b.left) && unit_magnitude(ctx, &b.right),
            BinOpType::Pow => unit_magnitude(ctx, &b.left),
            _ => false,
        },
        _ => false,
    }
}

fn mentions_ans(e: &Expr) -> bool {
    match e {
        Expr::Unit { name } => name == "ans" || name == "ANS" || name == "_",
        Expr::BinOp(b) => mentions_ans(&b.left) || mentions_ans(&b.right),
        Expr::UnaryOp(u) => mentions_ans(&u.expr),
        Expr::Mul { exprs } => exprs.iter().any(mentions_ans),
        Expr::Of { expr, .. } => mentions_ans(expr),
        Expr::Call { args, .. } => args.iter().any(mentions_ans),
        _ => false,
    }
}

/// does `ans` occur at all (then sizes depend on history: bound it by the cap below)
pub fn uses_ans(line: &str) -> bool {
    let l = line;
    l.contains("ans") || l.contains("ANS") || l.contains('_')
}

pub struct Classified {
    /// cheap, but with a huge exponent on a value of magnitude one: may take long, must not crash
    pub may_overrun: bool,
    pub cost: Cost,
    /// parsed to something beyond a bare error (for the non-triviality rule)
    pub parsed_ok: bool,
}

pub fn classify(ctx: &Context, line: &str, ans_bits: (u64, u64)) -> Classified {
    if let Cost::Expensive(w) = text_scan(line) {
        return Classified {
            may_overrun: false,
            cost: Cost::Expensive(w),
            parsed_ok: false,
        };
    }
    let q = match catch(|| {
        let mut iter = TokenIterator::new(line.trim()).peekable();
        parse_query(&mut iter)
    }) {
        Ok(q) => q,
        Err(_) => {
            // the parser panicked: that is a finding the worker will reproduce
            return Classified {
                may_overrun: false,
                cost: Cost::Cheap,
                parsed_ok: true,
            };
        }
    };
    let mut it = Interp { ctx, why: None, ans_bits, may_overrun: false };
    let mut parsed_ok = true;
    match &q {
        Query::Expr(e) => {
            if let Expr::Error { .. } = e {
                parsed_ok = false;
            }
            it.size(e);
        }
        Query::Convert(e, conv, _, digits) => {
            let mut bits = it.size(e);
            if let Conversion::Expr(t) = conv {
                let b = it.size(t);
                bits = (bits.0 + b.1, bits.1 + b.0);
            }
            // long division: every requested digit costs a pass over the value
            // (`2 -> digits 10000 100062^1000`, 20000 digits of a 17000-bit fraction, takes minutes)
            let requested: u64 = match digits {
                rink_core::output::Digits::Digits(n) => (*n).min(1 << 20),
                rink_core::output::Digits::FullInt | rink_core::output::Digits::Fraction => 1000,
                _ => 8,
            };
            if it.why.is_none() && requested.saturating_mul(bits.0.max(bits.1)) > 10_000_000 {
                it.flag("requested digits times the size of the value above 10^7 (quadratic long division)");
            }
        }
        Query::UnitsFor(e) => {
            it.size(e);
        }
        Query::Factorize(e) => {
            it.size(e);
            // since the search remembers each dimensionality and refuses hopeless ones (fix for
            // finding F-11) a factorize costs at most a few seconds whatever its operand
        }
        Query::Search(_) => {}
        Query::Error(_) => parsed_ok = false,
    }
    Classified {
        may_overrun: it.may_overrun,
        cost: match it.why {
            Some(w) => Cost::Expensive(w),
            None => Cost::Cheap,
        },
        parsed_ok,
    }
}

/// `text` with every numeric literal (digits not preceded by a letter, with their separators, fraction
/// and exponent) replaced by `1`; digits inside names stay
pub fn reduce_numbers(text: &str) -> String {
    let cs: Vec<char> = text.chars().collect();
    let n = cs.len();
    let mut out = String::with_capacity(n);
    let mut i = 0;
    // inside a name (a letter or underscore followed by letters, digits, underscores)
    let mut in_name = false;
    while i < n {
        let c = cs[i];
        if c.is_alphabetic() || c == '_' {
            in_name = true;
        } else if !(c.is_ascii_digit() && in_name) {
            in_name = false;
        }
        if c.is_ascii_digit() && !in_name {
            let mut j = i;
            while j < n && (cs[j].is_ascii_digit() || cs[j] == '_' || cs[j] == '.' || cs[j] == '\u{2009}' || cs[j] == '\\') {
                j += 1;
            }
            if j < n && (cs[j] == 'e' || cs[j] == 'E') {
                let mut k = j + 1;
                while k < n && "eE+-\\_ ".contains(cs[k]) {
                    k += 1;
                }
                if k < n && cs[k].is_ascii_digit() {
                    while k < n && (cs[k].is_ascii_digit() || cs[k] == '_') {
                        k += 1;
                    }
                    j = k;
                }
            }
            out.push('1');
            i = j;
        } else {
            out.push(c);
            i += 1;
        }
    }
    out
}

/// The static bound applied to a whole definitions text: every expression of every definition the
/// definitions parser finds in it is sized like a query's (names the text defines itself are not in
/// `ctx`: they count as 2048-bit values). Some(reason) when one of them is on the expensive side of
/// C04's line or raises a unit-magnitude value to a huge power.
pub fn defs_expensive(ctx: &Context, text: &str) -> Option<&'static str> {
    use rink_core::ast::Def;
    let mut defs = vec![];
    let text = text.to_string();
    let _ = crate::props::c08::capture_stdout(|| {
        if let Ok(d) = catch(|| rink_core::loader::gnu_units::parse_str(&text).defs) {
            defs = d;
        }
    });
    let mut it = Interp { ctx, why: None, ans_bits: (1, 1), may_overrun: false };
    for e in &defs {
        match &*e.def {
            Def::Unit { expr } | Def::Quantity { expr } | Def::Prefix { expr, .. } => {
                it.size(&expr.0);
            }
            Def::Substance { properties, .. } => {
                for p in properties {
                    it.size(&p.input.0);
                    it.size(&p.output.0);
                }
            }
            _ => {}
        }
        if let Some(w) = it.why {
            return Some(w);
        }
        if it.may_overrun {
            return Some("a power above 4096 of a value of magnitude one");
        }
    }
    None
}

#[cfg(test)]
mod huge_power_tests {
    use super::has_huge_power;
    #[test]
    fn towers() {
        assert!(has_huge_power("K_J90 4395^8^9"));
        assert!(has_huge_power("x 2^(3^(4^5))"));
        assert!(has_huge_power("x 444^4444444"));
        assert!(has_huge_power("x 2 ** 10 ** 4"));
        assert!(has_huge_power("1 << 99999"));
        assert!(!has_huge_power("x 2^3^2"));
        assert!(!has_huge_power("m^2 kg^-3 10^24"));
        assert!(!has_huge_power("a^5000"));
    }
    #[test]
    fn reduce() {
        use super::reduce_numbers;
        assert_eq!(reduce_numbers("K_J90 4395^8^9 u0 + 1e\\982810912 m2"), "K_J90 1^1^1 u0 + 1 m2");
        assert_eq!(reduce_numbers("x .272__e___2________000000000 7"), "x .1 1");
        assert_eq!(reduce_numbers("cyc12x 2 cyc13x"), "cyc12x 1 cyc13x");
    }
}
