//! Independent reader for the numerals rink prints, in any base 2..36.
//!
//! Grammar read here (from the manual's examples, not from rink's printer):
//!   numeral  := ['-'] digits ['.' digits] [ '[' digits [', period ' DEC] ']...' ] ['e' ['-'] DEC]
//!             | ['-'] INT '/' INT            (fraction: both integers in the base)
//! `eK` multiplies by base^K (K written in decimal). In bases >= 15 the letter
//! `e` is also a digit, so a numeral may have several grammatical readings;
//! all of them are returned.

use super::refarith::{fold_digits, pow_big, Q};
use num_bigint::BigInt;
use num_traits::{One, Zero};

#[derive(Clone, Debug)]
pub struct Reading {
    pub value: Q,
    /// one unit of the last printed digit (base^(exp - fraction digits)); for
    /// recurring numerals and fractions this is not meaningful (exact forms)
    pub ulp: Q,
    pub negative: bool,
    pub frac_digits: usize,
    pub exponent: Option<i64>,
    pub block_len: Option<usize>,
    pub stated_period: Option<usize>,
    pub is_fraction: bool,
}

fn all_digits(s: &str, base: u32) -> bool {
    !s.is_empty() && s.chars().all(|c| c.is_digit(base) && !c.is_ascii_uppercase())
}

fn all_dec(s: &str) -> bool {
    !s.is_empty() && s.chars().all(|c| c.is_ascii_digit())
}

fn base_pow(base: u32, k: i64) -> Q {
    let p = pow_big(&BigInt::from(base), k.unsigned_abs());
    if k >= 0 {
        Q::int(p)
    } else {
        Q::new(BigInt::one(), p)
    }
}

/// Read the mantissa part (no exponent): digits ['.' digits] ['[' block [', period N'] ']...']
fn read_mantissa(m: &str, base: u32) -> Option<(Q, usize, Option<usize>, Option<usize>)> {
    let (plain, block, stated) = match m.find('[') {
        Some(i) => {
            let rest = &m[i + 1..];
            let rest = rest.strip_suffix("]...")?;
            let (blk, stated) = match rest.split_once(", period ") {
                Some((b, n)) => {
                    if !all_dec(n) {
                        return None;
                    }
                    (b, Some(n.parse::<usize>().ok()?))
                }
                None => (rest, None),
            };
            if !all_digits(blk, base) {
                return None;
            }
            (&m[..i], Some(blk), stated)
        }
        None => (m, None, None),
    };
    let (int_s, frac_s) = match plain.split_once('.') {
        Some((a, b)) => (a, Some(b)),
        None => (plain, None),
    };
    if !all_digits(int_s, base) {
        return None;
    }
    let frac_s = match frac_s {
        Some(f) => {
            // a '.' must be followed by digits or directly by the bracket
            if f.is_empty() && block.is_none() {
                return None;
            }
            if !f.is_empty() && !all_digits(f, base) {
                return None;
            }
            f
        }
        None => {
            if block.is_some() {
                return None; // a recurring block without a radix point
            }
            ""
        }
    };
    let int_v = fold_digits(int_s, base)?;
    let mut v = Q::int(int_v);
    let f = frac_s.chars().count();
    if f > 0 {
        let fv = fold_digits(frac_s, base)?;
        v = v.add(&Q::new(fv, pow_big(&BigInt::from(base), f as u64)));
    }
    let mut blen = None;
    if let Some(b) = block {
        let r = b.chars().count();
        let bv = fold_digits(b, base)?;
        let den = pow_big(&BigInt::from(base), f as u64) * (pow_big(&BigInt::from(base), r as u64) - BigInt::one());
        if den.is_zero() {
            return None;
        }
        v = v.add(&Q::new(bv, den));
        blen = Some(r);
    }
    Some((v, f, blen, stated))
}

/// All grammatical readings of `text` as a numeral in `base`.
pub fn read(text: &str, base: u32) -> Vec<Reading> {
    let mut out = vec![];
    let (neg, body) = match text.strip_prefix('-') {
        Some(r) => (true, r),
        None => (false, text),
    };
    if body.is_empty() {
        return out;
    }
    // fraction n/d: numerator and denominator are integers written in `base`
    if let Some((a, b)) = body.split_once('/') {
        if let (Some(n), Some(d)) = (fold_digits(a, base), fold_digits(b, base)) {
            if !a.is_empty() && !b.is_empty() && !d.is_zero() {
                let v = Q::new(if neg { -n } else { n }, d);
                out.push(Reading {
                    value: v,
                    ulp: Q::small(0),
                    negative: neg,
                    frac_digits: 0,
                    exponent: None,
                    block_len: None,
                    stated_period: None,
                    is_fraction: true,
                });
            }
        }
        return out;
    }
    // candidate splits: no exponent, or an 'e' whose tail is -?DEC
    let mut splits: Vec<(usize, Option<i64>)> = vec![(body.len(), None)];
    for (i, c) in body.char_indices() {
        if c == 'e' {
            let tail = &body[i + 1..];
            let (tn, digits) = match tail.strip_prefix('-') {
                Some(r) => (true, r),
                None => (false, tail),
            };
            if all_dec(digits) && digits.len() <= 12 {
                let k: i64 = digits.parse().unwrap();
                splits.push((i, Some(if tn { -k } else { k })));
            }
        }
    }
    for (cut, exp) in splits {
        let mant = &body[..cut];
        if let Some((v, f, blen, stated)) = read_mantissa(mant, base) {
            let k = exp.unwrap_or(0);
            if k.unsigned_abs() > 200_000 {
                continue;
            }
            let scale = base_pow(base, k);
            let mut value = v.mul(&scale);
            if neg {
                value = value.neg();
            }
            let ulp = base_pow(base, k - f as i64);
            out.push(Reading {
                value,
                ulp,
                negative: neg,
                frac_digits: f,
                exponent: exp,
                block_len: blen,
                stated_period: stated,
                is_fraction: false,
            });
        }
    }
    out
}

/// Does `r` denote `v` truncated toward zero with error below one ulp?
pub fn is_truncation_of(r: &Reading, v: &Q) -> bool {
    let rv = r.value.abs();
    let av = v.abs();
    if !rv.le(&av) {
        return false;
    }
    if !av.sub(&rv).lt(&r.ulp) {
        return false;
    }
    // signs: a non-zero reading must have v's sign; "-" only on negative v
    if !r.value.is_zero() && r.value.signum() != v.signum() {
        return false;
    }
    if r.negative && v.signum() >= 0 {
        return false;
    }
    true
}
