//! Independent exact rational arithmetic on *unreduced* (num, den) pairs.
//! Shares num-bigint's integer type with rink but none of num-rational,
//! rink's wrappers, parser or evaluator.

use num_bigint::{BigInt, Sign};
use num_traits::{One, Signed, Zero};

#[derive(Clone, Debug, PartialEq, Eq)]
pub struct Q {
    pub n: BigInt,
    pub d: BigInt, // never zero; any sign
}

#[derive(Clone, Debug, PartialEq, Eq)]
pub enum Undef {
    /// mathematically undefined: the implementation must return an error
    Undefined(&'static str),
    /// the manual does not specify this: any outcome but a wrong number/crash is fine
    Unspecified(&'static str),
    /// too large to be worth computing: skipped
    TooBig,
}

pub type R = Result<Q, Undef>;

pub const MAX_BITS: u64 = 1 << 16;

impl Q {
    pub fn int(n: BigInt) -> Q {
        Q { n, d: BigInt::one() }
    }
    pub fn small(n: i64) -> Q {
        Q::int(BigInt::from(n))
    }
    pub fn frac(n: i64, d: i64) -> Q {
        Q {
            n: BigInt::from(n),
            d: BigInt::from(d),
        }
    }
    pub fn new(n: BigInt, d: BigInt) -> Q {
        assert!(!d.is_zero());
        Q { n, d }
    }
    pub fn is_zero(&self) -> bool {
        self.n.is_zero()
    }
    pub fn bits(&self) -> u64 {
        self.n.bits().max(self.d.bits())
    }
    /// -1, 0, 1
    pub fn signum(&self) -> i32 {
        if self.n.is_zero() {
            0
        } else if (self.n.sign() == Sign::Minus) != (self.d.sign() == Sign::Minus) {
            -1
        } else {
            1
        }
    }
    pub fn neg(&self) -> Q {
        Q {
            n: -&self.n,
            d: self.d.clone(),
        }
    }
    pub fn abs(&self) -> Q {
        Q {
            n: self.n.abs(),
            d: self.d.abs(),
        }
    }
    pub fn add(&self, o: &Q) -> Q {
        Q {
            n: &self.n * &o.d + &o.n * &self.d,
            d: &self.d * &o.d,
        }
    }
    pub fn sub(&self, o: &Q) -> Q {
        Q {
            n: &self.n * &o.d - &o.n * &self.d,
            d: &self.d * &o.d,
        }
    }
    pub fn mul(&self, o: &Q) -> Q {
        Q {
            n: &self.n * &o.n,
            d: &self.d * &o.d,
        }
    }
    pub fn div(&self, o: &Q) -> Option<Q> {
        if o.n.is_zero() {
            None
        } else {
            Some(Q {
                n: &self.n * &o.d,
                d: &self.d * &o.n,
            })
        }
    }
    pub fn eq_val(&self, o: &Q) -> bool {
        &self.n * &o.d == &o.n * &self.d
    }
    /// compare values: self < o
    pub fn lt(&self, o: &Q) -> bool {
        // a/b < c/d  <=>  a*d*sgn(b*d) < c*b*sgn(b*d)
        let l = &self.n * &o.d;
        let r = &o.n * &self.d;
        let s = (&self.d * &o.d).sign();
        if s == Sign::Minus {
            l > r
        } else {
            l < r
        }
    }
    pub fn le(&self, o: &Q) -> bool {
        self.lt(o) || self.eq_val(o)
    }
    /// Some(integer value) if the value is an integer
    pub fn as_integer(&self) -> Option<BigInt> {
        let (q, r) = divrem_trunc(&self.n, &self.d);
        if r.is_zero() {
            Some(q)
        } else {
            None
        }
    }
    /// truncation toward zero
    pub fn trunc(&self) -> BigInt {
        divrem_trunc(&self.n, &self.d).0
    }
    /// integer power
    pub fn powi(&self, e: i64) -> R {
        if e == 0 {
            if self.is_zero() {
                return Err(Undef::Unspecified("0^0"));
            }
            return Ok(Q::small(1));
        }
        if self.is_zero() {
            if e < 0 {
                return Err(Undef::Undefined("zero to a negative power"));
            }
            return Ok(Q::small(0));
        }
        let k = e.unsigned_abs();
        if self.bits().saturating_mul(k) > MAX_BITS {
            return Err(Undef::TooBig);
        }
        let n = pow_big(&self.n, k);
        let d = pow_big(&self.d, k);
        if e < 0 {
            Ok(Q { n: d, d: n })
        } else {
            Ok(Q { n, d })
        }
    }
    /// truncated remainder: a - b*trunc(a/b); sign follows the dividend
    pub fn rem_trunc(&self, o: &Q) -> R {
        if o.is_zero() {
            return Err(Undef::Undefined("mod by zero"));
        }
        let quot = self.div(o).unwrap();
        let t = Q::int(quot.trunc());
        Ok(self.sub(&o.mul(&t)))
    }
    /// multiply by 2^k (k may be negative)
    pub fn shift(&self, k: i64) -> R {
        if (k.unsigned_abs()).saturating_add(self.bits()) > MAX_BITS {
            return Err(Undef::TooBig);
        }
        let p = pow_big(&BigInt::from(2), k.unsigned_abs());
        if k >= 0 {
            Ok(Q {
                n: &self.n * &p,
                d: self.d.clone(),
            })
        } else {
            Ok(Q {
                n: self.n.clone(),
                d: &self.d * &p,
            })
        }
    }
    pub fn to_string(&self) -> String {
        format!("{}/{}", self.n, self.d)
    }
    /// canonical (reduced, positive denominator) pair
    pub fn reduced(&self) -> (BigInt, BigInt) {
        let g = gcd(&self.n, &self.d);
        let (mut n, mut d) = if g.is_zero() {
            (self.n.clone(), self.d.clone())
        } else {
            (&self.n / &g, &self.d / &g)
        };
        if d.sign() == Sign::Minus {
            n = -n;
            d = -d;
        }
        (n, d)
    }
    pub fn parse(s: &str) -> Option<Q> {
        let (a, b) = match s.split_once('/') {
            Some((a, b)) => (a, b),
            None => (s, "1"),
        };
        let n = parse_dec(a)?;
        let d = parse_dec(b)?;
        if d.is_zero() {
            None
        } else {
            Some(Q { n, d })
        }
    }
}

/// decimal reader that folds digits itself (does not use BigInt's parser)
pub fn parse_dec(s: &str) -> Option<BigInt> {
    let (neg, body) = match s.strip_prefix('-') {
        Some(r) => (true, r),
        None => (false, s),
    };
    if body.is_empty() {
        return None;
    }
    let v = fold_digits(body, 10)?;
    Some(if neg { -v } else { v })
}

/// fold a digit string in the given radix; chunks of 16 digits through u128
pub fn fold_digits(digits: &str, radix: u32) -> Option<BigInt> {
    let mut acc = BigInt::zero();
    let bytes: Vec<char> = digits.chars().collect();
    let chunk = match radix {
        2 => 60,
        8 => 20,
        10 => 18,
        16 => 15,
        _ => 8,
    };
    for part in bytes.chunks(chunk) {
        let mut v: u128 = 0;
        let mut scale: u128 = 1;
        for c in part {
            let d = c.to_digit(radix)? as u128;
            v = v * radix as u128 + d;
            scale *= radix as u128;
        }
        acc = acc * BigInt::from(scale) + BigInt::from(v);
    }
    Some(acc)
}

pub fn pow_big(b: &BigInt, mut k: u64) -> BigInt {
    // square and multiply, own loop
    let mut result = BigInt::one();
    let mut base = b.clone();
    while k > 0 {
        if k & 1 == 1 {
            result = &result * &base;
        }
        k >>= 1;
        if k > 0 {
            base = &base * &base;
        }
    }
    result
}

pub fn gcd(a: &BigInt, b: &BigInt) -> BigInt {
    let mut x = a.abs();
    let mut y = b.abs();
    while !y.is_zero() {
        let r = &x % &y;
        x = y;
        y = r;
    }
    x
}

/// truncating division with remainder (sign of remainder = sign of dividend),
/// spelled out on magnitudes so it does not lean on the library's sign rules.
pub fn divrem_trunc(a: &BigInt, b: &BigInt) -> (BigInt, BigInt) {
    let qa = a.abs();
    let qb = b.abs();
    let q = &qa / &qb;
    let r = &qa - &q * &qb;
    let neg_q = (a.sign() == Sign::Minus) != (b.sign() == Sign::Minus);
    let neg_r = a.sign() == Sign::Minus;
    (if neg_q { -q } else { q }, if neg_r { -r } else { r })
}

/// two's-complement bitwise operation on arbitrary-size integers, computed
/// on sign-extended little-endian bytes (independent of BigInt's BitAnd etc).
pub fn bitop(a: &BigInt, b: &BigInt, op: u8) -> BigInt {
    let mut x = a.to_signed_bytes_le();
    let mut y = b.to_signed_bytes_le();
    let len = x.len().max(y.len()) + 1;
    let ex = if a.sign() == Sign::Minus { 0xff } else { 0 };
    let ey = if b.sign() == Sign::Minus { 0xff } else { 0 };
    x.resize(len, ex);
    y.resize(len, ey);
    let z: Vec<u8> = x
        .iter()
        .zip(y.iter())
        .map(|(p, q)| match op {
            b'&' => p & q,
            b'|' => p | q,
            _ => p ^ q,
        })
        .collect();
    BigInt::from_signed_bytes_le(&z)
}

// ---------------------------------------------------------------------------
// Modular fingerprints
// ---------------------------------------------------------------------------

pub fn mulmod(a: u64, b: u64, p: u64) -> u64 {
    ((a as u128 * b as u128) % p as u128) as u64
}
pub fn addmod(a: u64, b: u64, p: u64) -> u64 {
    ((a as u128 + b as u128) % p as u128) as u64
}
pub fn submod(a: u64, b: u64, p: u64) -> u64 {
    ((a as u128 + p as u128 - (b % p) as u128) % p as u128) as u64
}
pub fn powmod(mut a: u64, mut e: u64, p: u64) -> u64 {
    let mut r = 1u64;
    a %= p;
    while e > 0 {
        if e & 1 == 1 {
            r = mulmod(r, a, p);
        }
        a = mulmod(a, a, p);
        e >>= 1;
    }
    r
}
pub fn invmod(a: u64, p: u64) -> Option<u64> {
    if a % p == 0 {
        None
    } else {
        Some(powmod(a, p - 2, p))
    }
}
/// deterministic Miller-Rabin for u64
pub fn is_prime(n: u64) -> bool {
    if n < 2 {
        return false;
    }
    for q in [2u64, 3, 5, 7, 11, 13, 17, 19, 23, 29, 31, 37] {
        if n % q == 0 {
            return n == q;
        }
    }
    let mut d = n - 1;
    let mut s = 0;
    while d % 2 == 0 {
        d /= 2;
        s += 1;
    }
    'w: for a in [2u64, 3, 5, 7, 11, 13, 17, 19, 23, 29, 31, 37] {
        let mut x = powmod(a, d, n);
        if x == 1 || x == n - 1 {
            continue;
        }
        for _ in 0..s - 1 {
            x = mulmod(x, x, n);
            if x == n - 1 {
                continue 'w;
            }
        }
        return false;
    }
    true
}
/// three fixed primes, verified at start-up (so a typo cannot weaken the oracle)
pub fn primes() -> [u64; 3] {
    let mut out = [0u64; 3];
    let mut c = (1u64 << 61) - 1;
    let mut i = 0;
    while i < 3 {
        if is_prime(c) {
            out[i] = c;
            i += 1;
        }
        c -= 2;
    }
    out
}
/// residue of a BigInt mod p from its decimal digits... done via u32 limbs
pub fn big_mod(v: &BigInt, p: u64) -> u64 {
    let (sign, limbs) = v.to_u32_digits();
    let mut acc: u64 = 0;
    let base = (1u128 << 32) % p as u128;
    for l in limbs.iter().rev() {
        acc = ((acc as u128 * base + *l as u128) % p as u128) as u64;
    }
    if sign == Sign::Minus && acc != 0 {
        p - acc
    } else {
        acc
    }
}
