//! Canonical, exact text of every public `Registry` field.
//! (`Number`'s Debug rounds to 7 digits and is not used.)

use rink_core::types::{Number, Numeric};
use rink_core::Context;
use std::fmt::Write;

pub fn numeric_text(n: &Numeric) -> String {
    match n {
        Numeric::Rational(r) => format!("{}/{}", r.numer(), r.denom()),
        Numeric::Float(f) => format!("float:{:016x}", f.to_bits()),
    }
}

pub fn number_text(n: &Number) -> String {
    let dims: Vec<String> = n.unit.iter().map(|(k, v)| format!("{}^{}", k, v)).collect();
    format!("{} [{}]", numeric_text(&n.value), dims.join(" "))
}

/// One line per entry, sections in a fixed order.
pub fn dump(ctx: &Context) -> String {
    let r = &ctx.registry;
    let mut s = String::new();
    for b in &r.base_units {
        writeln!(s, "base_unit\t{}", b).unwrap();
    }
    for (k, v) in &r.base_unit_long_names {
        writeln!(s, "base_long\t{}\t{}", k, v).unwrap();
    }
    for (k, v) in &r.units {
        writeln!(s, "unit\t{}\t{}", k, number_text(v)).unwrap();
    }
    for (k, v) in &r.quantities {
        let dims: Vec<String> = k.iter().map(|(b, e)| format!("{}^{}", b, e)).collect();
        writeln!(s, "quantity\t{}\t{}", dims.join(" "), v).unwrap();
    }
    for (k, v) in &r.decomposition_units {
        let dims: Vec<String> = k.iter().map(|(b, e)| format!("{}^{}", b, e)).collect();
        writeln!(s, "decomposition\t{}\t{}", dims.join(" "), v).unwrap();
    }
    for (i, (k, v)) in r.prefixes.iter().enumerate() {
        writeln!(s, "prefix\t{}\t{}\t{}", i, k, numeric_text(v)).unwrap();
    }
    for (k, v) in &r.definitions {
        writeln!(s, "definition\t{}\t{}", k, serde_json::to_string(v).unwrap_or_else(|_| format!("{:?}", v))).unwrap();
    }
    for (k, v) in &r.docs {
        writeln!(s, "doc\t{}\t{:?}", k, v.text).unwrap();
    }
    for (k, v) in &r.categories {
        writeln!(s, "category\t{}\t{}", k, v).unwrap();
    }
    for (k, v) in &r.category_names {
        writeln!(s, "category_name\t{}\t{:?}", k, v).unwrap();
    }
    for (i, p) in r.datepatterns.iter().enumerate() {
        writeln!(s, "datepattern\t{}\t{}", i, rink_core::ast::DatePattern::show(p)).unwrap();
    }
    for (k, v) in &r.substances {
        writeln!(s, "substance\t{}\tname={}\tamount={}", k, v.properties.name, number_text(&v.amount)).unwrap();
        for (pk, p) in &v.properties.properties {
            writeln!(
                s,
                "substance_property\t{}\t{}\tin={} ({})\tout={} ({})\tdoc={:?}",
                k,
                pk,
                number_text(&p.input),
                p.input_name,
                number_text(&p.output),
                p.output_name,
                p.doc.as_ref().map(|d| d.text.clone())
            )
            .unwrap();
        }
    }
    for (k, v) in &r.substance_symbols {
        writeln!(s, "symbol\t{}\t{}", k, v).unwrap();
    }
    s
}

/// first differing lines of two dumps (for messages)
pub fn diff(a: &str, b: &str, max: usize) -> Vec<String> {
    use std::collections::BTreeSet;
    let sa: BTreeSet<&str> = a.lines().collect();
    let sb: BTreeSet<&str> = b.lines().collect();
    let mut out = vec![];
    for l in sa.difference(&sb).take(max) {
        out.push(format!("- {}", l));
    }
    for l in sb.difference(&sa).take(max) {
        out.push(format!("+ {}", l));
    }
    if out.is_empty() && a != b {
        // same set of lines, different order
        for (i, (x, y)) in a.lines().zip(b.lines()).enumerate() {
            if x != y {
                out.push(format!("order differs at line {}: `{}` vs `{}`", i, x, y));
                break;
            }
        }
    }
    out
}
