//! C08 — the loaded database is a fixed point of its own definitions.

use crate::engine::*;
use crate::oracle::regdump;
use crate::rinkx;
use rink_core::ast::{Def, Expr};
use rink_core::loader::gnu_units;
use rink_core::{Context, Value};
use serde_json::{json, Value as J};
use std::collections::{BTreeMap, BTreeSet};

pub const RULE: &str = "exhaustive over the loaded bundled database in two configurations (core definitions; core + currency.units + \
the repo's currency snapshot): every stored definition that has a stored unit is re-evaluated in the loaded context and must equal \
the stored value and dimensionality; structural invariants (declared base units only, quantity names unique, alias chains end, docs / \
categories belong to existing names, every category has a display name, substance properties re-evaluate, nothing printed while \
loading, two loads give identical dumps) are each one case. Non-trivial = distinct (configuration, name) whose definition mentions at \
least one other name.";

#[derive(Clone, Copy, PartialEq, Eq, Debug)]
pub enum Cfg {
    Core,
    Currency,
}

impl Cfg {
    fn name(self) -> &'static str {
        match self {
            Cfg::Core => "core",
            Cfg::Currency => "currency",
        }
    }
}

/// Load a configuration, returning (context, load results, text printed on stdout while loading)
pub fn load(cfg: Cfg) -> Result<(Context, Vec<Result<(), String>>, String), String> {
    let units = rink_core::DEFAULT_FILE.ok_or("no DEFAULT_FILE")?;
    let dates = rink_core::DATES_FILE.ok_or("no DATES_FILE")?;
    let mut results = vec![];
    let mut ctx = Context::new();
    let printed = capture_stdout(|| {
        results.push(ctx.load_definitions(units));
        ctx.load_date_file(dates);
        if cfg == Cfg::Currency {
            let live = std::fs::read_to_string("/repo/core/tests/currency.snapshot.json").unwrap_or_default();
            let base = rink_core::CURRENCY_FILE.unwrap_or("");
            results.push(ctx.load_currency(&live, base));
        }
    });
    rinkx::pin_time(&mut ctx);
    ctx.use_humanize = false;
    Ok((ctx, results, printed))
}

/// Run `f` with fd 1 redirected to a temporary file; return what was written.
/// (Rust's `println!` goes through fd 1; the loader prints its parse warnings there.)
pub fn capture_stdout(f: impl FnOnce()) -> String {
    use std::io::{Read, Seek, Write};
    use std::os::unix::io::AsRawFd;
    static LOCK: std::sync::Mutex<()> = std::sync::Mutex::new(());
    let _g = LOCK.lock().unwrap_or_else(|e| e.into_inner());
    let mut tmp = match tempfile() {
        Some(t) => t,
        None => {
            f();
            return String::new();
        }
    };
    let _ = std::io::stdout().flush();
    let saved = unsafe { libc::dup(1) };
    unsafe { libc::dup2(tmp.as_raw_fd(), 1) };
    f();
    let _ = std::io::stdout().flush();
    unsafe {
        libc::dup2(saved, 1);
        libc::close(saved);
    }
    let mut s = String::new();
    let _ = tmp.seek(std::io::SeekFrom::Start(0));
    let _ = tmp.read_to_string(&mut s);
    s
}

fn tempfile() -> Option<std::fs::File> {
    let p = std::env::temp_dir().join(format!("rv-capture-{}-{:?}", std::process::id(), std::thread::current().id()));
    let f = std::fs::OpenOptions::new().read(true).write(true).create(true).truncate(true).open(&p).ok()?;
    let _ = std::fs::remove_file(&p);
    Some(f)
}

fn mentions_names(e: &Expr) -> bool {
    match e {
        Expr::Unit { .. } | Expr::Of { .. } => true,
        Expr::BinOp(b) => mentions_names(&b.left) || mentions_names(&b.right),
        Expr::UnaryOp(u) => mentions_names(&u.expr),
        Expr::Mul { exprs } => exprs.iter().any(mentions_names),
        Expr::Call { args, .. } => args.iter().any(mentions_names),
        _ => false,
    }
}

fn unit_names(e: &Expr, out: &mut Vec<String>) {
    match e {
        Expr::Unit { name } => out.push(name.clone()),
        Expr::Of { expr, .. } => unit_names(expr, out),
        Expr::BinOp(b) => {
            unit_names(&b.left, out);
            unit_names(&b.right, out);
        }
        Expr::UnaryOp(u) => unit_names(&u.expr, out),
        Expr::Mul { exprs } => exprs.iter().for_each(|x| unit_names(x, out)),
        Expr::Call { args, .. } => args.iter().for_each(|x| unit_names(x, out)),
        _ => {}
    }
}

/// `e` with every unit name that `defs` defines replaced by that definition
fn substitute(e: &Expr, defs: &BTreeMap<String, Expr>) -> Expr {
    match e {
        Expr::Unit { name } => match defs.get(name) {
            Some(d) => d.clone(),
            None => e.clone(),
        },
        Expr::Of { property, expr } => Expr::Of { property: property.clone(), expr: Box::new(substitute(expr, defs)) },
        Expr::BinOp(b) => Expr::new_bin(b.op, substitute(&b.left, defs), substitute(&b.right, defs)),
        Expr::UnaryOp(u) => Expr::UnaryOp(rink_core::ast::UnaryOpExpr { op: u.op.clone(), expr: Box::new(substitute(&u.expr, defs)) }),
        Expr::Mul { exprs } => Expr::Mul { exprs: exprs.iter().map(|x| substitute(x, defs)).collect() },
        Expr::Call { func, args } => Expr::Call { func: func.clone(), args: args.iter().map(|x| substitute(x, defs)).collect() },
        _ => e.clone(),
    }
}

fn known_or(known: &BTreeSet<String>, st: &mut Stats, sig: &str, example: &str, detail: String) -> CaseResult {
    if known.contains(sig) {
        st.known(sig, example);
        Ok(())
    } else {
        Err(format!("[{}] {}", sig, detail))
    }
}

pub fn check_definition(ctx: &Context, cfg: Cfg, name: &str, known: &BTreeSet<String>, st: &mut Stats) -> CaseResult {
    let expr = match ctx.registry.definitions.get(name) {
        Some(e) => e,
        None => return Ok(()),
    };
    let stored = match ctx.registry.units.get(name) {
        Some(s) => s,
        None => {
            st.class("definition_without_unit (quantity)");
            return Ok(());
        }
    };
    st.eval();
    if mentions_names(expr) {
        st.nontrivial(&(cfg.name(), name));
        st.nt_sample(|| json!({"config": cfg.name(), "name": name, "definition": expr.to_string()}));
    } else {
        st.sample(|| json!({"config": cfg.name(), "name": name, "definition": expr.to_string()}));
    }
    match catch(|| ctx.eval(expr)) {
        Err(p) => known_or(known, st, &panic_signature(&p), name, format!("re-evaluating `{}` panicked: {}", name, p)),
        Ok(Err(e)) => known_or(
            known,
            st,
            "definition-does-not-reevaluate",
            name,
            format!("[{}] `{} = {}` does not evaluate in the loaded context: {}", cfg.name(), name, expr, e),
        ),
        Ok(Ok(Value::Number(n))) => {
            if &n == stored {
                Ok(())
            } else {
                known_or(
                    known,
                    st,
                    "stored-value-differs-from-definition",
                    name,
                    format!(
                        "[{}] `{} = {}` is stored as {} but its definition evaluates to {}",
                        cfg.name(),
                        name,
                        expr,
                        regdump::number_text(stored),
                        regdump::number_text(&n)
                    ),
                )
            }
        }
        Ok(Ok(other)) => known_or(
            known,
            st,
            "definition-not-a-number",
            name,
            format!("[{}] `{}` re-evaluates to a non-number: {:?}", cfg.name(), name, other),
        ),
    }
}

/// structural invariants; each returns a list of problems
pub fn structural(ctx: &Context, cfg: Cfg) -> Vec<(&'static str, Vec<String>)> {
    let r = &ctx.registry;
    let mut out: Vec<(&'static str, Vec<String>)> = vec![];
    // dimensionalities use declared base units only
    let mut bad = vec![];
    for (n, v) in &r.units {
        for (b, e) in v.unit.iter() {
            if !r.base_units.contains(b.as_str()) {
                bad.push(format!("{} has undeclared base unit {}", n, b));
            }
            if *e == 0 {
                bad.push(format!("{} carries {}^0", n, b));
            }
        }
    }
    out.push(("undeclared-base-unit", bad));
    // quantities: each dimensionality one name (map), each name one dimensionality
    let mut seen: BTreeMap<&String, usize> = BTreeMap::new();
    for (_, q) in &r.quantities {
        *seen.entry(q).or_insert(0) += 1;
    }
    out.push((
        "quantity-name-not-unique",
        seen.iter().filter(|(_, c)| **c > 1).map(|(q, c)| format!("{} names {} dimensionalities", q, c)).collect(),
    ));
    let mut bad = vec![];
    for (d, q) in &r.quantities {
        for (b, _) in d.iter() {
            if !r.base_units.contains(b.as_str()) {
                bad.push(format!("quantity {} uses undeclared base unit {}", q, b));
            }
        }
    }
    out.push(("quantity-undeclared-base-unit", bad));
    // alias chains end at a real definition
    let mut bad = vec![];
    let limit = r.units.len() + r.base_units.len() + 2;
    for (n, e) in &r.definitions {
        let mut cur = n.clone();
        let mut expr = e;
        let mut steps = 0;
        loop {
            match expr {
                Expr::Unit { name } => {
                    steps += 1;
                    if steps > limit {
                        bad.push(format!("alias chain from {} does not end", n));
                        break;
                    }
                    if r.base_units.contains(name.as_str()) {
                        break;
                    }
                    match r.definitions.get(name) {
                        Some(next) => {
                            cur = name.clone();
                            expr = next;
                        }
                        None => {
                            // prefixed / plural forms resolve through lookup
                            if ctx.lookup(name).is_none() && !r.substances.contains_key(name) {
                                bad.push(format!("alias chain from {} ends at undefined name {} (after {})", n, name, cur));
                            }
                            break;
                        }
                    }
                }
                _ => break,
            }
        }
    }
    out.push(("alias-chain-broken", bad));
    // docs and categories belong to existing names
    let qnames: BTreeSet<&String> = r.quantities.values().collect();
    let exists = |n: &String| {
        r.units.contains_key(n)
            || r.base_units.contains(n.as_str())
            || r.substances.contains_key(n)
            || qnames.contains(n)
            || r.prefixes.iter().any(|(p, _)| p == n)
            || r.category_names.contains_key(n)
    };
    out.push(("dangling-doc", r.docs.keys().filter(|k| !exists(k)).map(|k| format!("doc for unknown name {}", k)).collect()));
    out.push((
        "dangling-category-member",
        r.categories.keys().filter(|k| !exists(k)).map(|k| format!("category entry for unknown name {}", k)).collect(),
    ));
    out.push((
        "category-without-display-name",
        r.categories
            .values()
            .collect::<BTreeSet<_>>()
            .into_iter()
            .filter(|c| !r.category_names.contains_key(*c))
            .map(|c| format!("category id {} has no display name", c))
            .collect(),
    ));
    // long names of base units
    out.push((
        "base-long-name-inconsistent",
        r.base_unit_long_names
            .iter()
            .filter(|(s, l)| !r.base_units.contains(s.as_str()) || !r.units.contains_key(*l))
            .map(|(s, l)| format!("{} -> {}", s, l))
            .collect(),
    ));
    // symbols point at substances
    out.push((
        "symbol-without-substance",
        r.substance_symbols.iter().filter(|(_, n)| !r.substances.contains_key(*n)).map(|(s, n)| format!("{} -> {}", s, n)).collect(),
    ));
    let _ = cfg;
    out
}

/// substance properties: stored input/output equal their re-evaluated expressions
/// (properties that refer to sibling properties cannot be evaluated from outside; counted)
fn check_substances(ctx: &Context, cfg: Cfg, known: &BTreeSet<String>, st: &mut Stats) -> Vec<Violation> {
    let mut viols = vec![];
    let mut texts = vec![rink_core::DEFAULT_FILE.unwrap_or("").to_string()];
    if cfg == Cfg::Currency {
        texts.push(rink_core::CURRENCY_FILE.unwrap_or("").to_string());
    }
    let mut printed_sink = String::new();
    for t in texts {
        let mut defs = None;
        printed_sink.push_str(&capture_stdout(|| defs = Some(gnu_units::parse_str(&t))));
        for entry in defs.unwrap().defs {
            if let Def::Substance { properties, .. } = &*entry.def {
                let sub = match ctx.registry.substances.get(&entry.name) {
                    Some(s) => s,
                    None => {
                        viols.push(Violation {
                            phase: "substances".into(),
                            case: json!({"config": cfg.name(), "substance": entry.name}),
                            detail: format!("[substance-missing] substance {} is defined in the text but not loaded", entry.name),
                        });
                        continue;
                    }
                };
                // names that exist only while this substance is being loaded
                let mut siblings: BTreeSet<String> = BTreeSet::new();
                for p in properties {
                    siblings.insert(p.name.clone());
                    siblings.insert(p.input_name.clone());
                    siblings.insert(p.output_name.clone());
                }
                // what a sibling's name stands for, as an expression over database names
                let mut sibling_defs: BTreeMap<String, Expr> = BTreeMap::new();
                let is_one = |e: &Expr| matches!(e, Expr::Const { value } if *value == rink_core::types::Numeric::one());
                for p in properties {
                    if is_one(&p.input.0) {
                        sibling_defs.insert(p.output_name.clone(), p.output.0.clone());
                    }
                    if is_one(&p.output.0) {
                        sibling_defs.insert(p.input_name.clone(), p.input.0.clone());
                    }
                    // the property's own name stands for its value: output per input
                    sibling_defs
                        .entry(p.name.clone())
                        .or_insert_with(|| Expr::new_frac(p.output.0.clone(), p.input.0.clone()));
                }
                for p in properties {
                    let stored = match sub.properties.properties.get(&p.name) {
                        Some(s) => s,
                        None => {
                            viols.push(Violation {
                                phase: "substances".into(),
                                case: json!({"config": cfg.name(), "substance": entry.name, "property": p.name}),
                                detail: format!("[property-missing] {}.{} not loaded", entry.name, p.name),
                            });
                            continue;
                        }
                    };
                    st.eval();
                    for (which, expr, want) in [("input", &p.input.0, &stored.input), ("output", &p.output.0, &stored.output)] {
                        let mut used = vec![];
                        unit_names(expr, &mut used);
                        let substituted;
                        let expr = if used.iter().any(|n| siblings.contains(n) || siblings.contains(n.trim_end_matches('s'))) {
                            // the sibling names exist only while the substance is being loaded: write
                            // their own definitions in their place and evaluate that from outside
                            st.class("substance_property_refers_to_sibling (siblings substituted by their definitions)");
                            let mut e = (*expr).clone();
                            for _ in 0..4 {
                                e = substitute(&e, &sibling_defs);
                            }
                            substituted = e;
                            &substituted
                        } else {
                            expr
                        };
                        match catch(|| ctx.eval(expr)) {
                            Ok(Ok(Value::Number(n))) => {
                                st.class("substance_property_reevaluated");
                                st.nontrivial(&(cfg.name(), &entry.name, &p.name, which));
                                if &n != want {
                                    let detail = format!(
                                        "[substance-property-differs] {}.{} {} `{}` stored {} re-evaluates to {}",
                                        entry.name,
                                        p.name,
                                        which,
                                        expr,
                                        regdump::number_text(want),
                                        regdump::number_text(&n)
                                    );
                                    if known.contains("substance-property-differs") {
                                        st.known("substance-property-differs", &entry.name);
                                    } else {
                                        viols.push(Violation {
                                            phase: "substances".into(),
                                            case: json!({"config": cfg.name(), "substance": entry.name, "property": p.name}),
                                            detail,
                                        });
                                    }
                                }
                            }
                            Ok(_) => st.class("substance_property_not_evaluable_from_outside"),
                            Err(pn) => viols.push(Violation {
                                phase: "substances".into(),
                                case: json!({"config": cfg.name(), "substance": entry.name, "property": p.name}),
                                detail: format!("[{}] evaluating {}.{} panicked: {}", panic_signature(&pn), entry.name, p.name, pn),
                            }),
                        }
                    }
                }
            }
        }
    }
    viols
}

pub fn run(cx: &Cx) -> Report {
    let mut rep = Report::new(RULE);
    rep.exhaustive = true;
    rep.assumptions = vec![
        "the currency overlay is the repo's tests/currency.snapshot.json (live data cannot be fetched)".into(),
        "warnings the parser prints to stdout are captured through fd 1 and count as warnings".into(),
        "substance properties that refer to sibling properties of the same substance (names that exist only while the substance loads) are re-evaluated with each sibling name replaced by the sibling's own definition".into(),
    ];
    crate::regress::run(cx, &mut rep, &replay);
    for cfg in [Cfg::Core, Cfg::Currency] {
        let (ctx, results, printed) = match catch(|| load(cfg)) {
            Ok(Ok(x)) => x,
            Ok(Err(e)) => {
                rep.inconclusive = Some(format!("cannot load {}: {}", cfg.name(), e));
                return rep;
            }
            Err(p) => {
                rep.violations.push(Violation {
                    phase: "load".into(),
                    case: json!({"config": cfg.name()}),
                    detail: format!("[{}] loading the bundled database panicked: {}", panic_signature(&p), p),
                });
                return rep;
            }
        };
        // 1. loads with no errors or warnings
        rep.stats.eval();
        for (i, r) in results.iter().enumerate() {
            if let Err(e) = r {
                let first: Vec<&str> = e.lines().take(6).collect();
                rep.violations.push(Violation {
                    phase: "load".into(),
                    case: json!({"config": cfg.name(), "load_step": i}),
                    detail: format!("[load-reports-problems] loading {} reported: {}", cfg.name(), first.join(" | ")),
                });
            }
        }
        if !printed.trim().is_empty() {
            rep.violations.push(Violation {
                phase: "load".into(),
                case: json!({"config": cfg.name()}),
                detail: format!(
                    "[load-prints-warnings] loading {} printed: {}",
                    cfg.name(),
                    printed.lines().take(5).collect::<Vec<_>>().join(" | ")
                ),
            });
        }
        // 2. every stored definition re-evaluates to the stored value
        let names: Vec<String> = ctx.registry.definitions.keys().cloned().collect();
        rep.stats.note(&format!("{}_definitions", cfg.name()), json!(names.len()));
        rep.stats.note(&format!("{}_units", cfg.name()), json!(ctx.registry.units.len()));
        rep.stats.note(&format!("{}_substances", cfg.name()), json!(ctx.registry.substances.len()));
        let known = cx.known.clone();
        let mut st = Stats::new();
        for n in &names {
            if let Err(e) = check_definition(&ctx, cfg, n, &known, &mut st) {
                rep.violations.push(Violation {
                    phase: "definitions".into(),
                    case: json!({"config": cfg.name(), "name": n}),
                    detail: e,
                });
            }
        }
        // 2b. prefixes have no entry in `definitions`: take their text from the bundled files and
        // evaluate it in the loaded context (the evaluator, not the loader's own prefix arithmetic)
        {
            let mut texts: Vec<&str> = vec![rink_core::DEFAULT_FILE.unwrap_or("")];
            if cfg == Cfg::Currency {
                texts.push(rink_core::CURRENCY_FILE.unwrap_or(""));
            }
            for text in texts {
                let mut parsed = vec![];
                let _ = capture_stdout(|| parsed = rink_core::loader::gnu_units::parse_str(text).defs);
                for entry in &parsed {
                    if let rink_core::ast::Def::Prefix { expr, is_long } = &*entry.def {
                        st.eval();
                        st.class("prefix_definition_reevaluated");
                        let stored = ctx.registry.prefixes.iter().find(|(p, _)| p == &entry.name).map(|(_, v)| v.clone());
                        let stored = match stored {
                            Some(v) => v,
                            None => {
                                rep.violations.push(Violation {
                                    phase: "definitions".into(),
                                    case: json!({"config": cfg.name(), "prefix": entry.name}),
                                    detail: format!("[prefix-not-stored] [{}] prefix `{}-` is defined in the file but not in the loaded prefix table", cfg.name(), entry.name),
                                });
                                continue;
                            }
                        };
                        match catch(|| ctx.eval(&expr.0)) {
                            Ok(Ok(rink_core::runtime::Value::Number(n))) => {
                                let same = n.unit.is_dimensionless() && n.value == stored;
                                let unit_same = !*is_long || ctx.registry.units.get(&entry.name).map(|u| u.value == stored && u.unit.is_dimensionless()).unwrap_or(false);
                                if !same || !unit_same {
                                    let sig = "prefix-stored-value-differs-from-definition";
                                    if known.contains(sig) {
                                        st.known(sig, &entry.name);
                                    } else {
                                        rep.violations.push(Violation {
                                            phase: "definitions".into(),
                                            case: json!({"config": cfg.name(), "prefix": entry.name}),
                                            detail: format!(
                                                "[{}] [{}] prefix `{}-` = `{}` is stored as {:?} (as a unit: {:?}) but its definition evaluates to {}",
                                                sig,
                                                cfg.name(),
                                                entry.name,
                                                expr.0,
                                                stored,
                                                ctx.registry.units.get(&entry.name).map(regdump::number_text),
                                                regdump::number_text(&n)
                                            ),
                                        });
                                    }
                                }
                            }
                            _ => {
                                st.class("prefix_definition_not_evaluable_as_a_query (refers to a short prefix)");
                            }
                        }
                    }
                }
            }
        }
        // 3. structural invariants
        for (sig, problems) in structural(&ctx, cfg) {
            st.eval();
            st.class(&format!("invariant:{}", sig));
            if !problems.is_empty() {
                if known.contains(sig) {
                    st.known(sig, &problems[0]);
                } else {
                    rep.violations.push(Violation {
                        phase: "structure".into(),
                        case: json!({"config": cfg.name(), "structural": sig}),
                        detail: format!("[{}] {} problem(s), e.g. {}", sig, problems.len(), problems.iter().take(3).cloned().collect::<Vec<_>>().join("; ")),
                    });
                }
            }
        }
        // 4. substances
        let sv = check_substances(&ctx, cfg, &known, &mut st);
        rep.violations.extend(sv);
        // 5. loading is a function of the text alone
        st.eval();
        match catch(|| load(cfg)) {
            Ok(Ok((ctx2, _, _))) => {
                let a = regdump::dump(&ctx);
                let b = regdump::dump(&ctx2);
                st.note(&format!("{}_dump_lines", cfg.name()), json!(a.lines().count()));
                if a != b {
                    rep.violations.push(Violation {
                        phase: "determinism".into(),
                        case: json!({"config": cfg.name(), "structural": "two-loads"}),
                        detail: format!("[two-loads-differ] {}", regdump::diff(&a, &b, 4).join(" ; ")),
                    });
                }
            }
            _ => {
                rep.violations.push(Violation {
                    phase: "determinism".into(),
                    case: json!({"config": cfg.name(), "structural": "two-loads"}),
                    detail: "[second-load-failed] the second load failed".into(),
                });
            }
        }
        rep.stats.merge(st);
        rep.mark(cx, cfg.name());
    }
    rep
}

pub fn replay(cx: &Cx, _phase: &str, case: &J, st: &mut Stats) -> CaseResult {
    let cfg = if case["config"].as_str() == Some("currency") { Cfg::Currency } else { Cfg::Core };
    let (ctx, results, printed) = load(cfg)?;
    if let Some(n) = case.get("name").and_then(|n| n.as_str()) {
        return check_definition(&ctx, cfg, n, &cx.known, st);
    }
    if let Some(sig) = case.get("structural").and_then(|n| n.as_str()) {
        for (s, problems) in structural(&ctx, cfg) {
            if s == sig && !problems.is_empty() {
                return Err(format!("[{}] {}", s, problems[0]));
            }
        }
        return Ok(());
    }
    for r in results {
        if let Err(e) = r {
            return Err(format!("[load-reports-problems] {}", e.lines().take(3).collect::<Vec<_>>().join(" | ")));
        }
    }
    if !printed.trim().is_empty() {
        return Err(format!("[load-prints-warnings] {}", printed.lines().next().unwrap_or("")));
    }
    Ok(())
}
