//! C07 — unit names resolve exact first, then prefix, then plural.

use crate::engine::*;
use crate::oracle::refarith::Q;
use crate::rinkx;
use proptest::prelude::*;
use rink_core::types::{Number, Numeric};
use rink_core::Context;
use serde_derive::{Deserialize, Serialize};
use serde_json::{json, Value as J};
use std::collections::{BTreeMap, BTreeSet, HashMap};

pub const RULE: &str = "exhaustive: every string u, p+u, u+'s', p+u+'s' for p over all prefixes and u over all unit and base-unit \
names of the bundled database, checked against a reference resolver over a registry dump (exact > prefix split > plural), for \
determinism (second call, second independently loaded context) and for canonicalisation preserving the value; plus generated \
databases of 3-8 prefixes and 5-25 units with deliberately colliding names and pairwise distinct prime values, all strings of \
their cross product. Non-trivial = distinct string with >= 2 candidate readings (exact vs split, two splits, split vs plural).";

pub struct Dump {
    /// exactly defined names (base units first, then units)
    pub exact: HashMap<String, Number>,
    pub prefixes: Vec<(String, Numeric)>,
    pub quantity_names: BTreeSet<String>,
}

pub fn dump(ctx: &Context) -> Dump {
    let mut exact = HashMap::new();
    for (k, v) in ctx.registry.units.iter() {
        exact.insert(k.clone(), v.clone());
    }
    for b in ctx.registry.base_units.iter() {
        exact.insert(b.to_string(), Number::one_unit(b.clone()));
    }
    Dump {
        exact,
        prefixes: ctx.registry.prefixes.clone(),
        quantity_names: ctx.registry.quantities.values().cloned().collect(),
    }
}

fn numeric_q(n: &Numeric) -> Option<Q> {
    rinkx::rational_of(n).map(|(a, b)| Q::new(a, b))
}

/// does `got` equal `unit * prefix` ?
fn is_product(got: &Number, unit: &Number, prefix: &Numeric) -> bool {
    if got.unit != unit.unit {
        return false;
    }
    match (numeric_q(&got.value), numeric_q(&unit.value), numeric_q(prefix)) {
        (Some(g), Some(u), Some(p)) => g.eq_val(&u.mul(&p)),
        _ => {
            // a float is involved (one unit of the bundled file): compare with tolerance
            let g = got.value.to_f64();
            let e = unit.value.to_f64() * prefix.to_f64();
            (g - e).abs() <= 1e-12 * e.abs().max(1e-300)
        }
    }
}

#[derive(Debug)]
pub struct Candidates<'a> {
    pub exact: Option<&'a Number>,
    pub splits: Vec<(usize, &'a Number)>, // (prefix index, unit)
    pub plural_exact: Option<&'a Number>,
    pub plural_splits: Vec<(usize, &'a Number)>,
}

pub fn candidates<'a>(d: &'a Dump, name: &str) -> Candidates<'a> {
    let splits_of = |n: &str| -> Vec<(usize, &'a Number)> {
        let mut v = vec![];
        for (i, (p, _)) in d.prefixes.iter().enumerate() {
            if n.starts_with(p.as_str()) {
                if let Some(u) = d.exact.get(&n[p.len()..]) {
                    v.push((i, u));
                }
            }
        }
        v
    };
    let stem = name.strip_suffix('s');
    Candidates {
        exact: d.exact.get(name),
        splits: splits_of(name),
        plural_exact: stem.and_then(|s| d.exact.get(s)),
        plural_splits: stem.map(|s| splits_of(s)).unwrap_or_default(),
    }
}

/// Reference verdict: Ok(true) lookup result acceptable, Err(detail) otherwise.
pub fn check_lookup(d: &Dump, name: &str, got: &Option<Number>) -> Result<u32, (String, String)> {
    let c = candidates(d, name);
    let kinds = c.exact.is_some() as u32
        + (!c.splits.is_empty()) as u32
        + (c.plural_exact.is_some() || !c.plural_splits.is_empty()) as u32
        + (c.splits.len() > 1) as u32;
    let show = |n: &Number| format!("{:?}", n);
    if let Some(e) = c.exact {
        return match got {
            Some(g) if g == e => Ok(kinds),
            Some(g) => Err((
                "exact-not-first".into(),
                format!("`{}` is defined exactly as {} but lookup gave {}", name, show(e), show(g)),
            )),
            None => Err(("exact-unresolved".into(), format!("`{}` is defined exactly but lookup gave nothing", name))),
        };
    }
    if !c.splits.is_empty() {
        return match got {
            Some(g) if c.splits.iter().any(|(i, u)| is_product(g, u, &d.prefixes[*i].1)) => Ok(kinds),
            Some(g) => Err((
                "prefix-split-wrong".into(),
                format!(
                    "`{}` has prefix readings {:?} but lookup gave {}",
                    name,
                    c.splits.iter().map(|(i, _)| d.prefixes[*i].0.clone()).collect::<Vec<_>>(),
                    show(g)
                ),
            )),
            None => Err(("prefix-split-unresolved".into(), format!("`{}` = prefix+unit but lookup gave nothing", name))),
        };
    }
    if let Some(e) = c.plural_exact {
        return match got {
            Some(g) if g == e => Ok(kinds),
            Some(g) => Err((
                "plural-wrong".into(),
                format!("`{}` is the plural of an exact name ({}) but lookup gave {}", name, show(e), show(g)),
            )),
            None => Err(("plural-unresolved".into(), format!("`{}` is a plural but lookup gave nothing", name))),
        };
    }
    if !c.plural_splits.is_empty() {
        return match got {
            Some(g) if c.plural_splits.iter().any(|(i, u)| is_product(g, u, &d.prefixes[*i].1)) => Ok(kinds),
            Some(g) => Err(("plural-split-wrong".into(), format!("`{}`: plural prefix reading expected, lookup gave {}", name, show(g)))),
            None => Err(("plural-split-unresolved".into(), format!("`{}` = prefix+unit+s but lookup gave nothing", name))),
        };
    }
    match got {
        None => Ok(0),
        Some(g) => Err((
            "resolves-without-reading".into(),
            format!("`{}` has no exact, prefix or plural reading but lookup gave {}", name, show(g)),
        )),
    }
}

pub struct Env {
    pub ctx: Context,
    pub ctx2: Context,
    pub dump: Dump,
    pub known: BTreeSet<String>,
}

fn fail(env_known: &BTreeSet<String>, st: &mut Stats, sig: &str, name: &str, detail: String) -> CaseResult {
    if env_known.contains(sig) {
        st.known(sig, name);
        Ok(())
    } else {
        Err(format!("[{}] {}", sig, detail))
    }
}

/// classify a canonicalisation failure structurally (known-finding signatures)
fn canon_failure_class(ctx: &Context, d: &Dump, name: &str, canon: &str) -> &'static str {
    // (a) the canonical name carries two prefixes: P + (Q + exact), and is not itself resolvable
    for (p, _) in &d.prefixes {
        if let Some(rest) = canon.strip_prefix(p.as_str()) {
            if !d.exact.contains_key(rest) {
                for (q, _) in &d.prefixes {
                    if let Some(r2) = rest.strip_prefix(q.as_str()) {
                        if !q.is_empty() && d.exact.contains_key(r2) {
                            return "canon-double-prefix";
                        }
                    }
                }
            }
        }
    }
    // (b) the name splits as prefix + quantity name (not a unit): canonicalize consults
    //     `definitions`, which also holds quantities that lookup does not resolve
    let stems: Vec<&str> = match name.strip_suffix('s') {
        Some(s) => vec![name, s],
        None => vec![name],
    };
    for n in stems {
        if d.quantity_names.contains(n) && !d.exact.contains_key(n) {
            return "canon-via-quantity-name";
        }
        for (p, _) in &d.prefixes {
            if let Some(rest) = n.strip_prefix(p.as_str()) {
                if d.quantity_names.contains(rest) && !d.exact.contains_key(rest) {
                    return "canon-via-quantity-name";
                }
            }
        }
    }
    let _ = ctx;
    "canon-changes-value"
}

pub fn check_name(env: &Env, name: &str, st: &mut Stats) -> CaseResult {
    st.eval();
    let got = match catch(|| env.ctx.lookup(name)) {
        Ok(g) => g,
        Err(p) => return fail(&env.known, st, &panic_signature(&p), name, format!("lookup(`{}`) panicked: {}", name, p)),
    };
    match check_lookup(&env.dump, name, &got) {
        Ok(kinds) => {
            if kinds >= 2 {
                st.nontrivial(name);
                st.nt_sample(|| json!(name));
                st.class("names_with_2+_readings");
            }
            if got.is_some() {
                st.class("resolves");
            } else {
                st.class("unresolved");
            }
        }
        Err((sig, d)) => return fail(&env.known, st, &sig, name, d),
    }
    // determinism
    let again = env.ctx.lookup(name);
    let other = env.ctx2.lookup(name);
    if again != got || other != got {
        return fail(
            &env.known,
            st,
            "nondeterministic-lookup",
            name,
            format!("`{}`: {:?} then {:?}; second context {:?}", name, got, again, other),
        );
    }
    // canonicalisation preserves the value
    if let Some(v) = &got {
        let canon = match catch(|| env.ctx.canonicalize(name)) {
            Ok(c) => c,
            Err(p) => return fail(&env.known, st, &panic_signature(&p), name, format!("canonicalize(`{}`) panicked: {}", name, p)),
        };
        if let Some(c) = canon {
            st.class("canonicalised");
            if c != name {
                st.class("canonical_differs_from_name");
            }
            let back = env.ctx.lookup(&c);
            if c == "ans" || c == "ANS" || c == "_" {
                st.excluded("canonical form spells a previous-result name (C15's)");
            } else if back.as_ref() != Some(v) {
                let sig = canon_failure_class(&env.ctx, &env.dump, name, &c);
                return fail(
                    &env.known,
                    st,
                    sig,
                    name,
                    format!("`{}` denotes {:?} but its canonical form `{}` denotes {:?}", name, v, c, back),
                );
            }
        }
    }
    Ok(())
}

fn bundled_strings(ctx: &Context) -> Vec<String> {
    let mut names: BTreeSet<String> = ctx.registry.units.keys().cloned().collect();
    for b in ctx.registry.base_units.iter() {
        names.insert(b.to_string());
    }
    let mut out: BTreeSet<String> = BTreeSet::new();
    for u in &names {
        out.insert(u.clone());
        out.insert(format!("{}s", u));
        for (p, _) in &ctx.registry.prefixes {
            out.insert(format!("{}{}", p, u));
            out.insert(format!("{}{}s", p, u));
        }
    }
    out.remove("ans");
    out.remove("ANS");
    out.remove("_");
    out.into_iter().collect()
}

// --- generated colliding databases ---------------------------------------

#[derive(Clone, Debug, Serialize, Deserialize)]
pub struct Db {
    pub prefixes: Vec<(String, bool, u8)>, // name, long?, value index
    pub units: Vec<(String, u8)>,          // name, value index
    pub base: String,
    /// derived units `dq<i>x = coef * <name>`: (index into the sorted set of resolvable candidate
    /// strings, coefficient); the referenced string is one with several readings whenever possible
    #[serde(default)]
    pub derived: Vec<(u16, u8)>,
}

const PRIMES: [u64; 40] = [
    2, 3, 5, 7, 11, 13, 17, 19, 23, 29, 31, 37, 41, 43, 47, 53, 59, 61, 67, 71, 73, 79, 83, 89, 97, 101, 103, 107, 109,
    113, 127, 131, 137, 139, 149, 151, 157, 163, 167, 173,
];

const NAME_POOL: [&str; 30] = [
    "m", "in", "min", "k", "ks", "s", "ms", "mi", "mis", "mins", "ki", "kin", "kins", "a", "as", "am", "ams", "ma",
    "mas", "mm", "mms", "ss", "kk", "kks", "i", "is", "n", "ns", "mk", "mks",
];
const PREFIX_POOL: [&str; 10] = ["m", "k", "mi", "ki", "a", "mm", "s", "ma", "kilo", "milli"];

fn db_strategy() -> impl Strategy<Value = Db> {
    (
        proptest::sample::subsequence(PREFIX_POOL.to_vec(), 3..=8),
        proptest::sample::subsequence(NAME_POOL.to_vec(), 5..=25),
        proptest::collection::vec(any::<bool>(), 8),
        any::<u8>(),
        proptest::collection::vec((any::<u16>(), 2u8..9), 0..6),
    )
        .prop_map(|(ps, us, longs, rot, derived)| {
            let mut vi = rot % 7;
            let mut next = || {
                vi += 1;
                vi
            };
            let prefixes = ps
                .iter()
                .enumerate()
                // a long prefix is also a unit of that name: never make it one when a unit of the same
                // name is generated too (two definitions of one exact name are outside the premise)
                .map(|(i, p)| (p.to_string(), longs[i % 8] && !us.contains(p), next()))
                .collect::<Vec<_>>();
            // the base unit is called "u0" (never collides); units take pool names
            let units = us.iter().map(|u| (u.to_string(), next())).collect::<Vec<_>>();
            Db {
                prefixes,
                units,
                base: "u0".into(),
                derived,
            }
        })
}

pub fn db_text(db: &Db) -> String {
    let mut t = String::new();
    t.push_str(&format!("{} !\n", db.base));
    for (p, long, vi) in &db.prefixes {
        t.push_str(&format!("{}{} {}\n", p, if *long { "-" } else { "--" }, PRIMES[*vi as usize % 40]));
    }
    for (u, vi) in &db.units {
        t.push_str(&format!("{} {} {}\n", u, PRIMES[*vi as usize % 40], db.base));
    }
    t
}

fn check_db(known: &BTreeSet<String>, db: &Db, st: &mut Stats) -> CaseResult {
    let text = db_text(db);
    let load = |t: &str| -> Result<Context, String> {
        let mut c = Context::new();
        // a long prefix and a unit of the same name are duplicates by the loader's rules; those
        // databases are reported by load() and skipped here (C13's business)
        c.load_definitions(t)?;
        Ok(c)
    };
    let (ctx, ctx2) = match (catch(|| load(&text)), catch(|| load(&text))) {
        (Ok(Ok(a)), Ok(Ok(b))) => (a, b),
        (Ok(Err(_)), _) | (_, Ok(Err(_))) => {
            st.excluded("generated database rejected by the loader (duplicate names)");
            return Ok(());
        }
        (Err(p), _) | (_, Err(p)) => return fail(known, st, &panic_signature(&p), &text, format!("loading panicked: {}", p)),
    };
    let env = Env {
        dump: dump(&ctx),
        ctx,
        ctx2,
        known: known.clone(),
    };
    let mut names: BTreeSet<String> = BTreeSet::new();
    let exact: Vec<String> = env.dump.exact.keys().cloned().collect();
    for u in &exact {
        names.insert(u.clone());
        names.insert(format!("{}s", u));
        for (p, _) in &env.dump.prefixes {
            names.insert(format!("{}{}", p, u));
            names.insert(format!("{}{}s", p, u));
        }
    }
    st.class("generated_databases");
    for n in names {
        if n == "ans" || n == "ANS" || n == "_" {
            continue; // previous-result names are C15's
        }
        check_name(&env, &n, st).map_err(|e| format!("{} in database:\n{}", e, text))?;
    }
    // a name denotes the same thing inside a definition as at the prompt: derived units that
    // refer to candidate strings (preferring those with several readings) must be stored as
    // coefficient x what the string denotes when queried
    if !db.derived.is_empty() {
        let all: Vec<String> = {
            let mut v: Vec<String> = vec![];
            let exact: Vec<String> = env.dump.exact.keys().cloned().collect();
            for u in &exact {
                for cand in std::iter::once(u.clone())
                    .chain(std::iter::once(format!("{}s", u)))
                    .chain(env.dump.prefixes.iter().flat_map(|(p, _)| vec![format!("{}{}", p, u), format!("{}{}s", p, u)]))
                {
                    if cand != "ans" && cand != "ANS" && cand != "_" && env.ctx.lookup(&cand).is_some() {
                        v.push(cand);
                    }
                }
            }
            v.sort();
            v.dedup();
            v
        };
        let ambiguous: Vec<String> = all.iter().filter(|n| {
                let c = candidates(&env.dump, n);
                c.exact.is_some() as usize + c.splits.len() + c.plural_exact.is_some() as usize + c.plural_splits.len() >= 2
            }).cloned().collect();
        let pool = if ambiguous.is_empty() { &all } else { &ambiguous };
        if !pool.is_empty() {
            let mut text2 = text.clone();
            let mut expect: Vec<(String, String, u8)> = vec![];
            for (i, (idx, coef)) in db.derived.iter().enumerate() {
                let r = pool[(*idx as usize * pool.len()) >> 16].clone();
                let name = format!("dq{}x", i);
                text2.push_str(&format!("{} {} {}\n", name, coef, r));
                expect.push((name, r, *coef));
            }
            let ctx3 = match catch(|| load(&text2)) {
                Ok(Ok(c)) => c,
                Ok(Err(e)) => {
                    return fail(
                        known,
                        st,
                        "definition-of-resolvable-name-rejected",
                        &text2,
                        format!("every referenced name resolves at the prompt, yet loading reports: {}\ndatabase:\n{}", e.lines().take(4).collect::<Vec<_>>().join(" | "), text2),
                    )
                }
                Err(p) => return fail(known, st, &panic_signature(&p), &text2, format!("loading panicked: {}", p)),
            };
            for (name, r, coef) in &expect {
                st.eval();
                st.class("derived_unit_referring_to_colliding_name");
                let stored = ctx3.lookup(name);
                let at_prompt = ctx3.lookup(r);
                let want = at_prompt.as_ref().and_then(|n| (n * &Number::new(Numeric::from(*coef as i64))));
                if stored.is_none() || stored != want {
                    return fail(
                        known,
                        st,
                        "name-denotes-something-else-inside-a-definition",
                        name,
                        format!(
                            "`{} = {} {}` is stored as {:?}, but `{}` denotes {:?} when queried in the same database:\n{}",
                            name,
                            coef,
                            r,
                            stored.as_ref().map(crate::oracle::regdump::number_text),
                            r,
                            at_prompt.as_ref().map(crate::oracle::regdump::number_text),
                            text2
                        ),
                    );
                }
            }
        }
    }
    Ok(())
}

pub fn run(cx: &Cx) -> Report {
    let mut rep = Report::new(RULE);
    rep.exhaustive = true;
    rep.assumptions = vec![
        "when several prefix splits exist any of them is accepted (the statement does not rank prefixes); which one rink takes is listed in evidence notes".into(),
        "ans/ANS/_ are C15's and excluded".into(),
        "the registry's public fields (units, base_units, prefixes, quantities) are the database dump".into(),
    ];
    let known = cx.known.clone();
    crate::regress::run(cx, &mut rep, &replay);

    let ctx = rinkx::new_ctx();
    let strings = bundled_strings(&ctx);
    rep.stats.note("bundled_strings", json!(strings.len()));
    rep.stats.note("prefixes", json!(ctx.registry.prefixes.len()));
    drop(ctx);
    let k = known.clone();
    rep.absorb(par_sweep(
        cx,
        "bundled-exhaustive",
        strings,
        move || {
            let ctx = rinkx::new_ctx();
            Env {
                dump: dump(&ctx),
                ctx,
                ctx2: rinkx::new_ctx(),
                known: k.clone(),
            }
        },
        |env, s, st| check_name(env, s, st),
        |s| json!({"name": s}),
    ));
    rep.mark(cx, "bundled");

    let k = known.clone();
    rep.absorb(par_proptest(
        cx,
        "generated-db",
        cx.tier.pick(400, 4000),
        db_strategy,
        || (),
        move |_, db, st| check_db(&k, db, st),
        |db| json!({"db": db}),
    ));
    rep.mark(cx, "generated");
    // an exact definition also wins when what it defines is a substance: the bare name must
    // answer as that substance, not as a prefix + unit or plural reading of the same letters
    {
        let ctx = rinkx::new_ctx();
        let mut st = Stats::new();
        for (name, _) in ctx.registry.substances.iter() {
            if ctx.registry.units.contains_key(name) || ctx.registry.base_units.contains(&name[..]) || crate::gen::units::unusable(name).is_some() {
                continue;
            }
            st.eval();
            st.class("substance_name_defined_exactly");
            let other_reading = ctx.lookup(name);
            if other_reading.is_some() {
                st.nontrivial(name);
                st.nt_sample(|| json!(name));
            }
            match rinkx::eval_line(&ctx, name) {
                rinkx::Out::Reply(rink_core::output::QueryReply::Substance(_)) => {}
                other => {
                    let sig = "exact-substance-name-read-as-something-else";
                    if known.contains(sig) {
                        st.known(sig, name);
                    } else {
                        rep.violations.push(Violation {
                            phase: "substance-names".into(),
                            case: json!({"substance_name": name}),
                            detail: format!("[{}] `{}` is defined exactly (as a substance) but answers: {}", sig, name, other.describe().chars().take(200).collect::<String>()),
                        });
                    }
                }
            }
        }
        rep.stats.merge(st);
        rep.mark(cx, "substance-names");
    }
    rep
}

pub fn replay(cx: &Cx, _phase: &str, case: &J, st: &mut Stats) -> CaseResult {
    if let Some(name) = case.get("substance_name").and_then(|n| n.as_str()) {
        let ctx = rinkx::new_ctx();
        st.eval();
        return match rinkx::eval_line(&ctx, name) {
            rinkx::Out::Reply(rink_core::output::QueryReply::Substance(_)) => Ok(()),
            other => Err(format!("[exact-substance-name-read-as-something-else] `{}` is defined exactly (as a substance) but answers: {}", name, other.describe().chars().take(200).collect::<String>())),
        };
    }
    if let Some(name) = case.get("name").and_then(|n| n.as_str()) {
        let ctx = rinkx::new_ctx();
        let env = Env {
            dump: dump(&ctx),
            ctx,
            ctx2: rinkx::new_ctx(),
            known: cx.known.clone(),
        };
        return check_name(&env, name, st);
    }
    let db: Db = serde_json::from_value(case["db"].clone()).map_err(|e| format!("bad case: {}", e))?;
    check_db(&cx.known, &db, st)
}

#[allow(dead_code)]
fn _t(_: BTreeMap<u8, u8>) {}
