//! C10 — temperature scales are exact, mutually inverse affine maps.

use crate::engine::*;
use crate::oracle::refarith::*;
use crate::rinkx::{self, Out};
use num_bigint::BigInt;
use proptest::prelude::*;
use rink_core::output::QueryReply;
use rink_core::Context;
use serde_derive::{Deserialize, Serialize};
use serde_json::{json, Value as J};
use std::collections::BTreeSet;

pub const RULE: &str = "case = (rational x in one of several notations, scale spelling S1, optional chain of target spellings, \
or a refusal shape). 6 scales x 26 spellings; all 36 ordered scale pairs are enumerated with a literal alphabet, plus random x \
(integers, decimals to 60 digits, n|d, 1e+-20, negative, below absolute zero) and chains of 2-4 conversions. Oracle: textbook \
affine formulas hard-coded as exact rationals. Non-trivial = distinct (x, S1, S2, spelling) with x negative or non-integer and \
(S1 != S2 or a non-canonical spelling).";

pub const SPELLINGS: [(&str, u8); 26] = [
    ("degC", 0),
    ("°C", 0),
    ("celsius", 0),
    ("℃", 0),
    ("degF", 1),
    ("°F", 1),
    ("fahrenheit", 1),
    ("℉", 1),
    ("degRé", 2),
    ("°Ré", 2),
    ("degRe", 2),
    ("°Re", 2),
    ("réaumur", 2),
    ("reaumur", 2),
    ("degRø", 3),
    ("°Rø", 3),
    ("degRo", 3),
    ("°Ro", 3),
    ("rømer", 3),
    ("romer", 3),
    ("degDe", 4),
    ("°De", 4),
    ("delisle", 4),
    ("degN", 5),
    ("°N", 5),
    ("degnewton", 5),
];
const CANONICAL: [&str; 6] = ["°C", "°F", "°Ré", "°Rø", "°De", "°N"];

fn q(n: i64, d: i64) -> Q {
    Q::frac(n, d)
}

/// textbook: scale reading -> kelvin
pub fn to_kelvin(scale: u8, x: &Q) -> Q {
    let c0 = q(27315, 100);
    match scale {
        0 => x.add(&c0),                                        // K = C + 273.15
        1 => x.add(&q(45967, 100)).mul(&q(5, 9)),               // K = (F + 459.67) * 5/9
        2 => x.mul(&q(5, 4)).add(&c0),                          // K = Re * 5/4 + 273.15
        3 => x.sub(&q(75, 10)).mul(&q(40, 21)).add(&c0),        // K = (Ro - 7.5) * 40/21 + 273.15
        4 => q(37315, 100).sub(&x.mul(&q(2, 3))),               // K = 373.15 - De * 2/3
        _ => x.mul(&q(100, 33)).add(&c0),                       // K = N * 100/33 + 273.15
    }
}

/// textbook: kelvin -> scale reading
pub fn from_kelvin(scale: u8, k: &Q) -> Q {
    let c0 = q(27315, 100);
    match scale {
        0 => k.sub(&c0),
        1 => k.mul(&q(9, 5)).sub(&q(45967, 100)),
        2 => k.sub(&c0).mul(&q(4, 5)),
        3 => k.sub(&c0).mul(&q(21, 40)).add(&q(75, 10)),
        4 => q(37315, 100).sub(k).mul(&q(3, 2)),
        _ => k.sub(&c0).mul(&q(33, 100)),
    }
}

#[derive(Clone, Debug, Serialize, Deserialize, PartialEq, Eq, Hash)]
pub struct X {
    pub text: String,
    pub num: String,
    pub den: String,
}

#[derive(Clone, Debug, Serialize, Deserialize)]
pub enum Shape {
    /// `x S1` alone, then `x S1 -> S` for each S in chain feeding the result forward
    Chain(Vec<u8>),
    /// operand with a dimension: `x m S1`
    DimensionedOperand(String),
    /// scale inside a compound target; the string has `{}` for the scale
    CompoundTarget(String),
}

#[derive(Clone, Debug, Serialize, Deserialize)]
pub struct Case {
    pub x: X,
    pub s1: u8, // spelling index
    pub shape: Shape,
}

pub struct Env {
    pub ctx: Context,
    pub known: BTreeSet<String>,
}

fn fail(env: &Env, st: &mut Stats, sig: &str, text: &str, detail: String) -> CaseResult {
    if env.known.contains(sig) {
        st.known(sig, text);
        Ok(())
    } else {
        Err(format!("[{}] `{}`: {}", sig, text, detail))
    }
}

fn render_q(v: &Q) -> String {
    let (n, d) = v.reduced();
    if d == BigInt::from(1) {
        format!("{}", n)
    } else {
        format!("{}|{}", n, d)
    }
}

pub fn check(env: &Env, case: &Case, st: &mut Stats) -> CaseResult {
    let x = Q::new(parse_dec(&case.x.num).ok_or("bad x")?, parse_dec(&case.x.den).ok_or("bad x")?);
    let (sp1, sc1) = SPELLINGS[case.s1 as usize % 26];
    match &case.shape {
        Shape::Chain(chain) => {
            // 1. `x S1` denotes the textbook absolute temperature
            let text = format!("{} {}", case.x.text, sp1);
            st.eval();
            let k = to_kelvin(sc1, &x);
            let interesting = x.signum() < 0 || x.as_integer().is_none();
            match rinkx::eval_line(&env.ctx, &text) {
                Out::Panic(p) => return fail(env, st, &panic_signature(&p), &text, format!("panicked: {}", p)),
                Out::Reply(QueryReply::Number(parts)) => {
                    let raw = parts.raw_value.as_ref().ok_or("no raw value")?;
                    let dims = rinkx::dims_of(raw);
                    if dims.len() != 1 || dims.get("K") != Some(&1) {
                        return fail(env, st, "scale-wrong-dimension", &text, format!("dims {:?}", dims));
                    }
                    match rinkx::rational_of(&raw.value) {
                        Some((n, d)) if Q::new(n.clone(), d.clone()).eq_val(&k) => {}
                        Some((n, d)) => {
                            return fail(
                                env,
                                st,
                                "scale-wrong-kelvin",
                                &text,
                                format!("rink {}/{} K, textbook {} K", n, d, render_q(&k)),
                            )
                        }
                        None => return fail(env, st, "scale-float", &text, "float result".into()),
                    }
                }
                other => return fail(env, st, "scale-not-a-number", &text, other.describe()),
            }
            // 2. conversions along the chain
            let mut cur_text = case.x.text.clone();
            let mut cur_sp = sp1;
            let mut cur_val = x.clone();
            let mut cur_scale = sc1;
            for (i, &t) in chain.iter().enumerate() {
                let (sp2, sc2) = SPELLINGS[t as usize % 26];
                let text = format!("{} {} -> {}", cur_text, cur_sp, sp2);
                st.eval();
                let want = from_kelvin(sc2, &to_kelvin(cur_scale, &cur_val));
                if interesting && (cur_scale != sc2 || sp2 != CANONICAL[sc2 as usize] || cur_sp != CANONICAL[cur_scale as usize]) {
                    st.nontrivial(&(&case.x.text, cur_sp, sp2, i));
                    st.nt_sample(|| json!(text));
                } else {
                    st.sample(|| json!(text));
                }
                st.class(&format!("pair_{}_{}", cur_scale, sc2));
                if cur_scale == sc2 {
                    st.class("same_scale_inverse");
                }
                match rinkx::eval_line(&env.ctx, &text) {
                    Out::Panic(p) => return fail(env, st, &panic_signature(&p), &text, format!("panicked: {}", p)),
                    Out::Reply(QueryReply::Conversion(c)) => {
                        let raw = c.value.raw_value.as_ref().ok_or("no raw value")?;
                        match rinkx::rational_of(&raw.value) {
                            Some((n, d)) if Q::new(n.clone(), d.clone()).eq_val(&want) => {}
                            Some((n, d)) => {
                                return fail(
                                    env,
                                    st,
                                    "conversion-wrong",
                                    &text,
                                    format!("rink {}/{}, textbook {}", n, d, render_q(&want)),
                                )
                            }
                            None => return fail(env, st, "conversion-float", &text, "float result".into()),
                        }
                    }
                    other => return fail(env, st, "conversion-refused", &text, other.describe()),
                }
                cur_text = render_q(&want);
                cur_sp = sp2;
                cur_val = want;
                cur_scale = sc2;
            }
            if chain.len() >= 2 {
                st.class("chains");
                // composition must agree with the direct formula from the start
                let direct = from_kelvin(cur_scale, &to_kelvin(sc1, &x));
                if !direct.eq_val(&cur_val) {
                    return Err("harness: reference formulas do not compose".into());
                }
            }
            Ok(())
        }
        Shape::DimensionedOperand(unit) => {
            let text = format!("{} {} {}", case.x.text, unit, sp1);
            st.eval();
            st.class("refusal_dimensioned_operand");
            st.nontrivial(&text);
            match rinkx::eval_line(&env.ctx, &text) {
                Out::Panic(p) => fail(env, st, &panic_signature(&p), &text, format!("panicked: {}", p)),
                Out::Error(_) => Ok(()),
                Out::Reply(r) => fail(
                    env,
                    st,
                    "scale-on-dimensioned-operand",
                    &text,
                    format!("a scale was applied to an operand that already carries a dimension: {}", r),
                ),
            }
        }
        Shape::CompoundTarget(tpl) => {
            let target = tpl.replace("{}", sp1);
            let text = format!("{} K -> {}", case.x.text, target);
            st.eval();
            st.class("refusal_compound_target");
            st.nontrivial(&text);
            let scale_first = tpl.starts_with("{}");
            match rinkx::eval_line(&env.ctx, &text) {
                Out::Panic(p) => fail(env, st, &panic_signature(&p), &text, format!("panicked: {}", p)),
                Out::Error(_) => Ok(()),
                Out::Reply(r) => fail(
                    env,
                    st,
                    if scale_first {
                        "scale-first-compound-target-accepted"
                    } else {
                        "compound-target-accepted"
                    },
                    &text,
                    format!("a temperature scale inside a compound conversion target was accepted: {}", r),
                ),
            }
        }
    }
}

// ---------------------------------------------------------------------------

fn x_from(neg: bool, digits: String, frac: Option<String>, exp: Option<i32>, den: Option<u32>) -> X {
    // value and text from abstract parts
    let mut text = String::new();
    if neg {
        text.push('-');
    }
    text.push_str(&digits);
    let mut v = Q::int(fold_digits(&digits, 10).unwrap());
    if let Some(f) = &frac {
        text.push('.');
        text.push_str(f);
        v = v.add(&Q::new(fold_digits(f, 10).unwrap(), pow_big(&BigInt::from(10), f.len() as u64)));
    }
    if let Some(e) = exp {
        text.push_str(&format!("e{}", e));
        let p = pow_big(&BigInt::from(10), e.unsigned_abs() as u64);
        v = if e >= 0 { v.mul(&Q::int(p)) } else { v.mul(&Q::new(BigInt::from(1), p)) };
    }
    if let Some(d) = den {
        text.push_str(&format!("|{}", d));
        v = v.mul(&Q::new(BigInt::from(1), BigInt::from(d)));
    }
    if neg {
        v = v.neg();
    }
    let (n, d) = v.reduced();
    X {
        text,
        num: n.to_string(),
        den: d.to_string(),
    }
}

fn digits(max: usize) -> impl Strategy<Value = String> {
    proptest::collection::vec(0u8..10, 1..=max).prop_map(|v| {
        let s: String = v.iter().map(|d| (b'0' + d) as char).collect();
        s
    })
}

pub fn x_strategy() -> impl Strategy<Value = X> {
    prop_oneof![
        3 => (any::<bool>(), 0u32..1000).prop_map(|(n, v)| x_from(n, v.to_string(), None, None, None)),
        3 => (any::<bool>(), digits(4), digits(6)).prop_map(|(n, i, f)| x_from(n, i, Some(f), None, None)),
        1 => (any::<bool>(), digits(3), digits(60)).prop_map(|(n, i, f)| x_from(n, i, Some(f), None, None)),
        2 => (any::<bool>(), digits(5), 2u32..999).prop_map(|(n, i, d)| x_from(n, i, None, None, Some(d))),
        1 => (any::<bool>(), digits(3), -20i32..=20).prop_map(|(n, i, e)| x_from(n, i, None, Some(e), None)),
        1 => (any::<bool>(), digits(2), digits(3), -20i32..=20).prop_map(|(n, i, f, e)| x_from(n, i, Some(f), Some(e), None)),
        1 => proptest::sample::select(vec!["0", "273.15", "459.67", "7.5", "373.15", "100", "32", "212", "150"])
            .prop_map(|s| {
                let (i, f) = match s.split_once('.') { Some((a, b)) => (a.to_string(), Some(b.to_string())), None => (s.to_string(), None) };
                x_from(false, i, f, None, None)
            }),
    ]
}

const COMPOUND_TARGETS: [&str; 33] = [
    "{} m", "{} / s", "{} s", "m {}", "2 {}", "1|2 {}", "m / {}", "{} {}",
    // the scale followed by every other kind of token that continues an expression
    "{}|2", "{} | 2", "{} %", "{} mod 7", "{} and 1", "{} xor 3", "{} 0x10", "{} 1e3", "{} * 2", "{}^2", "{} + 1 K", "{} 'apple'",
    "{} per s", "{} of water",
    // and preceded by one
    "0x10 {}", "% {}", "m^2 {}", "'apple' {}",
    // the places of a target whose units are named without being looked into: an exponent, the
    // right of `=`, the operand of `of`
    "x = 1 {}", "K = 1 {}", "2 (foo = 100 {})", "K^(1 {} / 274.15 K)", "K^(274.15 K / 1 {})", "m^(2 {} / 275.15 K * 2)", "density of (1 {} / 274.15 K) water",
];
const DIM_UNITS: [&str; 6] = ["m", "kg", "K", "s", "km", "mol"];

pub fn case_strategy() -> impl Strategy<Value = Case> {
    prop_oneof![
        14 => (x_strategy(), 0u8..26, proptest::collection::vec(0u8..26, 0..=4))
            .prop_map(|(x, s1, chain)| Case { x, s1, shape: Shape::Chain(chain) }),
        1 => (x_strategy(), 0u8..26, proptest::sample::select(DIM_UNITS.to_vec()))
            .prop_map(|(x, s1, u)| Case { x, s1, shape: Shape::DimensionedOperand(u.to_string()) }),
        1 => (x_strategy(), 0u8..26, proptest::sample::select(COMPOUND_TARGETS.to_vec()))
            .prop_map(|(x, s1, t)| Case { x, s1, shape: Shape::CompoundTarget(t.to_string()) }),
    ]
}

fn enumerated() -> Vec<Case> {
    let xs = [
        x_from(false, "0".into(), None, None, None),
        x_from(true, "40".into(), None, None, None),
        x_from(false, "36".into(), Some("6".into()), None, None),
        x_from(true, "500".into(), None, None, None),
        x_from(false, "1".into(), None, None, Some(3)),
        x_from(false, "1".into(), None, Some(20), None),
    ];
    let mut v = vec![];
    for x in xs.iter() {
        for s1 in 0..26u8 {
            for s2 in 0..26u8 {
                v.push(Case {
                    x: x.clone(),
                    s1,
                    shape: Shape::Chain(vec![s2]),
                });
            }
        }
    }
    for s in 0..26u8 {
        for t in COMPOUND_TARGETS {
            v.push(Case {
                x: xs[2].clone(),
                s1: s,
                shape: Shape::CompoundTarget(t.to_string()),
            });
        }
        for u in DIM_UNITS {
            v.push(Case {
                x: xs[2].clone(),
                s1: s,
                shape: Shape::DimensionedOperand(u.to_string()),
            });
        }
    }
    v
}

pub fn mk_env(known: BTreeSet<String>) -> Env {
    Env {
        ctx: rinkx::new_ctx(),
        known,
    }
}

pub fn run(cx: &Cx) -> Report {
    let mut rep = Report::new(RULE);
    rep.assumptions = vec![
        "textbook constants: K = C + 273.15; K = (F + 459.67)*5/9; K = Re*5/4 + 273.15; K = (Ro - 7.5)*40/21 + 273.15; K = 373.15 - De*2/3; K = N*100/33 + 273.15".into(),
        "a dimensionless operand such as `5 percent °C` is legitimate and not generated as a refusal".into(),
    ];
    let known = cx.known.clone();
    crate::regress::run(cx, &mut rep, &replay);
    let items = enumerated();
    rep.stats.note("enumerated_cases", json!(items.len()));
    let k = known.clone();
    rep.absorb(par_sweep(
        cx,
        "all-spelling-pairs",
        items,
        move || mk_env(k.clone()),
        |env, c, st| check(env, c, st),
        |c| serde_json::to_value(c).unwrap(),
    ));
    rep.mark(cx, "enumerated");
    let k = known.clone();
    rep.absorb(par_proptest(
        cx,
        "random",
        cx.tier.pick(40_000, 1_500_000),
        case_strategy,
        move || mk_env(k.clone()),
        |env, c, st| check(env, c, st),
        |c| serde_json::to_value(c).unwrap(),
    ));
    rep.mark(cx, "random");
    rep
}

pub fn replay(cx: &Cx, _phase: &str, case: &J, st: &mut Stats) -> CaseResult {
    let env = mk_env(cx.known.clone());
    let c: Case = serde_json::from_value(case.clone()).map_err(|e| format!("bad case: {}", e))?;
    check(&env, &c, st)
}
