//! C20 — currency cache is replaced atomically or not at all.
//!
//! Every scenario runs the real `rink` binary (built from /repo's working tree
//! into harness/target-rink) in its own scratch HOME/XDG dirs against a
//! scripted `rv-httpd`, optionally killed with SIGKILL at the entry of its
//! N-th file-system syscall (strace fault injection) or while it waits for the
//! next body byte (server-paced). Afterwards the cache bytes and a follow-up
//! `rink` run (server refusing) are judged.

use crate::engine::*;
use proptest::prelude::*;
use serde_derive::{Deserialize, Serialize};
use serde_json::{json, Value as J};
use std::collections::{BTreeMap, BTreeSet};
use std::os::unix::process::{CommandExt, ExitStatusExt};
use std::path::{Path, PathBuf};
use std::process::{Child, Command, Stdio};
use std::sync::atomic::{AtomicU64, Ordering};
use std::sync::Arc;
use std::time::{Duration, Instant};

pub const RULE: &str = "scenario = (prior cache state {absent, fresh, stale, unreadable JSON (stale), unreadable JSON (fresh)}, \
server script {200 complete / chunked complete, 200 cut after k body bytes with FIN or RST, chunked cut mid-chunk, cut inside the header block, \
3xx/4xx/5xx with various bodies, stall before headers / mid-body until the client gives up, refused connection}, entry \
{rink EXPR, rink --fetch-currency}, kill {none, SIGKILL at entry of the N-th traced file syscall, SIGKILL while waiting for \
body byte k+1}). Non-trivial = distinct scenario that has a prior cache file AND whose refresh was attempted and failed \
(server contacted / connection refused, script not a complete 200) or was interrupted by the kill.";

const SNAPSHOT: &str = "/repo/core/tests/currency.snapshot.json";
const OLD_RATE: &str = "3";
const NEW_RATE: &str = "7";
const EXPR_PLAIN: &str = "3 foot -> m";
const EXPR_MARKER: &str = "1 EUR -> USD";
const PLAIN_ANSWER: &str = "0.9144 meter";
const TRACE_FULL: &str =
    "openat,write,fsync,fdatasync,rename,renameat,renameat2,unlink,unlinkat,close,mkdir,mkdirat,ftruncate,lseek,fcntl";
const TRACE_REDUCED: &str = "openat,write,fsync,fdatasync,renameat,renameat2,unlinkat,close,mkdirat,ftruncate,lseek,fcntl";
/// known-finding signature: connection closed inside the headers => cache replaced by an empty file
pub const SIG_EMPTY_ON_HEADER_CUT: &str = "cache-emptied:connection-closed-inside-headers";
const WATCHDOG: Duration = Duration::from_secs(40);

// ---------------------------------------------------------------------------
// scenario
// ---------------------------------------------------------------------------

#[derive(Serialize, Deserialize, Clone, Copy, Debug, PartialEq, Eq, Hash, PartialOrd, Ord)]
#[serde(rename_all = "snake_case")]
pub enum Prior {
    Absent,
    Fresh,
    Stale,
    Unreadable,
    UnreadableFresh,
}
pub const PRIORS: [Prior; 5] = [
    Prior::Absent,
    Prior::Fresh,
    Prior::Stale,
    Prior::Unreadable,
    Prior::UnreadableFresh,
];

#[derive(Serialize, Deserialize, Clone, Copy, Debug, PartialEq, Eq, Hash, PartialOrd, Ord)]
#[serde(rename_all = "snake_case")]
pub enum Body {
    Small,
    Padded,
}

#[derive(Serialize, Deserialize, Clone, Copy, Debug, PartialEq, Eq, Hash, PartialOrd, Ord)]
#[serde(rename_all = "snake_case")]
pub enum ErrBody {
    Empty,
    Text,
    NewSmall,
}

#[derive(Serialize, Deserialize, Clone, Debug, PartialEq, Eq, Hash)]
#[serde(tag = "mode", rename_all = "snake_case")]
pub enum Server {
    Complete { body: Body },
    ChunkedComplete { body: Body },
    CutAfter { body: Body, k: u64, rst: bool },
    ChunkedCutAfter { body: Body, k: u64 },
    HeaderCut { k: u64, rst: bool },
    Status { status: u16, body: ErrBody },
    StallBeforeHeaders,
    StallMidBody { body: Body, k: u64 },
    Refused,
    /// a 200 without Content-Length or chunking whose body stops after k bytes with an orderly close
    CloseDelimitedCut { body: Body, k: u64 },
}

impl Server {
    fn succeeds(&self) -> bool {
        matches!(self, Server::Complete { .. } | Server::ChunkedComplete { .. })
    }
    fn name(&self) -> String {
        match self {
            Server::Complete { .. } => "200_complete".into(),
            Server::ChunkedComplete { .. } => "200_chunked_complete".into(),
            Server::CutAfter { rst, .. } => format!("200_cut_{}", if *rst { "rst" } else { "fin" }),
            Server::ChunkedCutAfter { .. } => "200_chunked_cut".into(),
            Server::HeaderCut { .. } => "header_cut".into(),
            Server::Status { status, .. } => format!("status_{}xx", status / 100),
            Server::StallBeforeHeaders => "stall_before_headers".into(),
            Server::StallMidBody { .. } => "stall_mid_body".into(),
            Server::Refused => "refused".into(),
            Server::CloseDelimitedCut { .. } => "200_close_delimited_cut".into(),
        }
    }
}

#[derive(Serialize, Deserialize, Clone, Copy, Debug, PartialEq, Eq, Hash, PartialOrd, Ord)]
#[serde(rename_all = "snake_case")]
pub enum Entry {
    Expr,
    Fetch,
    /// the interactive prompt with `[limits] enabled = true`: queries are answered by a sandboxed
    /// child process, which loads the configuration (and refreshes the cache) once more
    SandboxedRepl,
}

#[derive(Serialize, Deserialize, Clone, Debug, PartialEq, Eq, Hash)]
#[serde(tag = "how", rename_all = "snake_case")]
pub enum Kill {
    None,
    /// SIGKILL at the entry of the `when`-th call of `name` (per thread, strace inject)
    Syscall { name: String, when: u32 },
    /// SIGKILL once the server reports it has sent its k bytes and is stalling
    ServerPaced,
}

#[derive(Serialize, Deserialize, Clone, Debug, PartialEq, Eq, Hash)]
pub struct Scenario {
    pub prior: Prior,
    pub server: Server,
    pub entry: Entry,
    pub kill: Kill,
    /// configure `timeout = "500us"` instead of 500 ms
    #[serde(default, skip_serializing_if = "is_false")]
    pub tiny_timeout: bool,
}

fn is_false(b: &bool) -> bool {
    !*b
}

// ---------------------------------------------------------------------------
// fixed data
// ---------------------------------------------------------------------------

pub struct Data {
    pub old: Vec<u8>,
    pub new_small: Vec<u8>,
    pub new_padded: Vec<u8>,
    pub unreadable: Vec<u8>,
    pub err_text: Vec<u8>,
}

impl Data {
    fn new_of(&self, b: Body) -> &Vec<u8> {
        match b {
            Body::Small => &self.new_small,
            Body::Padded => &self.new_padded,
        }
    }
    fn prior_bytes(&self, p: Prior) -> Option<&Vec<u8>> {
        match p {
            Prior::Absent => None,
            Prior::Fresh | Prior::Stale => Some(&self.old),
            Prior::Unreadable | Prior::UnreadableFresh => Some(&self.unreadable),
        }
    }
}

fn with_marker(snap: &J, rate: &str, pads: usize, pad_len: usize) -> Result<Vec<u8>, String> {
    let mut v = snap.clone();
    let arr = v.as_array_mut().ok_or("snapshot is not a JSON array")?;
    let usd = arr
        .iter_mut()
        .find(|e| e["name"] == "USD")
        .ok_or("snapshot has no USD entry")?;
    usd["expr"] = json!(format!("(1 / {}) EUR", rate));
    for i in 0..pads {
        let unit = format!("pad{:04}-", i);
        let doc: String = unit.repeat(pad_len / unit.len());
        arr.push(json!({"name": format!("rvpad{:04}", i), "doc": doc, "category": null, "type": "unit", "expr": "1"}));
    }
    serde_json::to_vec_pretty(&v).map_err(|e| e.to_string())
}

fn build_data() -> Result<Data, String> {
    let text = std::fs::read_to_string(SNAPSHOT).map_err(|e| format!("cannot read {}: {}", SNAPSHOT, e))?;
    let snap: J = serde_json::from_str(&text).map_err(|e| format!("snapshot does not parse: {}", e))?;
    let old = with_marker(&snap, OLD_RATE, 4, 10_000)?;
    let new_small = with_marker(&snap, NEW_RATE, 0, 0)?;
    let new_padded = with_marker(&snap, NEW_RATE, 30, 10_000)?;
    let unreadable = old[..old.len() / 2].to_vec();
    Ok(Data {
        old,
        new_small,
        new_padded,
        unreadable,
        err_text: b"<html><body><h1>error</h1>the currency service is unavailable</body></html>\n".to_vec(),
    })
}

// ---------------------------------------------------------------------------
// setup / per-thread environment
// ---------------------------------------------------------------------------

pub struct Setup {
    pub rink: PathBuf,
    pub httpd: PathBuf,
    /// Some(trace set) when strace fault injection works here
    pub strace: Option<String>,
    pub strace_note: String,
    pub data: Data,
}

fn locate_rink() -> Result<PathBuf, String> {
    if let Ok(p) = std::env::var("RV_RINK_BIN") {
        let p = PathBuf::from(p);
        return if p.is_file() { Ok(p) } else { Err(format!("RV_RINK_BIN={} is not a file", p.display())) };
    }
    let mut cands = vec![];
    if let Ok(exe) = std::env::current_exe() {
        // <root>/harness/target/release/rv -> <root>/harness/target-rink/debug/rink
        if let Some(h) = exe.parent().and_then(|p| p.parent()).and_then(|p| p.parent()) {
            cands.push(h.join("target-rink/debug/rink"));
        }
    }
    cands.push(PathBuf::from("/verif/harness/target-rink/debug/rink"));
    for c in &cands {
        if c.is_file() {
            return Ok(c.clone());
        }
    }
    Err(format!("rink binary not found (looked at {:?}); run /verif/check --build", cands))
}

fn locate_httpd() -> Result<PathBuf, String> {
    let exe = std::env::current_exe().map_err(|e| e.to_string())?;
    let p = exe.parent().unwrap_or(Path::new(".")).join("rv-httpd");
    if p.is_file() {
        Ok(p)
    } else {
        Err(format!("{} not found", p.display()))
    }
}

static COUNTER: AtomicU64 = AtomicU64::new(0);

fn scratch(tag: &str) -> Result<PathBuf, String> {
    let n = COUNTER.fetch_add(1, Ordering::SeqCst);
    let d = std::env::temp_dir().join(format!("rv-c20-{}-{}{}", std::process::id(), tag, n));
    let _ = std::fs::remove_dir_all(&d);
    std::fs::create_dir_all(&d).map_err(|e| format!("mkdir {}: {}", d.display(), e))?;
    Ok(d)
}

struct DirGuard(PathBuf);
impl Drop for DirGuard {
    fn drop(&mut self) {
        if std::env::var("RV_C20_KEEP").is_err() {
            let _ = std::fs::remove_dir_all(&self.0);
        }
    }
}

pub struct RunOut {
    pub code: Option<i32>,
    pub signal: Option<i32>,
    pub stdout: String,
    pub stderr: String,
}

impl RunOut {
    fn all(&self) -> String {
        format!("{}\n{}", self.stdout, self.stderr)
    }
    fn status(&self) -> String {
        match (self.code, self.signal) {
            (Some(c), _) => format!("exit {}", c),
            (_, Some(s)) => format!("signal {}", s),
            _ => "?".into(),
        }
    }
}

fn strip_ansi(s: &str) -> String {
    let mut out = String::with_capacity(s.len());
    let mut it = s.chars().peekable();
    while let Some(c) = it.next() {
        if c == '\u{1b}' && it.peek() == Some(&'[') {
            it.next();
            for d in it.by_ref() {
                if d.is_ascii_alphabetic() {
                    break;
                }
            }
        } else {
            out.push(c);
        }
    }
    out
}

fn kill_group(ch: &mut Child) {
    unsafe {
        libc::kill(-(ch.id() as i32), libc::SIGKILL);
    }
    let _ = ch.kill();
    let _ = ch.wait();
}

fn wait_child(ch: &mut Child, limit: Duration) -> Result<std::process::ExitStatus, String> {
    let end = Instant::now() + limit;
    loop {
        match ch.try_wait() {
            Ok(Some(s)) => return Ok(s),
            Ok(None) => {}
            Err(e) => return Err(format!("wait: {}", e)),
        }
        if Instant::now() > end {
            kill_group(ch);
            return Err("watchdog".into());
        }
        std::thread::sleep(Duration::from_millis(2));
    }
}

/// the directories of one rink "home"
struct Home {
    dir: PathBuf,
}

impl Home {
    fn new(dir: &Path) -> Result<Home, String> {
        for d in ["cfg/rink", "cache", "cwd"] {
            std::fs::create_dir_all(dir.join(d)).map_err(|e| format!("mkdir: {}", e))?;
        }
        Ok(Home { dir: dir.to_path_buf() })
    }
    fn cache_dir(&self) -> PathBuf {
        self.dir.join("cache/rink")
    }
    fn cache_file(&self) -> PathBuf {
        self.cache_dir().join("currency.json")
    }
    fn write_config(&self, port: u16) -> Result<(), String> {
        self.write_config_with(port, false, false)
    }
    fn write_config_with(&self, port: u16, limits: bool, tiny_timeout: bool) -> Result<(), String> {
        let mut text = format!(
            "[currency]\nendpoint = \"http://127.0.0.1:{}/data/currency.json\"\ntimeout = \"{}\"\ncache_duration = \"1h\"\n",
            port,
            if tiny_timeout { "500us" } else { "500ms" }
        );
        if limits {
            text.push_str("[limits]\nenabled = true\n");
        }
        std::fs::write(self.dir.join("cfg/rink/config.toml"), text).map_err(|e| format!("write config: {}", e))
    }
    fn command(&self, program: &Path) -> Command {
        let mut c = Command::new(program);
        c.env_clear()
            .env("HOME", &self.dir)
            .env("XDG_CONFIG_HOME", self.dir.join("cfg"))
            .env("XDG_CACHE_HOME", self.dir.join("cache"))
            .env("PATH", "/usr/local/bin:/usr/bin:/bin")
            .env("NO_COLOR", "1")
            .env("TZ", "UTC")
            .env("RUST_BACKTRACE", "0")
            .current_dir(self.dir.join("cwd"))
            .stdin(Stdio::null())
            .process_group(0);
        c
    }
    fn spawn(&self, mut c: Command, tag: &str) -> Result<(Child, PathBuf, PathBuf), String> {
        let o = self.dir.join(format!("{}.out", tag));
        let e = self.dir.join(format!("{}.err", tag));
        let fo = std::fs::File::create(&o).map_err(|e| e.to_string())?;
        let fe = std::fs::File::create(&e).map_err(|e| e.to_string())?;
        c.stdout(fo).stderr(fe);
        let ch = c.spawn().map_err(|e| format!("spawn {:?}: {}", c.get_program(), e))?;
        Ok((ch, o, e))
    }
    fn collect(&self, st: std::process::ExitStatus, o: &Path, e: &Path) -> RunOut {
        let rd = |p: &Path| strip_ansi(&String::from_utf8_lossy(&std::fs::read(p).unwrap_or_default()));
        RunOut {
            code: st.code(),
            signal: st.signal(),
            stdout: rd(o),
            stderr: rd(e),
        }
    }
    fn run(&self, c: Command, tag: &str) -> Result<RunOut, String> {
        self.run_within(c, tag, WATCHDOG)
    }
    fn run_within(&self, c: Command, tag: &str, limit: Duration) -> Result<RunOut, String> {
        let (mut ch, o, e) = self.spawn(c, tag)?;
        let st = wait_child(&mut ch, limit)?;
        Ok(self.collect(st, &o, &e))
    }
}

fn set_mtime_ago(path: &Path, secs_ago: i64) -> Result<(), String> {
    use std::os::unix::ffi::OsStrExt;
    let now = std::time::SystemTime::now()
        .duration_since(std::time::UNIX_EPOCH)
        .map_err(|e| e.to_string())?
        .as_secs() as i64;
    let ts = libc::timespec {
        tv_sec: (now - secs_ago) as libc::time_t,
        tv_nsec: 0,
    };
    let times = [ts, ts];
    let c = std::ffi::CString::new(path.as_os_str().as_bytes()).map_err(|e| e.to_string())?;
    let r = unsafe { libc::utimensat(libc::AT_FDCWD, c.as_ptr(), times.as_ptr(), 0) };
    if r != 0 {
        return Err(format!("utimensat: {}", std::io::Error::last_os_error()));
    }
    Ok(())
}

/// a TCP port that is bound but never listens: connect() is refused and
/// nobody else can be handed the port while we hold it
struct RefusedPort {
    fd: i32,
    port: u16,
}

impl RefusedPort {
    fn new() -> Result<RefusedPort, String> {
        unsafe {
            let fd = libc::socket(libc::AF_INET, libc::SOCK_STREAM | libc::SOCK_CLOEXEC, 0);
            if fd < 0 {
                return Err(format!("socket: {}", std::io::Error::last_os_error()));
            }
            let mut a: libc::sockaddr_in = std::mem::zeroed();
            a.sin_family = libc::AF_INET as libc::sa_family_t;
            a.sin_port = 0;
            a.sin_addr.s_addr = u32::from_be_bytes([127, 0, 0, 1]).to_be();
            let len = std::mem::size_of::<libc::sockaddr_in>() as libc::socklen_t;
            if libc::bind(fd, &a as *const _ as *const libc::sockaddr, len) != 0 {
                let e = std::io::Error::last_os_error();
                libc::close(fd);
                return Err(format!("bind: {}", e));
            }
            let mut l = len;
            if libc::getsockname(fd, &mut a as *mut _ as *mut libc::sockaddr, &mut l) != 0 {
                let e = std::io::Error::last_os_error();
                libc::close(fd);
                return Err(format!("getsockname: {}", e));
            }
            Ok(RefusedPort {
                fd,
                port: u16::from_be(a.sin_port),
            })
        }
    }
}

impl Drop for RefusedPort {
    fn drop(&mut self) {
        unsafe {
            libc::close(self.fd);
        }
    }
}

struct ServerProc {
    child: Child,
    port: u16,
    log: PathBuf,
}

impl ServerProc {
    fn log_text(&self) -> String {
        std::fs::read_to_string(&self.log).unwrap_or_default()
    }
}

impl Drop for ServerProc {
    fn drop(&mut self) {
        let _ = self.child.kill();
        let _ = self.child.wait();
    }
}

pub struct Env {
    pub setup: Arc<Setup>,
    pub known: BTreeSet<String>,
    dir: PathBuf,
    refused: Option<RefusedPort>,
    broken: Option<String>,
}

impl Drop for Env {
    fn drop(&mut self) {
        let _ = std::fs::remove_dir_all(&self.dir);
    }
}

pub fn mk_env(setup: Arc<Setup>, known: BTreeSet<String>) -> Env {
    let mut broken = None;
    let dir = match scratch("env") {
        Ok(d) => d,
        Err(e) => {
            broken = Some(e);
            PathBuf::from("/nonexistent")
        }
    };
    if broken.is_none() {
        let d = &setup.data;
        for (n, b) in [
            ("new_small.json", &d.new_small),
            ("new_padded.json", &d.new_padded),
            ("err.txt", &d.err_text),
            ("empty", &Vec::new()),
        ] {
            if let Err(e) = std::fs::write(dir.join(n), b) {
                broken = Some(format!("write body: {}", e));
            }
        }
    }
    let refused = match RefusedPort::new() {
        Ok(r) => Some(r),
        Err(e) => {
            broken = Some(e);
            None
        }
    };
    Env {
        setup,
        known,
        dir,
        refused,
        broken,
    }
}

impl Env {
    fn body_path(&self, b: Body) -> PathBuf {
        self.dir.join(match b {
            Body::Small => "new_small.json",
            Body::Padded => "new_padded.json",
        })
    }

    fn script(&self, sv: &Server, log: &Path) -> Option<J> {
        let log = log.to_string_lossy().to_string();
        let bp = |b: Body| self.body_path(b).to_string_lossy().to_string();
        let close = |rst: bool| if rst { "rst" } else { "fin" };
        Some(match sv {
            Server::Complete { body } => json!({"status":200,"body_file":bp(*body),"mode":"complete","log":log}),
            Server::ChunkedComplete { body } => {
                json!({"status":200,"body_file":bp(*body),"mode":"chunked_complete","log":log})
            }
            Server::CutAfter { body, k, rst } => {
                json!({"status":200,"body_file":bp(*body),"mode":"cut_after","k":k,"close":close(*rst),"log":log})
            }
            Server::ChunkedCutAfter { body, k } => {
                json!({"status":200,"body_file":bp(*body),"mode":"chunked_cut_after","k":k,"log":log})
            }
            Server::HeaderCut { k, rst } => json!({"status":200,"body_file":bp(Body::Small),"mode":"header_cut",
                "k":k,"close":close(*rst),"log":log}),
            Server::Status { status, body } => {
                let f = match body {
                    ErrBody::Empty => "empty",
                    ErrBody::Text => "err.txt",
                    ErrBody::NewSmall => "new_small.json",
                };
                let mut j = json!({"status":status,"body_file":self.dir.join(f).to_string_lossy(),
                    "mode":"status_only","log":log});
                if *status / 100 == 3 {
                    j["location"] = json!("/data/moved.json");
                }
                j
            }
            Server::StallBeforeHeaders => json!({"status":200,"mode":"stall_before_headers","log":log}),
            Server::StallMidBody { body, k } => {
                json!({"status":200,"body_file":bp(*body),"mode":"stall_mid_body","k":k,"log":log})
            }
            Server::Refused => return None,
            Server::CloseDelimitedCut { body, k } => {
                json!({"status":200,"body_file":bp(*body),"mode":"close_delimited_cut","k":k,"log":log})
            }
        })
    }

    fn start_server(&self, sv: &Server, dir: &Path) -> Result<Option<ServerProc>, String> {
        self.start_server_stalling(sv, dir, None)
    }
    /// `stall_cap_ms`: how long a stalling script waits for the client to go away (default 15 s)
    fn start_server_stalling(&self, sv: &Server, dir: &Path, stall_cap_ms: Option<u64>) -> Result<Option<ServerProc>, String> {
        let log = dir.join("server.log");
        let mut script = match self.script(sv, &log) {
            Some(s) => s,
            None => return Ok(None),
        };
        if let Some(ms) = stall_cap_ms {
            script["stall_cap_ms"] = json!(ms);
        }
        let sp = dir.join("script.json");
        std::fs::write(&sp, script.to_string()).map_err(|e| e.to_string())?;
        let mut child = Command::new(&self.setup.httpd)
            .arg(&sp)
            .stdin(Stdio::null())
            .stdout(Stdio::piped())
            .stderr(Stdio::null())
            .spawn()
            .map_err(|e| format!("spawn rv-httpd: {}", e))?;
        let mut line = String::new();
        {
            use std::io::BufRead;
            let out = child.stdout.take().ok_or("no stdout")?;
            let mut r = std::io::BufReader::new(out);
            let _ = r.read_line(&mut line);
        }
        match line.trim().parse::<u16>() {
            Ok(port) if port != 0 => Ok(Some(ServerProc { child, port, log })),
            _ => {
                let _ = child.kill();
                let _ = child.wait();
                Err(format!("rv-httpd did not report a port (got {:?})", line))
            }
        }
    }
}

fn rink_args(entry: Entry) -> Vec<&'static str> {
    match entry {
        Entry::Expr => vec![EXPR_PLAIN, EXPR_MARKER],
        Entry::Fetch => vec!["--fetch-currency"],
        Entry::SandboxedRepl => vec![],
    }
}

fn strace_command(home: &Home, rink: &Path, set: &str, log: &Path, inject: Option<(&str, u32)>, args: &[&str]) -> Command {
    let mut c = home.command(Path::new("strace"));
    c.args(["-f", "-y", "-s", "16", "-o"]).arg(log).arg("-e").arg(format!("trace={}", set));
    if let Some((name, when)) = inject {
        c.arg("-e").arg(format!("inject={}:signal=KILL:when={}", name, when));
    }
    c.arg(rink).args(args);
    c
}

/// does `strace -e inject=…:signal=KILL` work here? returns the usable trace set
fn probe_strace(rink: &Path) -> (Option<String>, String) {
    let dir = match scratch("probe") {
        Ok(d) => d,
        Err(e) => return (None, e),
    };
    let _g = DirGuard(dir.clone());
    let home = match Home::new(&dir) {
        Ok(h) => h,
        Err(e) => return (None, e),
    };
    let mut why = String::new();
    for set in [TRACE_FULL, TRACE_REDUCED] {
        let log = dir.join("probe.strace");
        let c = strace_command(&home, rink, set, &log, Some(("write", 1)), &["--config-path"]);
        match home.run(c, "probe") {
            Ok(o) if o.signal == Some(9) && o.stdout.trim().is_empty() => {
                return (Some(set.to_string()), format!("strace inject works (trace set: {})", set));
            }
            Ok(o) => why = format!("strace probe: {} stdout={:?} stderr={:?}", o.status(), o.stdout, o.stderr),
            Err(e) => why = format!("strace probe: {}", e),
        }
    }
    (None, why)
}

pub fn setup() -> Result<Setup, String> {
    let rink = locate_rink()?;
    let httpd = locate_httpd()?;
    let data = build_data()?;
    let (strace, strace_note) = if std::env::var("RV_C20_NO_STRACE").is_ok() {
        (None, "strace disabled by RV_C20_NO_STRACE".to_string())
    } else {
        probe_strace(&rink)
    };
    Ok(Setup {
        rink,
        httpd,
        strace,
        strace_note,
        data,
    })
}

// ---------------------------------------------------------------------------
// strace log parsing
// ---------------------------------------------------------------------------

/// (pid, syscall name, rest of line) for syscall-entry lines
fn parse_line(line: &str) -> Option<(&str, &str, &str)> {
    let (pid, rest) = line.split_once(' ')?;
    if !pid.bytes().all(|b| b.is_ascii_digit()) {
        return None;
    }
    let rest = rest.trim_start();
    let open = rest.find('(')?;
    let name = &rest[..open];
    if name.is_empty() || !name.bytes().all(|b| b.is_ascii_alphanumeric() || b == b'_') {
        return None;
    }
    Some((pid, name, rest))
}

fn target_of(name: &str, rest: &str, cache_dir: &str) -> &'static str {
    if !rest.contains(cache_dir) {
        if rest.contains("(1<") || rest.contains("(2<") {
            return "stdio";
        }
        return "other";
    }
    if name.starts_with("rename") {
        return "commit";
    }
    let file = format!("{}/currency.json", cache_dir);
    let tmp = format!("{}/currency.", cache_dir);
    let without_file = rest.replace(&file, "");
    if without_file.contains(&tmp) {
        "tmp"
    } else if rest.contains(&file) {
        "cache"
    } else {
        "cachedir"
    }
}

#[derive(Clone, Debug)]
pub struct KillPoint {
    pub name: String,
    pub when: u32,
    pub label: String,
    pub essential: bool,
}

fn kill_points(log: &str, cache_dir: &str) -> Vec<KillPoint> {
    let mut main_pid: Option<String> = None;
    let mut counts: BTreeMap<String, u32> = BTreeMap::new();
    // (name, when, target)
    let mut calls: Vec<(String, u32, &'static str)> = vec![];
    for line in log.lines() {
        let (pid, name, rest) = match parse_line(line) {
            Some(x) => x,
            None => continue,
        };
        let mp = main_pid.get_or_insert_with(|| pid.to_string());
        if pid != mp {
            continue;
        }
        let c = counts.entry(name.to_string()).or_insert(0);
        *c += 1;
        calls.push((name.to_string(), *c, target_of(name, rest, cache_dir)));
    }
    let touches = |t: &str| matches!(t, "tmp" | "cache" | "cachedir" | "commit");
    let first = match calls.iter().position(|c| touches(c.2)) {
        Some(i) => i,
        None => return vec![],
    };
    let last = calls.iter().rposition(|c| touches(c.2)).unwrap_or(first);
    let lo = first.saturating_sub(1);
    let hi = (last + 3).min(calls.len() - 1);
    let first_tmp_write = calls.iter().position(|c| c.0 == "write" && c.2 == "tmp");
    let last_tmp_write = calls.iter().rposition(|c| c.0 == "write" && c.2 == "tmp");
    let commit = calls.iter().position(|c| c.2 == "commit");
    let mut out = vec![];
    for i in lo..=hi {
        let (name, when, t) = &calls[i];
        if i > lo && i < last && !touches(t) {
            continue; // unrelated call in the middle (socket close etc.): same disk state as the next one
        }
        let essential = (name == "openat" && *t == "tmp")
            || name == "fsync"
            || name == "fdatasync"
            || *t == "commit"
            || name.starts_with("unlink")
            || Some(i) == first_tmp_write
            || Some(i) == last_tmp_write
            || commit.map(|c| i == c + 1).unwrap_or(false)
            || i == hi;
        out.push(KillPoint {
            name: name.clone(),
            when: *when,
            label: format!("{}:{}", name, t),
            essential,
        });
    }
    out
}

/// where was the process killed (label) according to the strace log of a kill run
fn killed_at(log: &str, cache_dir: &str) -> String {
    let mut last = None;
    // pid -> label of its latest "<unfinished ...>" entry
    let mut pending: BTreeMap<String, String> = BTreeMap::new();
    for line in log.lines() {
        let l = line.trim_end();
        if let Some((pid, name, rest)) = parse_line(l) {
            let label = format!("{}:{}", name, target_of(name, rest, cache_dir));
            if l.ends_with("= ?") {
                last = Some(label);
            } else if l.ends_with("<unfinished ...>") {
                pending.insert(pid.to_string(), label);
            }
        } else if l.ends_with("= ?") && l.contains(" resumed>") {
            if let Some((pid, _)) = l.split_once(' ') {
                if let Some(lbl) = pending.get(pid) {
                    last = Some(lbl.clone());
                }
            }
        }
    }
    last.unwrap_or_else(|| "unknown".into())
}

// ---------------------------------------------------------------------------
// running and judging one scenario
// ---------------------------------------------------------------------------

#[derive(Clone, Copy, PartialEq, Eq, Debug)]
enum Kind {
    Absent,
    Old,
    New,
    Garbage,
}

fn kind_of(d: &Data, bytes: &Option<Vec<u8>>) -> Kind {
    match bytes {
        None => Kind::Absent,
        Some(b) if *b == d.old => Kind::Old,
        Some(b) if *b == d.new_small || *b == d.new_padded => Kind::New,
        Some(_) => Kind::Garbage,
    }
}

fn common_prefix(a: &[u8], b: &[u8]) -> usize {
    a.iter().zip(b.iter()).take_while(|(x, y)| x == y).count()
}

fn marker_line(stdout: &str) -> Option<String> {
    if !stdout.lines().any(|l| l.trim() == format!("> {}", EXPR_MARKER)) {
        // the interactive prompt does not echo its input: the answers follow each other, and the
        // marker's answer is the first non-empty line after the plain answer
        let mut it = stdout.lines().map(|l| l.trim().trim_start_matches("> ").trim().to_string());
        while let Some(l) = it.next() {
            if l.contains(PLAIN_ANSWER) {
                return it.find(|l| !l.is_empty());
            }
        }
        return None;
    }
    let mut it = stdout.lines();
    while let Some(l) = it.next() {
        if l.trim() == format!("> {}", EXPR_MARKER) {
            return it.next().map(|s| s.trim().to_string());
        }
    }
    None
}

/// Err((signature, detail)) when the run's answers do not match the cache kind
fn judge_answers(out: &RunOut, kind: Kind, which: &str) -> Result<(), (String, String)> {
    if out.code != Some(0) {
        return Err((
            format!("{}-rink-did-not-start", which),
            format!("`rink '{}' '{}'` ended with {}; stderr: {}", EXPR_PLAIN, EXPR_MARKER, out.status(), tail(&out.stderr)),
        ));
    }
    if !out.stdout.contains(PLAIN_ANSWER) {
        return Err((
            format!("{}-non-currency-query-failed", which),
            format!("stdout lacks `{}`: {}", PLAIN_ANSWER, tail(&out.stdout)),
        ));
    }
    let m = marker_line(&out.stdout).unwrap_or_default();
    let ok = match kind {
        Kind::Old => m == format!("{} USD (money)", OLD_RATE),
        Kind::New => m == format!("{} USD (money)", NEW_RATE),
        Kind::Absent | Kind::Garbage => m.starts_with("No such unit"),
    };
    if ok {
        return Ok(());
    }
    if kind == Kind::Old && m.starts_with("No such unit") {
        return Err((
            format!("{}-stale-fallback-missing", which),
            format!("cache holds the complete previous data but `{}` answered `{}`; output: {}", EXPR_MARKER, m, tail(&out.stdout)),
        ));
    }
    Err((
        format!("{}-marker-mismatch", which),
        format!("cache is {:?} but `{}` answered `{}`", kind, EXPR_MARKER, m),
    ))
}

fn tail(s: &str) -> String {
    let t = s.trim();
    let t: String = t.chars().filter(|c| *c != '\r').collect();
    if t.len() > 400 {
        let mut i = t.len() - 400;
        while !t.is_char_boundary(i) {
            i += 1;
        }
        format!("…{}", &t[i..])
    } else {
        t
    }
}

fn infra(st: &mut Stats, what: &str, detail: &str) -> CaseResult {
    st.class(&format!("infra:{}", what));
    if std::env::var("VERIF_VERBOSE").is_ok() {
        eprintln!("[C20] infrastructure: {}: {}", what, detail);
    }
    st.notes
        .entry(format!("infra_example:{}", what))
        .or_insert_with(|| json!(detail));
    Ok(())
}

pub fn execute(env: &Env, sc: &Scenario, st: &mut Stats) -> CaseResult {
    if let Some(b) = &env.broken {
        return infra(st, "env", b);
    }
    let dir = match scratch("") {
        Ok(d) => d,
        Err(e) => return infra(st, "scratch", &e),
    };
    let _guard = DirGuard(dir.clone());
    match execute_in(env, sc, st, &dir) {
        Ok(()) => Ok(()),
        Err(Fail::Infra(what, detail)) => infra(st, &what, &detail),
        Err(Fail::Violation(sig, detail)) => {
            let text = serde_json::to_string(sc).unwrap_or_default();
            if env.known.contains(&sig) {
                st.known(&sig, &text);
                Ok(())
            } else {
                Err(format!("[{}] {}: {}", sig, text, detail))
            }
        }
    }
}

enum Fail {
    Infra(String, String),
    Violation(String, String),
}

fn inf<T>(what: &str) -> impl Fn(String) -> Result<T, Fail> + '_ {
    move |e| Err(Fail::Infra(what.to_string(), e))
}

fn execute_in(env: &Env, sc: &Scenario, st: &mut Stats, dir: &Path) -> Result<(), Fail> {
    let su = &env.setup;
    let d = &su.data;
    let home = Home::new(dir).or_else(inf("scratch"))?;
    let cache_dir = home.cache_dir();
    let cache_dir_s = cache_dir.to_string_lossy().to_string();
    let cache_file = home.cache_file();

    // --- prior state
    let prior = d.prior_bytes(sc.prior).cloned();
    if let Some(p) = &prior {
        std::fs::create_dir_all(&cache_dir).map_err(|e| e.to_string()).or_else(inf("scratch"))?;
        std::fs::write(&cache_file, p).map_err(|e| e.to_string()).or_else(inf("scratch"))?;
        let ago = match sc.prior {
            Prior::Fresh | Prior::UnreadableFresh => 60,
            _ => 2 * 3600,
        };
        set_mtime_ago(&cache_file, ago).or_else(inf("mtime"))?;
    }

    // --- server
    // a client whose configured timeout is half a millisecond must give up by itself: the server
    // outwaits both runs of the watchdog
    let server = env.start_server_stalling(&sc.server, dir, if sc.tiny_timeout { Some(70_000) } else { None }).or_else(inf("server"))?;
    let refused_port = env.refused.as_ref().map(|r| r.port).unwrap_or(1);
    let port = server.as_ref().map(|s| s.port).unwrap_or(refused_port);
    home.write_config_with(port, sc.entry == Entry::SandboxedRepl, sc.tiny_timeout).or_else(inf("scratch"))?;

    // --- the run under test
    let args = rink_args(sc.entry);
    let mut killed = false;
    let mut kill_label = String::new();
    let out: Option<RunOut> = match &sc.kill {
        Kill::None => {
            let mk = || -> Result<Command, String> {
                let mut c = home.command(&su.rink);
                c.args(&args);
                if sc.entry == Entry::SandboxedRepl {
                    let p = dir.join("stdin.txt");
                    std::fs::write(&p, format!("{}\n{}\n", EXPR_PLAIN, EXPR_MARKER)).map_err(|e| e.to_string())?;
                    c.stdin(std::fs::File::open(&p).map_err(|e| e.to_string())?);
                }
                Ok(c)
            };
            // the corner scenarios are about rink not coming back at all: its own limit is half a
            // second (or half a millisecond), so 25 s is ample even on a loaded machine
            let limit = if sc.entry == Entry::SandboxedRepl || sc.tiny_timeout { Duration::from_secs(25) } else { WATCHDOG };
            match home.run_within(mk().or_else(inf("scratch"))?, "run", limit) {
                Ok(o) => Some(o),
                Err(e) if e == "watchdog" && (sc.entry == Entry::SandboxedRepl || sc.tiny_timeout) => {
                    // rink neither finished nor gave up within 40 s (its own limit is half a second):
                    // once more, then it is the property's "Rink still starts ... and answers"
                    match home.run_within(mk().or_else(inf("scratch"))?, "run2", limit) {
                        Err(e2) if e2 == "watchdog" => {
                            return Err(Fail::Violation(
                                "rink-hangs-on-refresh".into(),
                                format!(
                                    "rink did not finish within {} s, twice (server {}, entry {:?}, timeout {}): it neither answered nor gave up on the refresh",
                                    limit.as_secs(),
                                    sc.server.name(),
                                    sc.entry,
                                    if sc.tiny_timeout { "500us" } else { "500ms" }
                                ),
                            ))
                        }
                        Ok(o) => Some(o),
                        Err(e2) => return Err(Fail::Infra("watchdog".into(), e2)),
                    }
                }
                Err(e) => return Err(Fail::Infra("watchdog".into(), e)),
            }
        }
        Kill::Syscall { name, when } => {
            let set = match &su.strace {
                Some(s) => s.clone(),
                None => return Err(Fail::Infra("strace".into(), su.strace_note.clone())),
            };
            if !name.bytes().all(|b| b.is_ascii_alphanumeric() || b == b'_') || !set.split(',').any(|s| s == name) {
                return Err(Fail::Infra("bad-case".into(), format!("syscall {:?} not in the trace set", name)));
            }
            let log = dir.join("run.strace");
            let c = strace_command(&home, &su.rink, &set, &log, Some((name, *when)), &args);
            let o = home.run(c, "run").or_else(inf("watchdog"))?;
            if o.signal == Some(9) {
                killed = true;
                let text = std::fs::read_to_string(&log).unwrap_or_default();
                kill_label = killed_at(&text, &cache_dir_s);
                st.class(&format!("kill:strace:at={}", kill_label));
                None
            } else {
                if o.code.is_none() || o.stderr.contains("strace:") {
                    return Err(Fail::Infra("strace".into(), format!("{}: {}", o.status(), tail(&o.stderr))));
                }
                st.class("kill:strace:not_reached");
                Some(o)
            }
        }
        Kill::ServerPaced => {
            let srv = match (&server, &sc.server) {
                (Some(s), Server::StallMidBody { .. }) | (Some(s), Server::StallBeforeHeaders) => s,
                _ => return Err(Fail::Infra("bad-case".into(), "server-paced kill needs a stalling server".into())),
            };
            let mut c = home.command(&su.rink);
            c.args(&args);
            let (mut ch, o, e) = home.spawn(c, "run").or_else(inf("spawn"))?;
            let end = Instant::now() + Duration::from_secs(20);
            let mut exited = None;
            loop {
                if srv.log_text().contains("SENT ") {
                    break;
                }
                if let Ok(Some(s)) = ch.try_wait() {
                    exited = Some(s);
                    break;
                }
                if Instant::now() > end {
                    kill_group(&mut ch);
                    return Err(Fail::Infra("watchdog".into(), "server never reached its stall".into()));
                }
                std::thread::sleep(Duration::from_millis(1));
            }
            if exited.is_none() {
                // the client now waits for byte k+1 (or is still writing what it got)
                std::thread::sleep(Duration::from_millis(15));
                if let Ok(Some(s)) = ch.try_wait() {
                    exited = Some(s);
                }
            }
            match exited {
                Some(s) => {
                    st.class("kill:server_paced:client_gone_first");
                    Some(home.collect(s, &o, &e))
                }
                None => {
                    kill_group(&mut ch);
                    killed = true;
                    kill_label = "recv-wait".into();
                    st.class("kill:server_paced:killed");
                    None
                }
            }
        }
    };
    let contacted = server.as_ref().map(|s| s.log_text().contains("REQ ")).unwrap_or(false);
    drop(server);

    // --- observe
    let fin = std::fs::read(&cache_file).ok();
    let mut leftovers = vec![];
    if let Ok(rd) = std::fs::read_dir(&cache_dir) {
        for e in rd.flatten() {
            let n = e.file_name().to_string_lossy().to_string();
            if n != "currency.json" {
                leftovers.push(n);
            }
        }
    }
    if !leftovers.is_empty() {
        st.class(if killed { "leftover_tempfile_after_kill" } else { "leftover_tempfile_without_kill" });
    }
    let served: Option<&Vec<u8>> = match &sc.server {
        Server::Complete { body }
        | Server::ChunkedComplete { body }
        | Server::CutAfter { body, .. }
        | Server::ChunkedCutAfter { body, .. }
        | Server::CloseDelimitedCut { body, .. }
        | Server::StallMidBody { body, .. } => Some(d.new_of(*body)),
        Server::Status { body: ErrBody::NewSmall, .. } => Some(&d.new_small),
        _ => None,
    };
    let is_prior = fin == prior;
    let is_new = match (&fin, served) {
        (Some(f), Some(s)) => f == s,
        _ => false,
    };
    let all_text = out.as_ref().map(|o| o.all()).unwrap_or_default();
    let attempted = contacted || all_text.contains("Couldn't connect") || all_text.contains("Could not connect");
    let failing = !sc.server.succeeds();

    // --- statistics
    st.eval();
    let outcome = if is_prior {
        if prior.is_none() {
            "still_absent"
        } else {
            "kept_prior"
        }
    } else if is_new {
        "replaced_by_new"
    } else {
        "OTHER"
    };
    st.class(&format!("prior={:?}|{}", sc.prior, outcome));
    st.class(&format!("server={}", sc.server.name()));
    st.class(&format!("entry={:?}", sc.entry));
    if killed {
        st.class(&format!("killed|{}", outcome));
    } else if !attempted {
        st.class("refresh:not_attempted");
    } else if is_new {
        st.class("refresh:succeeded");
    } else {
        st.class("refresh:failed");
    }
    let nontrivial = prior.is_some() && (killed || (failing && attempted));
    let key = serde_json::to_string(sc).unwrap_or_default();
    if nontrivial {
        st.nontrivial(&key);
        st.nt_sample(|| json!({"scenario": sc, "outcome": outcome, "killed_at": kill_label}));
    } else {
        st.sample(|| json!({"scenario": sc, "outcome": outcome}));
    }

    // --- R1: previous or new, never anything else
    if !is_prior && !is_new {
        let f = fin.clone().unwrap_or_default();
        let (sig, what) = if fin.is_none() {
            ("cache-file-removed", "the cache file existed before and is gone now".to_string())
        } else if f.is_empty() && matches!(sc.server, Server::HeaderCut { .. }) {
            (
                SIG_EMPTY_ON_HEADER_CUT,
                "the connection was closed inside the response headers (after a complete `HTTP/1.1 200 OK` status line); \
                 libcurl reports success with an empty body and rink installs the 0-byte file as the new cache".to_string(),
            )
        } else if f.is_empty() {
            ("cache-truncated-to-empty", "the cache file is now empty".to_string())
        } else if f == d.err_text {
            ("cache-holds-error-body", "the cache file now holds the body of the error response".to_string())
        } else if served.map(|s| f.len() < s.len() && s.starts_with(&f)).unwrap_or(false) {
            ("cache-partial-new", format!("the cache file holds only the first {} of {} new bytes", f.len(), served.unwrap().len()))
        } else {
            (
                "cache-mixed",
                format!(
                    "{} bytes; common prefix with previous = {}, with new = {}",
                    f.len(),
                    prior.as_ref().map(|p| common_prefix(p, &f)).unwrap_or(0),
                    served.map(|s| common_prefix(s, &f)).unwrap_or(0)
                ),
            )
        };
        return Err(Fail::Violation(
            sig.into(),
            format!(
                "after the scenario rink/currency.json is neither the complete previous contents ({}) nor the complete new contents: {} [run: {}; killed_at: {}]",
                prior.as_ref().map(|p| format!("{} bytes", p.len())).unwrap_or_else(|| "absent".into()),
                what,
                out.as_ref().map(|o| o.status()).unwrap_or_else(|| "killed".into()),
                kill_label
            ),
        ));
    }
    let kind = kind_of(d, &fin);

    if let Some(o) = &out {
        // R2: a failed refresh leaves the cache as it was
        if failing && !is_prior {
            return Err(Fail::Violation(
                "cache-replaced-on-failed-refresh".into(),
                format!("server script {} cannot yield a successful refresh, yet the cache was replaced (run: {}): {}",
                    sc.server.name(), o.status(), tail(&all_text)),
            ));
        }
        // R3: a successful refresh is committed
        if !failing && contacted && !is_new {
            if all_text.contains("Timeout was reached") {
                st.class("noise:client_timed_out_on_good_server");
            } else {
                return Err(Fail::Violation(
                    "refresh-not-committed".into(),
                    format!("the server delivered a complete 200 response but the cache still holds the previous contents (run: {}): {}",
                        o.status(), tail(&all_text)),
                ));
            }
        }
        match sc.entry {
            Entry::Expr | Entry::SandboxedRepl => {
                // R4: rink starts, answers, and shows exactly the data that is in the cache now
                judge_answers(o, kind, "run").map_err(|(s, m)| Fail::Violation(s, m))?;
            }
            Entry::Fetch => {
                let reported_failure = o.code != Some(0) || all_text.to_lowercase().contains("fail");
                if !is_new && !reported_failure {
                    return Err(Fail::Violation(
                        "fetch-reported-success-without-refresh".into(),
                        format!("--fetch-currency exited 0 without a failure message but the cache was not replaced: {}", tail(&all_text)),
                    ));
                }
                if is_new && o.code != Some(0) && !is_prior {
                    return Err(Fail::Violation(
                        "fetch-reported-failure-but-replaced-cache".into(),
                        format!("--fetch-currency ended with {} but the cache was replaced: {}", o.status(), tail(&all_text)),
                    ));
                }
            }
        }
    }

    // --- follow-up start with the server gone
    home.write_config(refused_port).or_else(inf("scratch"))?;
    let mut c = home.command(&su.rink);
    c.args([EXPR_PLAIN, EXPR_MARKER]);
    let fo = home.run(c, "followup").or_else(inf("watchdog"))?;
    judge_answers(&fo, kind, "next-start").map_err(|(s, m)| Fail::Violation(s, m))?;
    let after = std::fs::read(&cache_file).ok();
    if after != fin {
        return Err(Fail::Violation(
            "next-start-changed-cache".into(),
            format!("a start with the server refusing connections changed the cache file ({:?} -> {:?} bytes)",
                fin.as_ref().map(|b| b.len()), after.as_ref().map(|b| b.len())),
        ));
    }
    Ok(())
}

// ---------------------------------------------------------------------------
// scenario lists
// ---------------------------------------------------------------------------

fn combos() -> Vec<(Prior, Entry)> {
    let mut v = vec![];
    for p in PRIORS {
        for e in [Entry::Expr, Entry::Fetch] {
            v.push((p, e));
        }
    }
    v
}

const STATUSES: [(u16, ErrBody); 5] = [
    (301, ErrBody::Text),
    (404, ErrBody::Text),
    (404, ErrBody::NewSmall),
    (500, ErrBody::Text),
    (503, ErrBody::Empty),
];

fn fixed_servers(ls: u64, lp: u64) -> Vec<Server> {
    let mut v = vec![
        Server::Complete { body: Body::Small },
        Server::Complete { body: Body::Padded },
        Server::ChunkedComplete { body: Body::Padded },
        Server::StallBeforeHeaders,
        Server::StallMidBody { body: Body::Small, k: ls / 3 },
        Server::StallMidBody { body: Body::Padded, k: lp / 3 },
        Server::Refused,
        Server::HeaderCut { k: 10, rst: false },  // inside the status line
        Server::HeaderCut { k: 17, rst: false },  // exactly the status line
        Server::HeaderCut { k: 40, rst: true },   // inside a header field
        Server::HeaderCut { k: 10_000, rst: true }, // everything but the last byte of the blank line
        Server::ChunkedCutAfter { body: Body::Small, k: 0 },
        Server::ChunkedCutAfter { body: Body::Small, k: 5000 },
        Server::ChunkedCutAfter { body: Body::Padded, k: 100_000 },
    ];
    for (s, b) in STATUSES {
        v.push(Server::Status { status: s, body: b });
    }
    v
}

fn quick_cuts(ls: u64, lp: u64) -> Vec<(Body, u64)> {
    let mut v = vec![];
    for k in [0, 1, 2, 100, 1000, 4095, 4096, 4097, ls / 2, ls - 2, ls - 1] {
        v.push((Body::Small, k.min(ls - 1)));
    }
    for k in [
        0, 1, 8191, 8192, 8193, 16383, 16384, 16385, 32768, 65535, 65536, 65537, 100_000, 131_072, 150_000, 200_000,
        262_144, 300_000, lp - 16385, lp - 16384, lp - 8192, lp - 4096, lp - 100, lp - 2, lp - 1,
    ] {
        v.push((Body::Padded, k.min(lp - 1)));
    }
    v.dedup();
    v
}

fn thorough_cuts(ls: u64, lp: u64) -> Vec<(Body, u64)> {
    let mut s = BTreeSet::new();
    for (b, k) in quick_cuts(ls, lp) {
        s.insert((b, k));
    }
    let mut k = 0;
    while k < ls {
        s.insert((Body::Small, k));
        k += 64;
    }
    let mut m = 8192u64;
    while m < lp + 8192 {
        for k in [m - 1, m, m + 1] {
            if k < lp {
                s.insert((Body::Padded, k));
            }
        }
        m += 8192;
    }
    s.into_iter().collect()
}

fn grid(tier: Tier, ls: u64, lp: u64) -> Vec<Scenario> {
    let cs = combos();
    let mut out = vec![];
    for sv in fixed_servers(ls, lp) {
        for (p, e) in &cs {
            out.push(Scenario { prior: *p, server: sv.clone(), entry: *e, kill: Kill::None, tiny_timeout: false });
        }
    }
    match tier {
        Tier::Quick => {
            for (i, (b, k)) in quick_cuts(ls, lp).into_iter().enumerate() {
                // two (prior, entry) combinations per cut point, rotating; FIN and RST
                for (j, rst) in [(i % cs.len(), i % 2 == 0), ((i * 3 + 5) % cs.len(), i % 2 != 0)] {
                    let (p, e) = cs[j];
                    out.push(Scenario { prior: p, server: Server::CutAfter { body: b, k, rst }, entry: e, kill: Kill::None, tiny_timeout: false });
                }
            }
        }
        Tier::Thorough => {
            for (b, k) in thorough_cuts(ls, lp) {
                for (p, e) in &cs {
                    for rst in [false, true] {
                        out.push(Scenario { prior: *p, server: Server::CutAfter { body: b, k, rst }, entry: *e, kill: Kill::None, tiny_timeout: false });
                    }
                }
            }
            // every k of the small body, previous cache stale
            for k in 0..ls {
                let e = if k % 2 == 0 { Entry::Fetch } else { Entry::Expr };
                out.push(Scenario { prior: Prior::Stale, server: Server::CutAfter { body: Body::Small, k, rst: k % 4 >= 2 }, entry: e, kill: Kill::None, tiny_timeout: false });
            }
            for k in 0..170u64 {
                for (p, e) in &cs {
                    if *p == Prior::Stale || k % 8 == 1 {
                        out.push(Scenario { prior: *p, server: Server::HeaderCut { k, rst: k % 2 == 1 }, entry: *e, kill: Kill::None, tiny_timeout: false });
                    }
                }
            }
            let mut m = 4096u64;
            while m < lp {
                for k in [m - 1, m, m + 1] {
                    for (p, e) in &cs {
                        out.push(Scenario { prior: *p, server: Server::ChunkedCutAfter { body: Body::Padded, k }, entry: *e, kill: Kill::None, tiny_timeout: false });
                    }
                }
                m += 4096 * 4;
            }
            for i in 0..20u64 {
                for (p, e) in &cs {
                    out.push(Scenario { prior: *p, server: Server::StallMidBody { body: Body::Padded, k: i * lp / 20 }, entry: *e, kill: Kill::None, tiny_timeout: false });
                }
            }
        }
    }
    out
}

/// (prior, entry) combinations in which a refresh is attempted, i.e. can be interrupted
fn kill_combos() -> Vec<(Prior, Entry)> {
    vec![
        (Prior::Stale, Entry::Expr),
        (Prior::Stale, Entry::Fetch),
        (Prior::Absent, Entry::Expr),
        (Prior::Absent, Entry::Fetch),
        (Prior::Unreadable, Entry::Expr),
        (Prior::Unreadable, Entry::Fetch),
        (Prior::Fresh, Entry::Fetch),
    ]
}

pub type KillTable = BTreeMap<(Prior, Entry, Body), Vec<KillPoint>>;

/// run the scenario once under plain strace and list the syscalls that touch the cache directory
fn dry_run(env: &Env, prior: Prior, entry: Entry, body: Body) -> Result<Vec<KillPoint>, String> {
    if let Some(b) = &env.broken {
        return Err(b.clone());
    }
    let su = &env.setup;
    let set = su.strace.clone().ok_or("no strace")?;
    let dir = scratch("dry")?;
    let _g = DirGuard(dir.clone());
    let home = Home::new(&dir)?;
    if let Some(p) = su.data.prior_bytes(prior) {
        std::fs::create_dir_all(home.cache_dir()).map_err(|e| e.to_string())?;
        std::fs::write(home.cache_file(), p).map_err(|e| e.to_string())?;
        set_mtime_ago(&home.cache_file(), if prior == Prior::Fresh { 60 } else { 7200 })?;
    }
    let server = env.start_server(&Server::Complete { body }, &dir)?.ok_or("no server")?;
    home.write_config(server.port)?;
    let log = dir.join("dry.strace");
    let c = strace_command(&home, &su.rink, &set, &log, None, &rink_args(entry));
    let o = home.run(c, "dry")?;
    if o.code != Some(0) {
        return Err(format!("dry run ended with {}: {}", o.status(), tail(&o.all())));
    }
    let text = std::fs::read_to_string(&log).map_err(|e| e.to_string())?;
    Ok(kill_points(&text, &home.cache_dir().to_string_lossy()))
}

fn build_kill_table(cx: &Cx, setup: &Arc<Setup>) -> Result<KillTable, String> {
    let mut items = vec![];
    for (p, e) in kill_combos() {
        for b in [Body::Small, Body::Padded] {
            items.push((p, e, b));
        }
    }
    let items = Arc::new(items);
    let n = cx.threads.max(1).min(items.len());
    let su = setup.clone();
    let it = items.clone();
    let results = par_shards(n, move |i, n| {
        let env = mk_env(su.clone(), BTreeSet::new());
        let mut out = vec![];
        let mut idx = i;
        while idx < it.len() {
            let (p, e, b) = it[idx];
            out.push(((p, e, b), dry_run(&env, p, e, b)));
            idx += n;
        }
        out
    });
    let mut table = KillTable::new();
    for (k, r) in results.into_iter().flatten() {
        let pts = r.map_err(|e| format!("dry run {:?}: {}", k, e))?;
        if pts.is_empty() {
            return Err(format!("dry run {:?} saw no syscall touching the cache directory", k));
        }
        table.insert(k, pts);
    }
    Ok(table)
}

fn kill_scenarios(tier: Tier, table: &KillTable) -> Vec<Scenario> {
    let mut ess = vec![];
    let mut rest = vec![];
    for ((p, e, b), pts) in table {
        for kp in pts {
            let sc = Scenario {
                prior: *p,
                server: Server::Complete { body: *b },
                entry: *e,
                kill: Kill::Syscall { name: kp.name.clone(), when: kp.when },
            tiny_timeout: false,
        };
            if kp.essential && *p == Prior::Stale {
                ess.push(sc);
            } else {
                rest.push(sc);
            }
        }
    }
    if tier == Tier::Thorough {
        ess.extend(rest);
        return ess;
    }
    let budget = 56usize;
    ess.truncate(budget - 12);
    let want = budget - ess.len();
    let step = (rest.len() / want.max(1)).max(1);
    let picked: Vec<Scenario> = rest.into_iter().step_by(step).take(want).collect();
    ess.extend(picked);
    ess
}

fn paced_scenarios(tier: Tier, ls: u64, lp: u64, all_kills: bool) -> Vec<Scenario> {
    let n = if all_kills { tier.pick(48u64, 600) } else { tier.pick(8u64, 64) };
    let kc = kill_combos();
    let mut out = vec![];
    for i in 0..n {
        let (p, e) = kc[(i as usize) % kc.len()];
        let server = if i % 8 == 7 {
            Server::StallBeforeHeaders
        } else if i % 3 == 0 {
            Server::StallMidBody { body: Body::Small, k: (i * 977) % ls }
        } else {
            Server::StallMidBody { body: Body::Padded, k: (i * 40_009) % lp }
        };
        out.push(Scenario { prior: p, server, entry: e, kill: Kill::ServerPaced, tiny_timeout: false });
    }
    out
}

// ---------------------------------------------------------------------------
// random scenarios
// ---------------------------------------------------------------------------

fn server_strategy(ls: u64, lp: u64) -> BoxedStrategy<Server> {
    let body = prop_oneof![Just(Body::Small), Just(Body::Padded)].boxed();
    let body_k = prop_oneof![
        (0..ls).prop_map(|k| (Body::Small, k)),
        (0..lp).prop_map(|k| (Body::Padded, k))
    ]
    .boxed();
    let status = proptest::sample::select(vec![301u16, 302, 304, 400, 403, 404, 429, 500, 502, 503]);
    let eb = proptest::sample::select(vec![ErrBody::Empty, ErrBody::Text, ErrBody::NewSmall]);
    prop_oneof![
        2 => body.clone().prop_map(|b| Server::Complete { body: b }),
        1 => body.clone().prop_map(|b| Server::ChunkedComplete { body: b }),
        6 => (body_k.clone(), any::<bool>()).prop_map(|((b, k), rst)| Server::CutAfter { body: b, k, rst }),
        3 => body_k.clone().prop_map(|(b, k)| Server::ChunkedCutAfter { body: b, k }),
        1 => (0u64..200, any::<bool>()).prop_map(|(k, rst)| Server::HeaderCut { k, rst }),
        4 => (status, eb).prop_map(|(s, b)| Server::Status { status: s, body: b }),
        1 => Just(Server::StallBeforeHeaders),
        2 => body_k.clone().prop_map(|(b, k)| Server::StallMidBody { body: b, k }),
        1 => Just(Server::Refused),
        2 => body_k.clone().prop_map(|(b, k)| Server::CloseDelimitedCut { body: b, k }),
    ]
    .boxed()
}

fn scenario_strategy(ls: u64, lp: u64, table: Arc<KillTable>) -> BoxedStrategy<Scenario> {
    let prior = proptest::sample::select(PRIORS.to_vec());
    let entry = proptest::sample::select(vec![Entry::Expr, Entry::Fetch, Entry::Expr, Entry::Fetch, Entry::SandboxedRepl]);
    let plain = (prior, entry.clone(), server_strategy(ls, lp))
        .prop_map(|(p, e, s)| Scenario { prior: p, server: s, entry: e, kill: Kill::None, tiny_timeout: false });
    let kc = proptest::sample::select(kill_combos());
    let body = prop_oneof![Just(Body::Small), Just(Body::Padded)];
    let t2 = table.clone();
    let have_table = !table.is_empty();
    let strace_kill = (kc.clone(), body, any::<proptest::sample::Index>(), 0u64..lp).prop_map(move |((p, e), b, idx, k)| {
        match t2.get(&(p, e, b)) {
            Some(pts) if !pts.is_empty() => {
                let kp = &pts[idx.index(pts.len())];
                Scenario {
                    prior: p,
                    server: Server::Complete { body: b },
                    entry: e,
                    kill: Kill::Syscall { name: kp.name.clone(), when: kp.when },
            tiny_timeout: false,
        }
            }
            _ => Scenario {
                prior: p,
                server: Server::StallMidBody { body: Body::Padded, k },
                entry: e,
                kill: Kill::ServerPaced,
            tiny_timeout: false,
        },
        }
    });
    let paced = (kc, 0u64..lp).prop_map(|((p, e), k)| Scenario {
        prior: p,
        server: Server::StallMidBody { body: Body::Padded, k },
        entry: e,
        kill: Kill::ServerPaced,
            tiny_timeout: false,
        });
    let _ = have_table;
    prop_oneof![7 => plain, 2 => strace_kill, 1 => paced].boxed()
}

// ---------------------------------------------------------------------------
// entry points
// ---------------------------------------------------------------------------

fn to_json(sc: &Scenario) -> J {
    serde_json::to_value(sc).unwrap_or(J::Null)
}

pub fn run(cx: &Cx) -> Report {
    let mut rep = Report::new(RULE);
    rep.level = "fault_enumeration";
    rep.assumptions = vec![
        "rename(2) is atomic (POSIX); kill -9 semantics only: no power-loss simulation, so a missing fsync is not observable".into(),
        "SIGKILL is injected at the entry of a traced syscall of the client (the syscall is not executed); every boundary between two file-system syscalls that touch the cache directory is a kill point, the inside of a syscall is not".into(),
        "a 200 response with neither Content-Length nor chunked framing that closes early is indistinguishable from a complete one and is not generated".into(),
        "a refresh that fails leaves the cache as it was: for non-200 responses carrying the complete new JSON as body, the previous contents are the only accepted result".into(),
        "stalls last until the client gives up (server waits for the client's close, cap 15 s); no assertion depends on how fast anything runs; a client-side timeout against a healthy server is counted as noise, not judged".into(),
        "temporary files with other names left in the cache directory after a kill are logged, not violations (rink never reads them)".into(),
        "rink binary = dev-profile build of /repo's working tree in harness/target-rink (or RV_RINK_BIN)".into(),
    ];
    let su = match setup() {
        Ok(s) => Arc::new(s),
        Err(e) => {
            rep.inconclusive = Some(format!("infrastructure: {}", e));
            return rep;
        }
    };
    let ls = su.data.new_small.len() as u64;
    let lp = su.data.new_padded.len() as u64;
    rep.stats.note("rink_binary", json!(su.rink.to_string_lossy()));
    rep.stats.note("strace", json!(su.strace_note));
    rep.stats.note("body_bytes", json!({"old": su.data.old.len(), "new_small": ls, "new_padded": lp}));
    let known = cx.known.clone();

    crate::regress::run(cx, &mut rep, &replay);
    rep.mark(cx, "regress");

    // phase 1: the grid without kills
    let items = grid(cx.tier, ls, lp);
    rep.stats.note("scenarios_grid", json!(items.len()));
    let (s1, k1) = (su.clone(), known.clone());
    rep.absorb(par_sweep(cx, "grid", items, move || mk_env(s1.clone(), k1.clone()), execute, to_json));
    rep.mark(cx, "grid");

    // phase 1b: three corners outside the grid - a 200 whose body ends with the connection
    // (nothing on the wire says it is short), the interactive prompt with limits enabled (a second,
    // sandboxed process refreshes and loads the cache again), a configured timeout below one
    // millisecond against a server that never answers
    {
        let mut items: Vec<Scenario> = vec![];
        for (i, p) in PRIORS.iter().enumerate() {
            for e in [Entry::Expr, Entry::Fetch] {
                for (j, frac) in [0u64, 1, 37, 50, 99].iter().enumerate() {
                    let (body, len) = if (i + j) % 2 == 0 { (Body::Small, ls) } else { (Body::Padded, lp) };
                    let k = if *frac == 0 { 1 } else { (len * frac / 100).min(len - 1) };
                    items.push(Scenario { prior: *p, server: Server::CloseDelimitedCut { body, k }, entry: e, kill: Kill::None, tiny_timeout: false });
                }
                items.push(Scenario { prior: *p, server: Server::CloseDelimitedCut { body: Body::Small, k: ls - 1 }, entry: e, kill: Kill::None, tiny_timeout: false });
            }
            for sv in [
                Server::Complete { body: Body::Small },
                Server::Status { status: 500, body: ErrBody::Text },
                Server::Status { status: 404, body: ErrBody::NewSmall },
                Server::CutAfter { body: Body::Small, k: ls / 2, rst: false },
                Server::CloseDelimitedCut { body: Body::Small, k: ls / 2 },
                Server::StallBeforeHeaders,
                Server::Refused,
            ] {
                items.push(Scenario { prior: *p, server: sv, entry: Entry::SandboxedRepl, kill: Kill::None, tiny_timeout: false });
            }
            for e in [Entry::Expr, Entry::Fetch] {
                for sv in [Server::StallBeforeHeaders, Server::StallMidBody { body: Body::Small, k: ls / 3 }] {
                    items.push(Scenario { prior: *p, server: sv, entry: e, kill: Kill::None, tiny_timeout: true });
                }
            }
        }
        rep.stats.note("scenarios_corners", json!(items.len()));
        let (s1, k1) = (su.clone(), known.clone());
        rep.absorb(par_sweep(cx, "corners", items, move || mk_env(s1.clone(), k1.clone()), execute, to_json));
        rep.mark(cx, "corners");
    }

    // phase 2: kill points
    let mut table = KillTable::new();
    let mode;
    if su.strace.is_some() {
        match build_kill_table(cx, &su) {
            Ok(t) => table = t,
            Err(e) => {
                rep.inconclusive = Some(format!("infrastructure: {}", e));
                return rep;
            }
        }
        mode = "strace-inject (SIGKILL at syscall entry) + a few server-paced kills";
        let total: usize = table.values().map(|v| v.len()).sum();
        rep.stats.note("kill_points_observed", json!(total));
        let per: BTreeMap<String, usize> = table.iter().map(|(k, v)| (format!("{:?}", k), v.len())).collect();
        rep.stats.note("kill_points_per_dry_run", json!(per));
        let items = kill_scenarios(cx.tier, &table);
        rep.stats.note("scenarios_kill_strace", json!(items.len()));
        let (s2, k2) = (su.clone(), known.clone());
        rep.absorb(par_sweep(cx, "kill", items, move || mk_env(s2.clone(), k2.clone()), execute, to_json));
    } else {
        mode = "server-paced only (strace fault injection unavailable)";
    }
    rep.stats.note("kill_mode", json!(mode));
    let items = paced_scenarios(cx.tier, ls, lp, su.strace.is_none());
    rep.stats.note("scenarios_kill_server_paced", json!(items.len()));
    let (s3, k3) = (su.clone(), known.clone());
    rep.absorb(par_sweep(cx, "kill-paced", items, move || mk_env(s3.clone(), k3.clone()), execute, to_json));
    rep.mark(cx, "kill");

    // phase 3: random combinations
    let cases = cx.tier.pick(48u64, 3000);
    let table = Arc::new(table);
    let (s4, k4) = (su.clone(), known.clone());
    rep.absorb(par_proptest(
        cx,
        "random",
        cases,
        move || scenario_strategy(ls, lp, table.clone()),
        move || mk_env(s4.clone(), k4.clone()),
        execute,
        to_json,
    ));
    rep.mark(cx, "random");

    let infra: Vec<String> = rep
        .stats
        .classes
        .iter()
        .filter(|(k, _)| k.starts_with("infra:"))
        .map(|(k, v)| format!("{} x{}", k, v))
        .collect();
    if !infra.is_empty() {
        rep.inconclusive = Some(format!("infrastructure trouble in some scenarios: {}", infra.join(", ")));
    } else if rep.stats.evaluations == 0 || rep.stats.nontrivial.is_empty() {
        rep.inconclusive = Some("vacuous run: no non-trivial scenario was executed".into());
    }
    rep
}

pub fn replay(cx: &Cx, _phase: &str, case: &J, st: &mut Stats) -> CaseResult {
    let sc: Scenario = serde_json::from_value(case.clone()).map_err(|e| format!("bad case: {}", e))?;
    let su = Arc::new(setup().map_err(|e| format!("infrastructure: {}", e))?);
    let env = mk_env(su, cx.known.clone());
    let r = execute(&env, &sc, st);
    let infra: Vec<&String> = st.classes.keys().filter(|k| k.starts_with("infra:")).collect();
    if !infra.is_empty() {
        eprintln!("[C20] replay hit infrastructure trouble: {:?} {:?}", infra, st.notes);
    }
    r
}
