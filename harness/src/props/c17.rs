//! C17 — `units for` and `factorize` are dimensionally sound and complete.

use crate::engine::*;
use crate::gen::units::{dims_mul, dims_pow, dims_show, unusable, Dims};
use crate::rinkx::{self, Out};
use proptest::prelude::*;
use rink_core::ast::Expr;
use rink_core::output::QueryReply;
use rink_core::Context;
use serde_derive::{Deserialize, Serialize};
use serde_json::{json, Value as J};
use std::collections::{BTreeMap, BTreeSet};

pub const RULE: &str = "exhaustive: every named quantity and every dimensionality occurring among the stored units, each written \
as the quantity name (if any), as up to three units of that dimensionality and as the product of base-unit powers; plus random \
exponent vectors in -3..3 over up to four base units. `units for X` must list exactly the non-alias units of X's dimensionality \
(plus the base unit's long name when X is a base unit to the first power), each once, under its own category; every `factorize X` \
entry must multiply out to X's dimensionality with no duplicate entries (run only when the dimensionality's complexity score is \
<= 10: costlier searches are left to C04); all spellings of one dimensionality must give identical lists. Non-trivial = distinct \
dimensionality with >= 2 base units or an exponent of magnitude >= 2.";

#[derive(Clone, Debug, Serialize, Deserialize, PartialEq, Eq, Hash, PartialOrd, Ord)]
pub struct Case {
    pub dims: Vec<(String, i64)>,
}

pub struct Env {
    pub ctx: Context,
    pub known: BTreeSet<String>,
    pub quantity_dims: BTreeMap<String, Dims>,
    pub by_dims: BTreeMap<Dims, Vec<String>>,
    /// the display name of the category each name is defined in, read from the definitions file
    /// itself (a base unit's long name belongs where the base unit is defined)
    pub file_category: BTreeMap<String, BTreeSet<String>>,
    /// names the definitions file defines as nothing but another name (`deka- deca`, `metre meter`):
    /// read from the file, not from what the loader recorded about them
    pub file_alias: BTreeSet<String>,
    pub file_names: BTreeSet<String>,
}

pub fn mk_env(known: BTreeSet<String>) -> Env {
    let ctx = rinkx::new_ctx();
    let quantity_dims = ctx
        .registry
        .quantities
        .iter()
        .map(|(d, n)| (n.clone(), d.iter().map(|(k, v)| (k.to_string(), *v)).collect()))
        .collect();
    let mut by_dims: BTreeMap<Dims, Vec<String>> = BTreeMap::new();
    for (n, v) in &ctx.registry.units {
        by_dims.entry(rinkx::dims_of(v)).or_default().push(n.clone());
    }
    let mut file_category: BTreeMap<String, BTreeSet<String>> = BTreeMap::new();
    let mut declared: BTreeMap<String, String> = BTreeMap::new();
    let mut file_alias: BTreeSet<String> = BTreeSet::new();
    let mut file_names: BTreeSet<String> = BTreeSet::new();
    {
        let mut parsed = vec![];
        let _ = crate::props::c08::capture_stdout(|| parsed = rink_core::loader::gnu_units::parse_str(rink_core::DEFAULT_FILE.unwrap_or("")).defs);
        for e in &parsed {
            match &*e.def {
                rink_core::ast::Def::Unit { expr } | rink_core::ast::Def::Prefix { expr, is_long: true } => {
                    // a later definition of the same name replaces the earlier one
                    file_names.insert(e.name.clone());
                    if let Expr::Unit { .. } = expr.0 {
                        file_alias.insert(e.name.clone());
                    } else {
                        file_alias.remove(&e.name);
                    }
                }
                _ => {}
            }
            if let rink_core::ast::Def::Category { display_name } = &*e.def {
                declared.insert(e.name.clone(), display_name.clone());
            }
            // the category a definition is declared in is the one named by the `!category` line
            // in force where it stands, under the display name that line gives it
            let shown = e.category.as_ref().map(|c| declared.get(c).cloned().unwrap_or_else(|| c.clone()));
            if let Some(c) = &shown {
                match &*e.def {
                    rink_core::ast::Def::Unit { .. } | rink_core::ast::Def::Substance { .. } => {
                        file_category.entry(e.name.clone()).or_default().insert(c.clone());
                    }
                    rink_core::ast::Def::BaseUnit { long_name } => {
                        file_category.entry(e.name.clone()).or_default().insert(c.clone());
                        if let Some(l) = long_name {
                            file_category.entry(l.clone()).or_default().insert(c.clone());
                        }
                    }
                    rink_core::ast::Def::Prefix { is_long: true, .. } => {
                        // a long prefix is usable, and listed, as a unit: it belongs to the
                        // category it is defined in like any other
                        file_category.entry(e.name.clone()).or_default().insert(c.clone());
                    }
                    _ => {}
                }
            }
        }
    }
    Env {
        ctx,
        known,
        quantity_dims,
        by_dims,
        file_category,
        file_alias,
        file_names,
    }
}

fn fail(env: &Env, st: &mut Stats, sig: &str, text: &str, detail: String) -> CaseResult {
    if env.known.contains(sig) {
        st.known(sig, text);
        Ok(())
    } else {
        Err(format!("[{}] `{}`: {}", sig, text, detail))
    }
}

fn product_text(d: &Dims) -> String {
    if d.is_empty() {
        return "1".into();
    }
    d.iter().map(|(b, e)| if *e == 1 { b.clone() } else { format!("{}^{}", b, e) }).collect::<Vec<_>>().join(" ")
}

fn score(d: &Dims) -> i64 {
    d.values().map(|p| 1 + p.abs()).sum()
}

/// the set the statement describes, from the registry
fn expected_units(env: &Env, d: &Dims) -> BTreeSet<String> {
    let r = &env.ctx.registry;
    let mut set = BTreeSet::new();
    if let Some(names) = env.by_dims.get(d) {
        for n in names {
            let alias = if env.file_names.contains(n) { env.file_alias.contains(n) } else { matches!(r.definitions.get(n), Some(Expr::Unit { .. })) };
            if alias {
                continue; // a bare alias
            }
            set.insert(n.clone());
        }
    }
    if d.len() == 1 {
        let (b, p) = d.iter().next().unwrap();
        if *p == 1 {
            set.insert(env.ctx.canonicalize(b).unwrap_or_else(|| b.clone()));
        }
    }
    set
}

pub fn check(env: &Env, c: &Case, st: &mut Stats) -> CaseResult {
    let d: Dims = c.dims.iter().filter(|(_, e)| *e != 0).cloned().collect();
    let r = &env.ctx.registry;
    // spellings
    let mut spellings: Vec<(String, &'static str)> = vec![];
    if let Some((q, _)) = env.quantity_dims.iter().find(|(_, qd)| **qd == d) {
        spellings.push((q.clone(), "quantity_name"));
    }
    if let Some(names) = env.by_dims.get(&d) {
        for n in names.iter().filter(|n| unusable(n).is_none() && !env.quantity_dims.contains_key(*n)).take(3) {
            spellings.push((n.clone(), "unit"));
        }
    }
    spellings.push((product_text(&d), "base_product"));
    // "any expression of that dimensionality": the same product beside a foreign base unit to the power
    // zero, and times and divided by a foreign base unit (both contribute nothing to the dimensionality)
    if let Some(x) = ["kg", "s", "m", "A", "K", "mol", "cd", "bit"].iter().find(|x| !d.contains_key(**x) && r.base_units.contains(**x)) {
        spellings.push((format!("({}^0) {}", x, product_text(&d)), "zero_power_factor"));
        spellings.push((format!("({}) {} / {}", product_text(&d), x, x), "cancelled_factor"));
    }
    let want = expected_units(env, &d);
    let nontrivial = d.len() >= 2 || d.values().any(|e| e.abs() >= 2);
    let mut first_units: Option<(String, Vec<(Option<String>, Vec<String>)>)> = None;
    let mut first_fact: Option<(String, Vec<BTreeMap<String, usize>>)> = None;
    for (sp, kind) in &spellings {
        // ---- units for
        let q = format!("units for {}", sp);
        st.eval();
        st.class(&format!("units_for_{}", kind));
        match rinkx::eval_line(&env.ctx, &q) {
            Out::Panic(p) => return fail(env, st, &panic_signature(&p), &q, format!("panicked: {}", p)),
            Out::Reply(QueryReply::UnitsFor(u)) => {
                let rd: Option<Dims> = u.of.raw_dimensions.as_ref().map(|x| x.iter().map(|(k, v)| (k.to_string(), *v)).collect());
                if rd.as_ref() != Some(&d) {
                    return fail(env, st, "units-for-wrong-dimensionality", &q, format!("reply is about {:?}, asked about {}", rd, dims_show(&d)));
                }
                let mut flat: Vec<String> = vec![];
                let mut grouped = vec![];
                for g in &u.units {
                    for n in &g.units {
                        flat.push(n.clone());
                        // grouped under its own category
                        // a name defined twice (a long prefix and a unit, say) may be under either category
                        let expect_cats: Vec<Option<String>> = match env.file_category.get(n) {
                            Some(names) => names.iter().map(|n| Some(n.clone())).collect(),
                            None => vec![None],
                        };
                        let expect_cat = expect_cats.first().cloned().flatten();
                        if !expect_cats.contains(&g.category) {
                            return fail(
                                env,
                                st,
                                "unit-under-wrong-category",
                                &q,
                                format!("{} is listed under {:?} but belongs to {:?}", n, g.category, expect_cat),
                            );
                        }
                    }
                    grouped.push((g.category.clone(), g.units.clone()));
                }
                let got: BTreeSet<String> = flat.iter().cloned().collect();
                if got.len() != flat.len() {
                    return fail(env, st, "unit-listed-twice", &q, format!("{:?}", flat));
                }
                let extra: Vec<&String> = got.difference(&want).collect();
                let missing: Vec<&String> = want.difference(&got).collect();
                if !extra.is_empty() {
                    // which kind of extra?
                    let wrong_dim = extra.iter().any(|n| env.ctx.lookup(n).map(|v| rinkx::dims_of(&v) != d).unwrap_or(true));
                    let sig = if wrong_dim { "lists-unit-of-another-dimensionality" } else { "lists-alias" };
                    return fail(env, st, sig, &q, format!("lists {:?}, which the registry filter does not give for {}", extra, dims_show(&d)));
                }
                if !missing.is_empty() {
                    return fail(env, st, "unit-missing", &q, format!("does not list {:?} of {}", missing, dims_show(&d)));
                }
                match &first_units {
                    None => first_units = Some((q.clone(), grouped)),
                    Some((q0, g0)) => {
                        if *g0 != grouped {
                            return fail(env, st, "units-for-depends-on-spelling", &q, format!("differs from `{}`", q0));
                        }
                    }
                }
            }
            other => {
                if *kind == "base_product" && d.is_empty() {
                    continue;
                }
                return fail(env, st, "units-for-refused", &q, other.describe());
            }
        }
        // ---- factorize
        if score(&d) > crate::oracle::cost::MAX_FACTORIZE_SCORE {
            st.excluded("factorize: complexity score above 10 (each such search takes on the order of a second)");
            continue;
        }
        let q = format!("factorize {}", sp);
        st.eval();
        st.class(&format!("factorize_{}", kind));
        match rinkx::eval_line(&env.ctx, &q) {
            Out::Panic(p) => return fail(env, st, &panic_signature(&p), &q, format!("panicked: {}", p)),
            Out::Reply(QueryReply::Factorize(f)) => {
                let mut entries: Vec<BTreeMap<String, usize>> = vec![];
                for fz in &f.factorizations {
                    let mut prod = Dims::new();
                    let mut m = BTreeMap::new();
                    for (name, count) in &fz.units {
                        let qd = match env.quantity_dims.get(&**name) {
                            Some(qd) => qd,
                            None => return fail(env, st, "factor-not-a-quantity", &q, format!("{} is not a quantity", name)),
                        };
                        prod = dims_mul(&prod, &dims_pow(qd, *count as i64), 1);
                        m.insert((**name).clone(), *count);
                    }
                    if prod != d {
                        return fail(
                            env,
                            st,
                            "factorization-does-not-multiply-out",
                            &q,
                            format!("{:?} multiplies out to {}, not {}", m, dims_show(&prod), dims_show(&d)),
                        );
                    }
                    if entries.contains(&m) {
                        return fail(env, st, "duplicate-factorization", &q, format!("{:?} listed twice", m));
                    }
                    entries.push(m);
                }
                match &first_fact {
                    None => first_fact = Some((q.clone(), entries)),
                    Some((q0, e0)) => {
                        if *e0 != entries {
                            return fail(env, st, "factorize-depends-on-spelling", &q, format!("differs from `{}`: {:?} vs {:?}", q0, entries, e0));
                        }
                    }
                }
            }
            other => return fail(env, st, "factorize-refused", &q, other.describe()),
        }
    }
    if nontrivial {
        st.nontrivial(&c.dims);
        st.nt_sample(|| json!({"dims": dims_show(&d), "spellings": spellings.iter().map(|s| s.0.clone()).collect::<Vec<_>>(), "units": want.len()}));
    } else {
        st.sample(|| json!({"dims": dims_show(&d), "spellings": spellings.iter().map(|s| s.0.clone()).collect::<Vec<_>>(), "units": want.len()}));
    }
    Ok(())
}

pub fn run(cx: &Cx) -> Report {
    let mut rep = Report::new(RULE);
    rep.exhaustive = true;
    rep.assumptions = vec![
        "the expected list is a filter over the registry's public maps (units, definitions, categories, category_names)".into(),
        "the `of` part of a `units for` reply carries the operand's value and is not compared across spellings; the lists are".into(),
        "factorize is exercised only for dimensionalities of complexity score <= 10 (C04 runs the costlier ones)".into(),
    ];
    let known = cx.known.clone();
    crate::regress::run(cx, &mut rep, &replay);
    let env0 = mk_env(known.clone());
    let mut all: BTreeSet<Case> = BTreeSet::new();
    for d in env0.by_dims.keys() {
        all.insert(Case { dims: d.iter().map(|(k, v)| (k.clone(), *v)).collect() });
    }
    for d in env0.quantity_dims.values() {
        all.insert(Case { dims: d.iter().map(|(k, v)| (k.clone(), *v)).collect() });
    }
    let bases: Vec<String> = env0.ctx.registry.base_units.iter().map(|b| b.to_string()).filter(|b| unusable(b).is_none()).collect();
    // every base unit at powers 1..3 (the base-unit clause)
    for b in &bases {
        for p in [1i64, 2, 3, -1] {
            all.insert(Case { dims: vec![(b.clone(), p)] });
        }
    }
    drop(env0);
    let items: Vec<Case> = all.into_iter().collect();
    rep.stats.note("dimensionalities_enumerated", json!(items.len()));
    let k = known.clone();
    rep.absorb(par_sweep(
        cx,
        "exhaustive",
        items,
        move || mk_env(k.clone()),
        |env, c, st| check(env, c, st),
        |c| serde_json::to_value(c).unwrap(),
    ));
    rep.mark(cx, "exhaustive");
    let k = known.clone();
    let bases2 = bases.clone();
    rep.absorb(par_proptest(
        cx,
        "random-vectors",
        cx.tier.pick(12_000, 200_000),
        move || {
            let b = bases2.clone();
            proptest::collection::vec((proptest::sample::select(b), -3i64..=3), 1..=4).prop_map(|v| {
                let mut m: BTreeMap<String, i64> = BTreeMap::new();
                for (k, e) in v {
                    *m.entry(k).or_insert(0) += e;
                }
                Case { dims: m.into_iter().filter(|(_, e)| *e != 0).collect() }
            })
        },
        move || mk_env(k.clone()),
        |env, c, st| check(env, c, st),
        |c| serde_json::to_value(c).unwrap(),
    ));
    rep.mark(cx, "random");
    rep
}

pub fn replay(cx: &Cx, _phase: &str, case: &J, st: &mut Stats) -> CaseResult {
    let env = mk_env(cx.known.clone());
    let c: Case = serde_json::from_value(case.clone()).map_err(|e| format!("bad case: {}", e))?;
    check(&env, &c, st)
}
