pub mod c01;
pub mod c18;
pub mod c19;
pub mod c20;
