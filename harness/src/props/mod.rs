pub mod c01;
