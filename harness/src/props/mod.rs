pub mod c01;
pub mod c02;
pub mod c05;
pub mod c07;
pub mod c11;
pub mod c18;
pub mod c19;
pub mod c20;
