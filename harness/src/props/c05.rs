//! C05 — printed numerals denote the computed value.

use crate::engine::*;
use crate::oracle::numeral::{self, Reading};
use crate::oracle::refarith::*;
use crate::rinkx::{self, Out};
use num_bigint::BigInt;
use num_traits::{One, Signed, Zero};
use proptest::prelude::*;
use rink_core::output::{Digits, QueryReply};
use rink_core::types::{BigInt as RBigInt, BigRat, Numeric};
use rink_core::Context;
use serde_derive::{Deserialize, Serialize};
use serde_json::{json, Value as J};
use std::collections::BTreeSet;

pub const RULE: &str = "case = (p, q, base 2..36, digits mode) fed to Numeric::to_string directly, and (p|q -> [mode] [base B]) \
through the query route; families: (b^k±1)/(b^j±1), denominators with period 1..17 and long periods (3937, 7919, 65537...), \
b^k·r mixed, magnitudes within a few ulp of 1e±9 / b^k / 1, random to ~3000 bits, both signs; modes Default, FullInt, \
Digits(0..60 and sparse to 2000), Scientific, Engineering, Fraction. Non-trivial = distinct (p,q,base,mode) whose printed text \
contains a recurring bracket, an exponent, or is marked approximate.";

#[derive(Clone, Copy, Debug, PartialEq, Eq, Serialize, Deserialize, Hash)]
pub enum Mode {
    Default,
    FullInt,
    Digits(u64),
    Fraction,
    Scientific,
    Engineering,
}

impl Mode {
    fn to_rink(self) -> Digits {
        match self {
            Mode::Default => Digits::Default,
            Mode::FullInt => Digits::FullInt,
            Mode::Digits(n) => Digits::Digits(n),
            Mode::Fraction => Digits::Fraction,
            Mode::Scientific => Digits::Scientific,
            Mode::Engineering => Digits::Engineering,
        }
    }
    fn query_words(self) -> String {
        match self {
            Mode::Default => "".into(),
            Mode::FullInt => "digits".into(),
            Mode::Digits(n) => format!("digits {}", n),
            Mode::Fraction => "frac".into(),
            Mode::Scientific => "sci".into(),
            Mode::Engineering => "eng".into(),
        }
    }
}

#[derive(Clone, Debug, Serialize, Deserialize)]
pub struct Case {
    pub p: String,
    pub q: String,
    pub base: u8,
    pub mode: Mode,
    pub via_query: bool,
}

pub struct Env {
    pub ctx: Context,
    pub known: BTreeSet<String>,
}

fn mk_env(known: BTreeSet<String>) -> Env {
    Env {
        ctx: rinkx::new_ctx(),
        known,
    }
}

fn fail(env: &Env, st: &mut Stats, sig: &str, case: &Case, detail: String) -> CaseResult {
    if env.known.contains(sig) {
        st.known(sig, &format!("{}/{} base {} {:?}", case.p, case.q, case.base, case.mode));
        Ok(())
    } else {
        Err(format!(
            "[{}] {}/{} base {} {:?} via_query={}: {}",
            sig, case.p, case.q, case.base, case.mode, case.via_query, detail
        ))
    }
}

fn to_numeric(p: &BigInt, q: &BigInt) -> Numeric {
    Numeric::Rational(BigRat::ratio(&RBigInt::from(p.clone()), &RBigInt::from(q.clone())))
}

/// check one printed numeral against the value; `exact` is rink's claim
fn check_numeral(text: &str, base: u32, exact: bool, v: &Q) -> Result<Vec<Reading>, (String, String)> {
    let readings = numeral::read(text, base);
    if readings.is_empty() {
        return Err(("unreadable-numeral".into(), format!("cannot read `{}` in base {}", text, base)));
    }
    for r in &readings {
        if let (Some(n), Some(b)) = (r.stated_period, r.block_len) {
            if n != b {
                return Err((
                    "period-mismatch".into(),
                    format!("`{}` states period {} but the bracket holds {} digits", text, n, b),
                ));
            }
        }
    }
    if exact {
        if readings.iter().any(|r| r.value.eq_val(v)) {
            Ok(readings)
        } else {
            let (n, d) = readings[0].value.reduced();
            Err((
                "exact-numeral-wrong".into(),
                format!("`{}` is marked exact but denotes {}/{}", text, n, d),
            ))
        }
    } else {
        let good: Vec<&Reading> = readings.iter().filter(|r| numeral::is_truncation_of(r, v)).collect();
        if good.is_empty() {
            let (n, d) = readings[0].value.reduced();
            return Err((
                "approx-not-truncation".into(),
                format!(
                    "`{}` is marked approximate but is not the value truncated toward zero within one last-digit unit (it denotes {}/{})",
                    text, n, d
                ),
            ));
        }
        if good.iter().all(|r| r.value.eq_val(v)) {
            return Err((
                "marked-approx-but-exact".into(),
                format!("`{}` denotes the value exactly yet is marked approximate", text),
            ));
        }
        Ok(readings)
    }
}

pub fn check(env: &Env, case: &Case, st: &mut Stats) -> CaseResult {
    if std::env::var("VERIF_PROFILE").is_err() {
        return check_inner(env, case, st);
    }
    let t = std::time::Instant::now();
    let r = check_inner(env, case, st);
    let us = t.elapsed().as_micros() as u64;
    let m = match case.mode {
        Mode::Digits(n) if n > 60 => "DigitsBig".to_string(),
        Mode::Digits(_) => "Digits".to_string(),
        m => format!("{:?}", m),
    };
    let size = if case.p.len() + case.q.len() > 200 { "big" } else { "small" };
    st.class_n(&format!("us_{}_{}_{}", m, size, if case.via_query { "q" } else { "d" }), us);
    st.class(&format!("n_{}_{}_{}", m, size, if case.via_query { "q" } else { "d" }));
    r
}

fn check_inner(env: &Env, case: &Case, st: &mut Stats) -> CaseResult {
    let p = parse_dec(&case.p).ok_or("bad p")?;
    let q = parse_dec(&case.q).ok_or("bad q")?;
    if q.is_zero() {
        return Ok(());
    }
    let v = Q::new(p.clone(), q.clone());
    let (rp, rq) = v.reduced();
    let base = case.base as u32;
    st.eval();
    let key = (&case.p, &case.q, case.base, case.mode, case.via_query);
    if !case.via_query {
        st.class("direct");
        let num = to_numeric(&rp, &rq);
        let mode = case.mode.to_rink();
        let (exact, text) = match catch(|| num.to_string(case.base, mode)) {
            Ok(x) => x,
            Err(pn) => return fail(env, st, &panic_signature(&pn), case, format!("to_string panicked: {}", pn)),
        };
        let nt = text.contains('[') || !exact || (case.mode != Mode::Fraction && text.contains('e') && base < 15);
        if nt {
            st.nontrivial(&key);
            st.nt_sample(|| json!({"p": case.p, "q": case.q, "base": case.base, "mode": format!("{:?}", case.mode), "text": text, "exact": exact}));
        } else {
            st.sample(|| json!({"p": case.p, "q": case.q, "base": case.base, "mode": format!("{:?}", case.mode), "text": text, "exact": exact}));
        }
        if text.contains('[') {
            st.class("recurring_block");
        }
        if text.contains(", period ") {
            st.class("stated_period");
        }
        if !exact {
            st.class("marked_approx");
        }
        if case.mode == Mode::Fraction {
            // a fraction is a numeral in the requested base like any other: numerator and
            // denominator are written with that base's digits
            return match check_numeral(&text, base, exact, &v) {
                Ok(_) => Ok(()),
                Err((sig, d)) => fail(env, st, &format!("fraction-{}", sig), case, d),
            };
        }
        match check_numeral(&text, base, exact, &v) {
            Ok(rs) => {
                if rs.len() > 1 {
                    st.class("ambiguous_e_digit_readings");
                }
                if rs.iter().any(|r| r.exponent.is_some()) && base < 15 {
                    st.class("exponent_form");
                }
                Ok(())
            }
            Err((sig, d)) => fail(env, st, &sig, case, d),
        }
    } else {
        st.class("via_query");
        // p|q with the sign in front; conversion words
        let mut text = if rq.is_one() {
            format!("{}", rp)
        } else {
            format!("{}|{}", rp, rq)
        };
        let words = case.mode.query_words();
        let has_conv = !words.is_empty() || case.base != 10;
        if has_conv {
            text.push_str(" ->");
            if !words.is_empty() {
                text.push(' ');
                text.push_str(&words);
            }
            if case.base != 10 {
                text.push_str(&format!(" base {}", case.base));
            }
        }
        let out = rinkx::eval_line(&env.ctx, &text);
        let parts = match out {
            Out::Panic(pn) => {
                return fail(env, st, &panic_signature(&pn), case, format!("`{}` panicked: {}", text, pn))
            }
            Out::Error(e) => {
                return fail(env, st, "query-refused", case, format!("`{}` refused: {}", text, e));
            }
            Out::Reply(QueryReply::Number(p)) => (p.clone(), QueryReply::Number(p).to_string()),
            Out::Reply(QueryReply::Conversion(c)) => (c.value.clone(), QueryReply::Conversion(c).to_string()),
            Out::Reply(other) => {
                return fail(env, st, "unexpected-reply", case, format!("`{}` gave {}", text, other));
            }
        };
        let (parts, shown) = parts;
        let nbase = base;
        let mut nontrivial = false;
        if let Some(ex) = &parts.exact_value {
            // "n/d" fractions are numerals in the requested base too
            let b = nbase;
            if ex.contains('[') || (ex.contains('e') && b < 15) {
                nontrivial = true;
            }
            if let Err((sig, d)) = check_numeral(ex, b, true, &v) {
                return fail(env, st, &format!("reply-{}", sig), case, format!("`{}`: exact_value {}", text, d));
            }
        }
        if let Some(ap) = &parts.approx_value {
            nontrivial = true;
            st.class("reply_approx");
            if let Err((sig, d)) = check_numeral(ap, nbase, false, &v) {
                return fail(env, st, &format!("reply-{}", sig), case, format!("`{}`: approx_value {}", text, d));
            }
        }
        if parts.exact_value.is_none() && parts.approx_value.is_none() {
            return fail(env, st, "reply-no-numeral", case, format!("`{}`: neither exact nor approx value", text));
        }
        let marker = shown.contains("approx.");
        if marker != parts.approx_value.is_some() {
            return fail(
                env,
                st,
                "approx-marker-mismatch",
                case,
                format!("`{}` rendered as `{}` but approx_value = {:?}", text, shown, parts.approx_value),
            );
        }
        if nontrivial {
            st.nontrivial(&key);
            st.nt_sample(|| json!({"query": text, "shown": shown}));
        }
        Ok(())
    }
}

// ---------------------------------------------------------------------------
// generators
// ---------------------------------------------------------------------------

fn big_random(max_limbs: usize) -> impl Strategy<Value = BigInt> {
    prop_oneof![
        60 => (1u64..2000).prop_map(BigInt::from),
        40 => any::<u64>().prop_map(|x| BigInt::from(x | 1)),
        40 => proptest::collection::vec(any::<u32>(), 1..=max_limbs.min(6))
            .prop_map(|l| BigInt::from(num_bigint::BigUint::new(l)) + BigInt::one()),
        3 => proptest::collection::vec(any::<u32>(), 1..=max_limbs.min(24))
            .prop_map(|l| BigInt::from(num_bigint::BigUint::new(l)) + BigInt::one()),
        1 => proptest::collection::vec(any::<u32>(), 1..=max_limbs)
            .prop_map(|l| BigInt::from(num_bigint::BigUint::new(l)) + BigInt::one()),
    ]
}

fn mode_strategy() -> impl Strategy<Value = Mode> {
    prop_oneof![
        40 => Just(Mode::Default),
        2 => Just(Mode::FullInt),
        30 => (0u64..=60).prop_map(Mode::Digits),
        2 => prop_oneof![Just(61u64), Just(100), Just(255), Just(999), Just(1000), Just(1001), Just(2000)].prop_map(Mode::Digits),
        20 => Just(Mode::Scientific),
        20 => Just(Mode::Engineering),
        10 => Just(Mode::Fraction),
    ]
}

const PERIOD_DENOMS: [u64; 18] = [
    3, 7, 9, 11, 13, 17, 27, 37, 41, 101, 239, 271, 3937, 7919, 65537, 999983, 4649, 21649,
];

/// (p, q) for a given base
fn pq_strategy(base: u8) -> BoxedStrategy<(BigInt, BigInt)> {
    let b = BigInt::from(base);
    let b1 = b.clone();
    let b2 = b.clone();
    let b3 = b.clone();
    let b4 = b.clone();
    let fam_pm = (0u32..=40, 0u32..=40, -1i32..=1, -1i32..=1).prop_map(move |(k, j, s, t)| {
        let n = pow_big(&b1, k as u64) + BigInt::from(s);
        let mut d = pow_big(&b1, j as u64) + BigInt::from(t);
        if d.is_zero() {
            d = BigInt::one();
        }
        (n, d)
    });
    let fam_period = (
        big_random(4),
        proptest::sample::select(PERIOD_DENOMS.to_vec()),
        0u32..=12,
        proptest::sample::select(vec![1u64, 2, 5, 10, 16, 36, 1000]),
    )
        .prop_map(move |(n, d, k, r)| (n, BigInt::from(d) * pow_big(&b2, k as u64) * BigInt::from(r)));
    // within a few "ulps" of the 1e9 / 1e-9 notation switches and of b^k
    let fam_switch = (
        proptest::sample::select(vec![9i32, -9, 0, 6, -6, 10, -10, 3]),
        -3i64..=3,
        proptest::sample::select(vec![1u64, 10, 1000, 1_000_000, 1_000_000_007]),
    )
        .prop_map(|(e, delta, fine)| {
            // value = 10^e + delta/(fine * 10^|e|)... keep it simple: (10^e*F + delta)/F
            let f = BigInt::from(fine) * pow_big(&BigInt::from(10), 12);
            let ten = pow_big(&BigInt::from(10), e.unsigned_abs() as u64);
            if e >= 0 {
                (&ten * &f + BigInt::from(delta), f)
            } else {
                (&f + BigInt::from(delta), &ten * &f)
            }
        });
    let fam_bk = (0u32..=60, -2i64..=2, 1u64..=3, any::<bool>()).prop_map(move |(k, delta, fine, inv)| {
        let bk = pow_big(&b3, k as u64);
        let f = BigInt::from(fine) * pow_big(&b3, 8);
        let (n, d) = (&bk * &f + BigInt::from(delta), f);
        if inv && !n.is_zero() {
            (d, n)
        } else {
            (n, d)
        }
    });
    let fam_random = (big_random(96), big_random(96));
    let fam_terminating = (big_random(8), 0u32..=80).prop_map(move |(n, k)| (n, pow_big(&b4, k as u64)));
    let fam_int = big_random(96).prop_map(|n| (n, BigInt::one()));
    prop_oneof![
        3 => fam_pm,
        3 => fam_period,
        2 => fam_switch,
        2 => fam_bk,
        2 => fam_random,
        2 => fam_terminating,
        1 => fam_int,
        1 => Just((BigInt::zero(), BigInt::one())),
    ]
    .boxed()
}

fn base_strategy() -> impl Strategy<Value = u8> {
    prop_oneof![4 => Just(10u8), 2 => proptest::sample::select(vec![2u8, 8, 16, 32, 36, 3, 7, 12, 14, 15]), 3 => 2u8..=36]
}

pub fn case_strategy(via_query: bool) -> impl Strategy<Value = Case> {
    base_strategy().prop_flat_map(move |base| {
        (pq_strategy(base), any::<bool>(), mode_strategy()).prop_map(move |((p, q), neg, mode)| Case {
            p: if neg { (-p).to_string() } else { p.to_string() },
            q: q.to_string(),
            base,
            mode,
            via_query,
        })
    })
}

fn boundary_cases() -> Vec<Case> {
    // deterministic sweep: (b^k ± 1)/(b^j ± 1) for small k, j in every base and every cheap mode
    let mut v = vec![];
    let modes = [
        Mode::Default,
        Mode::Digits(0),
        Mode::Digits(1),
        Mode::Digits(6),
        Mode::Digits(12),
        Mode::Scientific,
        Mode::Engineering,
        Mode::Fraction,
        Mode::FullInt,
    ];
    for base in 2u8..=36 {
        let b = BigInt::from(base);
        for k in [0u64, 1, 2, 5, 9, 10] {
            for j in [0u64, 1, 3, 9] {
                for (s, t) in [(0, 0), (1, -1), (-1, 1), (0, 1), (1, 0)] {
                    let n = pow_big(&b, k) + BigInt::from(s);
                    let d = pow_big(&b, j) + BigInt::from(t);
                    if d.is_zero() || d.is_negative() {
                        continue;
                    }
                    for (mi, m) in modes.iter().enumerate() {
                        // thin the product a little: every mode for a third of the pairs
                        if (k + j + mi as u64 + base as u64) % 3 != 0 {
                            continue;
                        }
                        v.push(Case {
                            p: n.to_string(),
                            q: d.to_string(),
                            base,
                            mode: *m,
                            via_query: false,
                        });
                        v.push(Case {
                            p: (-&n).to_string(),
                            q: d.to_string(),
                            base,
                            mode: *m,
                            via_query: false,
                        });
                    }
                }
            }
        }
    }
    v
}

pub fn run(cx: &Cx) -> Report {
    let mut rep = Report::new(RULE);
    rep.assumptions = vec![
        "in bases >= 15 the letter e is both a digit and the exponent marker: every grammatical reading is tried and one must satisfy the law".into(),
        "Digits(n) is generated up to 2000 (larger counts are a resource question, see C04)".into(),
        "float-valued numbers are outside this property (always marked approximate)".into(),
    ];
    let known = cx.known.clone();
    crate::regress::run(cx, &mut rep, &replay);
    rep.mark(cx, "regress");

    let k = known.clone();
    let items = boundary_cases();
    rep.stats.note("boundary_sweep_cases", json!(items.len()));
    rep.absorb(par_sweep(
        cx,
        "boundary-sweep",
        items,
        move || mk_env(k.clone()),
        |env, c, st| check(env, c, st),
        |c| serde_json::to_value(c).unwrap(),
    ));
    rep.mark(cx, "boundary");

    let k = known.clone();
    rep.absorb(par_proptest(
        cx,
        "direct",
        cx.tier.pick(200_000, 8_000_000),
        || case_strategy(false),
        move || mk_env(k.clone()),
        |env, c, st| check(env, c, st),
        |c| serde_json::to_value(c).unwrap(),
    ));
    rep.mark(cx, "direct");

    let k = known.clone();
    rep.absorb(par_proptest(
        cx,
        "query",
        cx.tier.pick(20_000, 800_000),
        || case_strategy(true),
        move || mk_env(k.clone()),
        |env, c, st| check(env, c, st),
        |c| serde_json::to_value(c).unwrap(),
    ));
    rep.mark(cx, "query");
    rep
}

pub fn replay(cx: &Cx, _phase: &str, case: &J, st: &mut Stats) -> CaseResult {
    let env = mk_env(cx.known.clone());
    let c: Case = serde_json::from_value(case.clone()).map_err(|e| format!("bad case: {}", e))?;
    check(&env, &c, st)
}
