//! C01 — exact arithmetic.

use crate::engine::*;
use crate::gen::arith::*;
use crate::oracle::refarith::*;
use crate::rinkx::{self, Out};
use num_bigint::BigInt;
use num_traits::{One, Signed};
use proptest::prelude::*;
use rink_core::output::QueryReply;
use rink_core::Context;
use serde_json::{json, Value as J};
use std::collections::BTreeSet;

pub const RULE: &str = "cases = (expression tree over literals in every notation, rendering style); \
exhaustive phase enumerates all trees with <=2 binary operators over a boundary literal alphabet in both \
association shapes with minimal parentheses; random phase draws trees of up to ~28 nodes with operands up to \
thousands of bits. Non-trivial = distinct rendered string whose tree has >=2 operators of different precedence \
classes with at least one such boundary left unparenthesised, or an operand >= 2^64, or a literal that is not a \
plain decimal integer.";

pub struct Env {
    pub ctx: Context,
    pub known: BTreeSet<String>,
    pub primes: [u64; 3],
}

pub fn mk_env(known: BTreeSet<String>) -> Env {
    Env {
        ctx: rinkx::new_ctx(),
        known,
        primes: primes(),
    }
}

fn fail(env: &Env, st: &mut Stats, sig: String, text: &str, detail: String) -> CaseResult {
    if env.known.contains(&sig) {
        st.known(&sig, text);
        Ok(())
    } else {
        Err(format!("[{}] `{}`: {}", sig, text, detail))
    }
}

fn check_value(env: &Env, tree: &Ar, text: &str, want: &Q, reply: &QueryReply) -> Result<(), (String, String)> {
    let parts = match reply {
        QueryReply::Number(p) => p,
        other => {
            return Err((
                "not-a-number-reply".into(),
                format!("expected a Number reply, got {}", other),
            ))
        }
    };
    let raw = parts
        .raw_value
        .as_ref()
        .ok_or(("no-raw-value".to_string(), "Number reply without raw_value".to_string()))?;
    if !raw.unit.is_dimensionless() {
        return Err(("dimension".into(), format!("result carries a dimension: {:?}", raw.unit)));
    }
    let (n, d) = match rinkx::rational_of(&raw.value) {
        Some(x) => x,
        None => {
            return Err((
                "float-fallback".into(),
                format!("result is a float ({}), expected {}", raw.value.to_f64(), want.to_string()),
            ))
        }
    };
    if !(&n * &want.d == &want.n * &d) {
        let (wn, wd) = want.reduced();
        return Err((
            "wrong-value".into(),
            format!("rink = {}/{}, exact = {}/{}", short(&n), short(&d), short(&wn), short(&wd)),
        ));
    }
    if !d.is_positive() || gcd(&n, &d) != BigInt::one() {
        return Err((
            "not-lowest-terms".into(),
            format!("{}/{} is not in lowest terms with positive denominator", short(&n), short(&d)),
        ));
    }
    for p in env.primes {
        if let Some(r) = tree.residue(p) {
            let lhs = big_mod(&n, p);
            let rhs = mulmod(r, big_mod(&d, p), p);
            if lhs != rhs {
                return Err((
                    "fingerprint".into(),
                    format!("mod {}: n = {}, expected*d = {} for `{}`", p, lhs, rhs, text),
                ));
            }
        }
    }
    Ok(())
}

fn short(b: &BigInt) -> String {
    let s = b.to_string();
    if s.len() > 60 {
        format!("{}…{} ({} digits)", &s[..25], &s[s.len() - 25..], s.len())
    } else {
        s
    }
}

pub fn check_tree(env: &Env, tree: &Ar, style: &Style, st: &mut Stats) -> CaseResult {
    let r = tree.render(style);
    check_text(env, tree, &r.text, Some(&r), st)
}

pub fn check_text(env: &Env, tree: &Ar, text: &str, r: Option<&Rendered>, st: &mut Stats) -> CaseResult {
    let want = tree.eval();
    if let Err(Undef::TooBig) = want {
        st.excluded("result or intermediate beyond 2^16 bits (not run)");
        return Ok(());
    }
    if let Err(Undef::Unspecified("non-integer exponent")) = want {
        st.excluded("non-integer exponent (roots are outside C01; C04 covers totality)");
        return Ok(());
    }
    st.eval();
    let big = tree.any_lit(&|l| l.value().bits() > 64);
    let fancy = tree.any_lit(&|l| !l.is_plain_decimal());
    let mixed = r.map(|r| r.ops >= 2 && r.open_mixed >= 1).unwrap_or(false);
    if mixed {
        st.class("mixed_precedence_unparenthesised");
    }
    if big {
        st.class("operand_ge_2^64");
    }
    if fancy {
        st.class("non_plain_decimal_literal");
    }
    if mixed || big || fancy {
        st.nontrivial(text);
        st.nt_sample(|| json!(text));
    } else {
        st.sample(|| json!(text));
    }
    crate::engine::trace(text);
    let out = rinkx::eval_line(&env.ctx, text);
    if let Out::Panic(p) = &out {
        st.class("outcome_panic");
        return fail(env, st, panic_signature(p), text, format!("panicked: {}", p));
    }
    match want {
        Ok(q) => {
            st.class("ref_value");
            match out {
                Out::Reply(rep) => match check_value(env, tree, text, &q, &rep) {
                    Ok(()) => Ok(()),
                    Err((sig, d)) => fail(env, st, sig, text, d),
                },
                Out::Error(e) => fail(
                    env,
                    st,
                    "error-for-defined".into(),
                    text,
                    format!("exact value is {} but rink refused: {}", q.to_string(), e),
                ),
                Out::Panic(_) => unreachable!(),
            }
        }
        Err(Undef::Undefined(why)) => {
            st.class("ref_undefined");
            match out {
                Out::Error(_) => Ok(()),
                Out::Reply(rep) => fail(
                    env,
                    st,
                    "number-for-undefined".into(),
                    text,
                    format!("undefined ({}) but rink answered: {}", why, rep),
                ),
                Out::Panic(_) => unreachable!(),
            }
        }
        Err(Undef::Unspecified(why)) => {
            st.class("ref_unspecified");
            match out {
                Out::Error(_) => Ok(()),
                Out::Reply(rep) => {
                    if why == "non-integer exponent" {
                        return Ok(()); // outside the property (roots are floats)
                    }
                    match tree.eval_lenient() {
                        Ok(q) => match check_value(env, tree, text, &q, &rep) {
                            Ok(()) => Ok(()),
                            Err((sig, d)) => fail(env, st, format!("{}-unspecified", sig), text, d),
                        },
                        Err(Undef::Undefined(w)) => fail(
                            env,
                            st,
                            "number-for-undefined".into(),
                            text,
                            format!("undefined ({}) but rink answered: {}", w, rep),
                        ),
                        Err(_) => Ok(()),
                    }
                }
                Out::Panic(_) => unreachable!(),
            }
        }
        Err(Undef::TooBig) => unreachable!(),
    }
}

// ---------------------------------------------------------------------------

fn alphabet(tier: Tier) -> Vec<Ar> {
    let neg = |a: Ar| Ar::Neg(Box::new(a));
    let frac = |i: &str, f: &str| {
        Ar::Lit(Lit {
            frac_digits: Some(f.to_string()),
            ..Lit::dec(i)
        })
    };
    let mut v = vec![
        Ar::lit("0"),
        Ar::lit("1"),
        Ar::lit("3"),
        neg(Ar::lit("7")),
        frac("0", "5"),
        Ar::lit("18446744073709551617"),
    ];
    if tier == Tier::Thorough {
        v.extend(vec![
            Ar::lit("2"),
            Ar::lit("10"),
            Ar::Lit(Lit {
                exp: Some(3),
                ..Lit::dec("1")
            }),
            Ar::Lit(Lit {
                radix: 16,
                ..Lit::dec("ff")
            }),
            Ar::lit("4294967295"),
            neg(frac("2", "25")),
        ]);
    }
    v
}

fn exp_alphabet(tier: Tier) -> Vec<Ar> {
    let neg = |a: Ar| Ar::Neg(Box::new(a));
    let mut v = vec![Ar::lit("0"), Ar::lit("2"), neg(Ar::lit("1")), Ar::lit("3")];
    if tier == Tier::Thorough {
        v.extend(vec![neg(Ar::lit("2")), Ar::lit("1"), Ar::lit("10")]);
    }
    v
}

fn shift_alphabet(tier: Tier, allow_neg: bool) -> Vec<Ar> {
    let mut v = vec![Ar::lit("0"), Ar::lit("1"), Ar::lit("3"), Ar::lit("64")];
    if tier == Tier::Thorough {
        v.extend(vec![Ar::lit("65"), Ar::lit("1000")]);
    }
    if allow_neg {
        v.push(Ar::Neg(Box::new(Ar::lit("1"))));
    }
    v
}

fn right_alphabet(op: Op, tier: Tier, base: &[Ar], allow_neg: bool) -> Vec<Ar> {
    match op {
        Op::Pow => exp_alphabet(tier),
        Op::Shl | Op::Shr => shift_alphabet(tier, allow_neg),
        _ => base.to_vec(),
    }
}

pub fn enumerate(tier: Tier, allow_neg_shift: bool) -> Vec<Ar> {
    let base = alphabet(tier);
    let mut out = vec![];
    // one operator
    for op in ALL_OPS {
        for a in &base {
            for b in right_alphabet(op, tier, &base, allow_neg_shift) {
                out.push(Ar::bin(op, a.clone(), b));
            }
        }
    }
    // two operators, both shapes
    for op1 in ALL_OPS {
        for op2 in ALL_OPS {
            for a in &base {
                for b in right_alphabet(op1, tier, &base, allow_neg_shift) {
                    // (a op1 b) op2 c
                    for c in right_alphabet(op2, tier, &base, allow_neg_shift) {
                        out.push(Ar::bin(op2, Ar::bin(op1, a.clone(), b.clone()), c));
                    }
                }
                // a op1 (b op2 c)
                for b in &base {
                    for c in right_alphabet(op2, tier, &base, allow_neg_shift) {
                        out.push(Ar::bin(op1, a.clone(), Ar::bin(op2, b.clone(), c)));
                    }
                }
            }
        }
    }
    out
}

pub fn run(cx: &Cx) -> Report {
    let mut rep = Report::new(RULE);
    rep.assumptions = vec![
        "mod is the truncated remainder (sign of the dividend), as in Rust/num-rational and C09's wording".into(),
        "bit operators on negative integers use two's complement".into(),
        "0^0 and negative shift counts are unspecified by the manual: {error, the natural value} both accepted".into(),
        "a unary sign directly under ^ is always written with explicit parentheses (the manual is silent and rink reads -2^2 as 4); chained ^ is taken to be right-associative (a^b^c = a^(b^c)), the universal convention".into(),
        "num-bigint integer multiplication/division trusted for the reference; the modular fingerprints are independent of it".into(),
    ];
    let allow_neg = !cx.is_known("hang:negative-shift-count");
    let known = cx.known.clone();

    // regress witnesses first
    crate::regress::run(cx, &mut rep, &replay);
    rep.mark(cx, "regress");

    // phase 1: bounded-exhaustive
    let items = enumerate(cx.tier, allow_neg);
    let k1 = known.clone();
    let n_items = items.len();
    let (s, v) = par_sweep(
        cx,
        "exhaustive",
        items,
        move || mk_env(k1.clone()),
        |env, tree, st| check_tree(env, tree, &Style::default(), st),
        |tree| json!({"tree": tree, "style": Style::default()}),
    );
    rep.absorb((s, v));
    rep.mark(cx, "exhaustive");
    rep.stats.note("exhaustive_trees", json!(n_items));
    if cx.tier == Tier::Thorough {
        // same trees fully parenthesised: parentheses must not change anything
        let items = enumerate(cx.tier, allow_neg);
        let k1 = known.clone();
        let full = Style {
            full_parens: true,
            ..Style::default()
        };
        rep.absorb(par_sweep(
            cx,
            "exhaustive-fullparens",
            items,
            move || mk_env(k1.clone()),
            move |env, tree, st| check_tree(env, tree, &full, st),
            move |tree| json!({"tree": tree, "style": full}),
        ));
    }

    // phase 2: random
    let cases = cx.tier.pick(60_000u64, 2_000_000);
    let k2 = known.clone();
    let cfg = GenCfg {
        max_digits: 1200,
        allow_negative_shift: allow_neg,
    };
    if !allow_neg {
        rep.stats
            .note("negative_shift_counts", json!("excluded by construction (known finding hang:negative-shift-count)"));
    }
    rep.absorb(par_proptest(
        cx,
        "random",
        cases,
        move || (tree_strategy(cfg), style_strategy()),
        move || mk_env(k2.clone()),
        |env, (tree, style), st| check_tree(env, tree, style, st),
        |(tree, style)| json!({"tree": tree, "style": style}),
    ));
    rep
}

/// plain-text regression witness: {"text": "...", "ref": {"kind": "undefined"|"value"|"either", "q": "n/d"}}
fn check_plain(env: &Env, case: &J, st: &mut Stats) -> CaseResult {
    let text = case["text"].as_str().ok_or("no text")?;
    let kind = case["ref"]["kind"].as_str().unwrap_or("undefined");
    let q = case["ref"]["q"].as_str().and_then(Q::parse);
    st.eval();
    let out = rinkx::eval_line(&env.ctx, text);
    let dummy = Ar::Bin(Op::Mod, Box::new(Ar::lit("0")), Box::new(Ar::lit("1"))); // no fingerprint
    match (kind, out) {
        (_, Out::Panic(p)) => fail(env, st, panic_signature(&p), text, format!("panicked: {}", p)),
        ("undefined", Out::Error(_)) | ("either", Out::Error(_)) => Ok(()),
        ("undefined", Out::Reply(r)) => fail(env, st, "number-for-undefined".into(), text, format!("answered {}", r)),
        ("value", Out::Error(e)) => fail(env, st, "error-for-defined".into(), text, format!("refused: {}", e)),
        (_, Out::Reply(r)) => {
            let q = q.ok_or("witness lacks q")?;
            match check_value(env, &dummy, text, &q, &r) {
                Ok(()) => Ok(()),
                Err((sig, d)) => fail(env, st, sig, text, d),
            }
        }
        _ => Err("bad witness".into()),
    }
}

pub fn replay(cx: &Cx, _phase: &str, case: &J, st: &mut Stats) -> CaseResult {
    let env = mk_env(cx.known.clone());
    if case.get("tree").is_none() {
        return check_plain(&env, case, st);
    }
    let tree: Ar = serde_json::from_value(case["tree"].clone()).map_err(|e| format!("bad case: {}", e))?;
    if let Some(text) = case.get("text").and_then(|t| t.as_str()) {
        return check_text(&env, &tree, text, None, st);
    }
    let style: Style = serde_json::from_value(case["style"].clone()).unwrap_or_default();
    check_tree(&env, &tree, &style, st)
}

#[allow(dead_code)]
fn _unused(_: BoxedStrategy<u8>) {}
