//! C06 — displayed value times displayed unit equals the computed quantity.

use crate::engine::*;
use crate::gen::units::*;
use crate::oracle::numeral;
use crate::oracle::refarith::*;
use crate::props::{c03, c09};
use crate::rinkx::{self, Out};
use num_bigint::BigInt;
use proptest::prelude::*;
use rink_core::output::{NumberParts, QueryReply};
use rink_core::Context;
use serde_derive::{Deserialize, Serialize};
use serde_json::{json, Value as J};
use std::collections::{BTreeMap, BTreeSet};
use std::sync::Arc;

pub const RULE: &str = "cases: (a) plain results `m*10^k unit^p` for every usable database unit, k in -30..30, m in {0.999, 1, 1000, ...}, \
p in 1..3, and products/quotients of up to four base units built to hit each derived-unit regrouping at powers -1, 1, 2 and the \
gram/tonne and bit/byte special cases; (b) conversions with constant factors, prefixes and inline names (C03's generator); \
(c) unit lists (C09's generator); (d) the definition reply of every defined unit. Oracle: numeral (own reader) x factor/divfactor x \
product of Context::lookup(printed name)^power must equal the computed quantity, exactly for exact numerals and within one \
last-digit unit otherwise; dims and the quantity name must be those of the result; the Display text must show every factor, divisor \
and unit name the structured reply carries. (e) plain results shown in another base and / or digits mode (`x unit -> digits 3 base 7`, \
`-> hex`), numerals read in that base; (f) targets that are a bare constant (`100 -> 5`, `3|7 foot -> 2 foot`). Non-trivial = distinct case whose printed \
unit differs from the raw dimensionality (prefix applied, special case, regrouping, named target).";

#[derive(Clone, Debug, Serialize, Deserialize)]
pub enum Case {
    /// `mantissa e k  unit ^ p`
    Plain { mant: String, k: i32, unit: String, p: u8 },
    /// product of base units with exponents, times a coefficient
    Base { mant: String, k: i32, dims: Vec<(String, i8)> },
    Conv(c03::Case),
    List(c09::Case),
    Def(String),
    /// a plain result shown in another base and / or digits mode: `<inner> -> [mode] [base]`
    Fmt { inner: Box<Case>, mode: u8, base: u8 },
    /// the reply for a substance, bare or converted to `[k] unit`: every property it lists
    Subst { name: String, target: Option<(u32, String)> },
    /// a target that takes a root of a power of a unit: `c u -> (u^n)^(1|n)`
    RootTarget { c: u32, unit: String, n: u8, k: u8 },
    /// `a -> t` for two plain constants (a dimensionless target that is only a constant factor)
    ConstTarget {
        a: (u32, u32),
        t: (u32, u32),
        unit: Option<String>,
        /// the target's constant written as an expression of integers (`(7 mod 4)`, `(6 xor 3)`)
        #[serde(default)]
        expr: Option<String>,
    },
}

const FMT_MODES: [&str; 7] = ["", "digits", "digits 3", "digits 25", "frac", "sci", "eng"];

fn fmt_base_text(base: u8) -> String {
    match base {
        0 => String::new(),
        16 => "hex".into(),
        8 => "oct".into(),
        2 => "bin".into(),
        b => format!("base {}", b),
    }
}

impl Case {
    pub fn text(&self) -> String {
        match self {
            Case::Plain { mant, k, unit, p } => {
                let u = if *p == 1 { unit.clone() } else { format!("{}^{}", unit, p) };
                format!("{}e{} {}", mant, k, u)
            }
            Case::Base { mant, k, dims } => {
                let num: Vec<String> = dims
                    .iter()
                    .filter(|(_, e)| *e > 0)
                    .map(|(u, e)| if *e == 1 { u.clone() } else { format!("{}^{}", u, e) })
                    .collect();
                let den: Vec<String> = dims
                    .iter()
                    .filter(|(_, e)| *e < 0)
                    .map(|(u, e)| if *e == -1 { u.clone() } else { format!("{}^{}", u, -e) })
                    .collect();
                let mut s = format!("{}e{}", mant, k);
                if !num.is_empty() {
                    s.push(' ');
                    s.push_str(&num.join(" "));
                }
                if !den.is_empty() {
                    s.push_str(" / ");
                    s.push_str(&den.join(" "));
                }
                s
            }
            Case::Conv(c) => c.text(),
            Case::List(c) => c.text(),
            Case::Def(n) => n.clone(),
            Case::Fmt { inner, mode, base } => {
                format!("{} -> {} {}", inner.text(), FMT_MODES[*mode as usize % FMT_MODES.len()], fmt_base_text(*base))
            }
            Case::Subst { name, target } => match target {
                None => name.clone(),
                Some((1, u)) => format!("{} -> {}", name, u),
                Some((k, u)) => format!("{} -> {} {}", name, k, u),
            },
            Case::RootTarget { c, unit, n, k } => match k % 3 {
                0 => format!("{} {} -> ({}^{})^(1|{})", c, unit, unit, n, n),
                1 => format!("{} {}^2 -> ({}^{})^(2|{})", c, unit, unit, n, n),
                _ => format!("{} {} -> ({}^{})^(1/{})", c, unit, unit, n, n),
            },
            Case::ConstTarget { a, t, unit, expr } => {
                let n = |x: &(u32, u32)| if x.1 <= 1 { format!("{}", x.0) } else { format!("{}|{}", x.0, x.1) };
                let tt = expr.clone().unwrap_or_else(|| n(t));
                match unit {
                    Some(u) => format!("{} {} -> {} {}", n(a), u, tt, u),
                    None => format!("{} -> {}", n(a), tt),
                }
            }
        }
    }
}

pub struct Env {
    pub ctx: Context,
    pub known: BTreeSet<String>,
    pub quantities: BTreeMap<Dims, String>,
}

pub fn mk_env(known: BTreeSet<String>) -> Env {
    let ctx = rinkx::new_ctx();
    let quantities = ctx
        .registry
        .quantities
        .iter()
        .map(|(d, n)| (d.iter().map(|(k, v)| (k.to_string(), *v)).collect::<Dims>(), n.clone()))
        .collect();
    Env {
        ctx,
        known,
        quantities,
    }
}

fn fail(env: &Env, st: &mut Stats, sig: &str, text: &str, detail: String) -> CaseResult {
    if env.known.contains(sig) {
        st.known(sig, text);
        Ok(())
    } else {
        Err(format!("[{}] `{}`: {}", sig, text, detail))
    }
}

fn number_q(n: &rink_core::types::Number) -> Option<Q> {
    rinkx::rational_of(&n.value).map(|(a, b)| Q::new(a, b))
}

/// value and dims of a printed unit name, read back the way rink reads names
fn read_name(ctx: &Context, inline: &BTreeMap<String, (Q, Dims)>, name: &str) -> Result<(Q, Dims), String> {
    if let Some(x) = inline.get(name) {
        return Ok(x.clone());
    }
    match ctx.lookup(name) {
        Some(n) => match number_q(&n) {
            Some(q) => Ok((q, rinkx::dims_of(&n))),
            None => Err(format!("float:{}", name)),
        },
        None => Err(format!("unreadable:{}", name)),
    }
}

/// parse "a b^2 / c d^3" into (name, power) pairs
fn parse_unit_string(s: &str) -> Option<Vec<(String, i64)>> {
    let mut out = vec![];
    let mut sign = 1;
    for tok in s.split(' ') {
        if tok.is_empty() {
            continue;
        }
        if tok == "/" {
            sign = -1;
            continue;
        }
        let (n, p) = match tok.rsplit_once('^') {
            Some((n, p)) => (n, p.parse::<i64>().ok()?),
            None => (tok, 1),
        };
        out.push((n.to_string(), sign * p));
    }
    Some(out)
}

pub struct Expect<'a> {
    /// the computed quantity (value in base units) and its dimensionality
    pub value: &'a Q,
    pub dims: &'a Dims,
    /// check quantity / raw_dimensions fields (not present on list entries)
    pub check_labels: bool,
    /// list entries carry no approx marker: treat the numeral as possibly truncated
    pub unmarked: bool,
    pub base: u32,
}

/// Returns Ok(printed unit differs from raw dims)
pub fn check_parts(
    env: &Env,
    parts: &NumberParts,
    inline: &BTreeMap<String, (Q, Dims)>,
    ex: &Expect,
) -> Result<bool, (String, String)> {
    // 1. unit product
    let mut scale = Q::small(1);
    let mut udims = Dims::new();
    let mut differs = false;
    let names: Vec<(String, i64)> = if let Some(ru) = &parts.raw_unit {
        differs = true;
        ru.iter().map(|(k, v)| (k.to_string(), *v)).collect()
    } else if let Some(u) = &parts.unit {
        differs = true;
        parse_unit_string(u).ok_or(("unit-string-unparsed".to_string(), format!("unit `{}`", u)))?
    } else if let Some(d) = &parts.dimensions {
        parse_unit_string(d).ok_or(("dimensions-string-unparsed".to_string(), format!("dimensions `{}`", d)))?
    } else {
        vec![]
    };
    // the `unit` string, when present with raw_unit, must spell the same product
    if let (Some(ru), Some(u)) = (&parts.raw_unit, &parts.unit) {
        if let Some(parsed) = parse_unit_string(u) {
            let a: BTreeMap<String, i64> = parsed.into_iter().collect();
            let b: BTreeMap<String, i64> = ru.iter().map(|(k, v)| (k.to_string(), *v)).collect();
            if a != b {
                return Err(("unit-string-differs-from-raw-unit".into(), format!("unit `{}` vs raw_unit {:?}", u, b)));
            }
        }
    }
    for (n, p) in &names {
        match read_name(&env.ctx, inline, n) {
            Ok((q, d)) => {
                if q.is_zero() {
                    return Err(("printed-unit-zero".into(), format!("printed unit `{}` has value zero", n)));
                }
                scale = scale.mul(&q.powi(*p).map_err(|_| ("pow".to_string(), "pow".to_string()))?);
                udims = dims_mul(&udims, &dims_pow(&d, *p), 1);
            }
            Err(e) if e.starts_with("float:") => return Ok(differs), // float-valued unit: not checked
            Err(_) => {
                return Err((
                    "printed-unit-unreadable".into(),
                    format!("printed unit name `{}` is not something rink itself can read back", n),
                ))
            }
        }
    }
    if let Some(f) = &parts.factor {
        let v = parse_dec(f).ok_or(("factor-unreadable".to_string(), format!("factor `{}`", f)))?;
        scale = scale.mul(&Q::int(v));
        differs = true;
    }
    if let Some(f) = &parts.divfactor {
        let v = parse_dec(f).ok_or(("divfactor-unreadable".to_string(), format!("divfactor `{}`", f)))?;
        if v == BigInt::from(0) {
            return Err(("divfactor-zero".into(), "divfactor 0".into()));
        }
        scale = scale.mul(&Q::new(BigInt::from(1), v));
        differs = true;
    }
    // what is *shown* (the Display form `n u w`) must carry the factor, the divisor and every unit
    // name that the structured form carries: the statement is about the printed text
    {
        let shown = parts.to_string();
        if let Some(f) = &parts.factor {
            if !shown.contains(&format!("* {}", f)) {
                return Err(("factor-not-shown".into(), format!("the reply has the constant factor {} but its text `{}` does not show it", f, shown)));
            }
        }
        if let Some(d) = &parts.divfactor {
            if !shown.contains(&format!("/ {}", d)) && !shown.contains(&format!("| {}", d)) {
                return Err(("factor-not-shown".into(), format!("the reply has the constant divisor {} but its text `{}` does not show it", d, shown)));
            }
        }
        for (n, p) in &names {
            if *p != 0 && !shown.contains(n.as_str()) {
                return Err(("unit-not-shown".into(), format!("the reply's unit {} is missing from its text `{}`", n, shown)));
            }
        }
    }
    // 2. dims
    if &udims != ex.dims {
        return Err((
            "printed-unit-wrong-dimension".into(),
            format!("printed unit has dimensionality {}, the quantity {}", dims_show(&udims), dims_show(ex.dims)),
        ));
    }
    if ex.check_labels {
        if let Some(rd) = &parts.raw_dimensions {
            let rd: Dims = rd.iter().map(|(k, v)| (k.to_string(), *v)).collect();
            if &rd != ex.dims {
                return Err((
                    "raw-dimensions-wrong".into(),
                    format!("raw_dimensions {} vs quantity {}", dims_show(&rd), dims_show(ex.dims)),
                ));
            }
        }
        if let Some(d) = &parts.dimensions {
            if let Some(parsed) = parse_unit_string(d) {
                let pd: Dims = parsed.into_iter().filter(|(_, p)| *p != 0).collect();
                if &pd != ex.dims {
                    return Err(("dimensions-string-wrong".into(), format!("dimensions `{}` vs quantity {}", d, dims_show(ex.dims))));
                }
            }
        }
        let expected_q: Option<String> = env.quantities.get(ex.dims).cloned().or_else(|| {
            if ex.dims.len() == 1 {
                let (u, p) = ex.dims.iter().next().unwrap();
                Some(if *p == 1 { u.clone() } else { format!("{}^{}", u, p) })
            } else {
                None
            }
        });
        if parts.quantity != expected_q {
            return Err((
                "quantity-label-wrong".into(),
                format!("quantity shown {:?}, registry says {:?} for {}", parts.quantity, expected_q, dims_show(ex.dims)),
            ));
        }
    }
    // 3. numerals
    let target = ex.value.div(&scale).ok_or(("scale-zero".to_string(), "scale zero".to_string()))?;
    let mut any = false;
    if let Some(exs) = &parts.exact_value {
        any = true;
        let b = ex.base;
        let rs = numeral::read(exs, b);
        if rs.is_empty() {
            return Err(("numeral-unreadable".into(), format!("exact_value `{}`", exs)));
        }
        let ok = if ex.unmarked {
            rs.iter().any(|r| r.value.eq_val(&target) || numeral::is_truncation_of(r, &target))
        } else {
            rs.iter().any(|r| r.value.eq_val(&target))
        };
        if !ok {
            let (n, d) = rs[0].value.mul(&scale).reduced();
            let (tn, td) = ex.value.reduced();
            return Err((
                if ex.unmarked { "list-numeral-off".into() } else { "exact-display-wrong".into() },
                format!(
                    "printed `{}` x unit = {}/{} but the quantity is {}/{}",
                    exs,
                    short(&n),
                    short(&d),
                    short(&tn),
                    short(&td)
                ),
            ));
        }
    }
    if let Some(aps) = &parts.approx_value {
        any = true;
        if aps == "NaN" || aps == "Inf" || aps == "-Inf" {
            return Ok(differs);
        }
        let rs = numeral::read(aps, ex.base);
        if rs.is_empty() {
            return Err(("numeral-unreadable".into(), format!("approx_value `{}`", aps)));
        }
        if !rs.iter().any(|r| numeral::is_truncation_of(r, &target)) {
            let (n, d) = rs[0].value.mul(&scale).reduced();
            let (tn, td) = ex.value.reduced();
            return Err((
                "approx-display-off".into(),
                format!(
                    "printed approx `{}` x unit = {}/{} is not within one last-digit unit below the quantity {}/{}",
                    aps,
                    short(&n),
                    short(&d),
                    short(&tn),
                    short(&td)
                ),
            ));
        }
    }
    if !any {
        return Err(("no-numeral".into(), "neither exact nor approximate numeral".into()));
    }
    Ok(differs)
}

fn short(b: &BigInt) -> String {
    let s = b.to_string();
    if s.len() > 50 {
        format!("{}…{} ({} digits)", &s[..20], &s[s.len() - 20..], s.len())
    } else {
        s
    }
}

pub fn check(env: &Env, case: &Case, st: &mut Stats) -> CaseResult {
    let text = case.text();
    let inline_none = BTreeMap::new();
    match case {
        Case::Plain { unit, .. } if unusable(unit).is_some() => {
            st.excluded("name not usable bare in a query");
            return Ok(());
        }
        _ => {}
    }
    let mark = |st: &mut Stats, differs: bool, key: &str| {
        if differs {
            st.nontrivial(key);
            st.nt_sample(|| json!(key));
        } else {
            st.sample(|| json!(key));
        }
    };
    match case {
        Case::Plain { .. } | Case::Base { .. } => {
            st.eval();
            st.class("plain");
            let out = rinkx::eval_line(&env.ctx, &text);
            let (parts, shown): (NumberParts, String) = match out {
                Out::Panic(p) => return fail(env, st, &panic_signature(&p), &text, format!("panicked: {}", p)),
                Out::Error(_) => {
                    st.excluded("query refused (unit power not meaningful etc.)");
                    return Ok(());
                }
                Out::Reply(QueryReply::Number(p)) => {
                    let s = p.to_string();
                    (p, s)
                }
                Out::Reply(QueryReply::Duration(d)) => {
                    let s = d.raw.to_string();
                    (d.raw.clone(), s)
                }
                Out::Reply(_) => {
                    st.excluded("not a number reply");
                    return Ok(());
                }
            };
            let raw = match &parts.raw_value {
                Some(r) => r,
                None => return fail(env, st, "no-raw-value", &text, "no raw value".into()),
            };
            let v = match number_q(raw) {
                Some(v) => v,
                None => {
                    st.excluded("float-valued result");
                    return Ok(());
                }
            };
            let dims = rinkx::dims_of(raw);
            let ex = Expect {
                value: &v,
                dims: &dims,
                check_labels: true,
                unmarked: false,
                base: 10,
            };
            match check_parts(env, &parts, &inline_none, &ex) {
                Ok(differs) => {
                    if let Some(u) = &parts.unit {
                        for special in ["gram", "tonne", "byte"] {
                            if u.contains(special) {
                                st.class(&format!("special_{}", special));
                            }
                        }
                        for d in ["newton", "pascal", "joule", "watt", "coulomb", "volt", "ohm", "siemens", "farad", "weber", "henry", "tesla", "lumen", "lux", "katal"] {
                            if u.contains(d) {
                                st.class(&format!("regroup_{}", d));
                            }
                        }
                    }
                    mark(st, differs, &format!("{} => {}", text, shown));
                    Ok(())
                }
                Err((sig, d)) => fail(env, st, &sig, &text, format!("shown `{}`: {}", shown, d)),
            }
        }
        Case::Fmt { inner, mode, base } => {
            if let Case::Plain { unit, .. } = &**inner {
                if unusable(unit).is_some() {
                    st.excluded("name not usable bare in a query");
                    return Ok(());
                }
            }
            st.eval();
            st.class("plain_in_base_or_mode");
            let mode_text = FMT_MODES[*mode as usize % FMT_MODES.len()];
            if mode_text.is_empty() && *base == 0 {
                return Ok(());
            }
            // the quantity: the inner expression evaluated on its own
            let raw = match rinkx::eval_line(&env.ctx, &inner.text()) {
                Out::Reply(QueryReply::Number(p)) => p.raw_value,
                Out::Reply(QueryReply::Duration(d)) => d.raw.raw_value.clone(),
                Out::Panic(p) => return fail(env, st, &panic_signature(&p), &inner.text(), format!("panicked: {}", p)),
                _ => None,
            };
            let raw = match raw {
                Some(r) => r,
                None => {
                    st.excluded("query refused (unit power not meaningful etc.)");
                    return Ok(());
                }
            };
            let v = match number_q(&raw) {
                Some(v) => v,
                None => {
                    st.excluded("float-valued result");
                    return Ok(());
                }
            };
            let dims = rinkx::dims_of(&raw);
            let parts = match rinkx::eval_line(&env.ctx, &text) {
                Out::Panic(p) => return fail(env, st, &panic_signature(&p), &text, format!("panicked: {}", p)),
                Out::Reply(QueryReply::Conversion(c)) => c.value,
                Out::Reply(QueryReply::Number(p)) => p,
                Out::Reply(QueryReply::Duration(d)) => d.raw.clone(),
                Out::Reply(r) => return fail(env, st, "format-conversion-other-reply", &text, format!("{}", r)),
                Out::Error(e) => return fail(env, st, "format-conversion-refused", &text, format!("{}", e)),
            };
            let shown = parts.to_string();
            let ex = Expect {
                value: &v,
                dims: &dims,
                check_labels: true,
                unmarked: false,
                base: if *base == 0 { 10 } else { *base as u32 },
            };
            st.class(&format!("fmt_mode_{}", if mode_text.is_empty() { "default" } else { mode_text.split(' ').next().unwrap_or("") }));
            match check_parts(env, &parts, &inline_none, &ex) {
                Ok(differs) => {
                    mark(st, differs, &format!("{} => {}", text, shown));
                    Ok(())
                }
                Err((sig, d)) => fail(env, st, &sig, &text, format!("shown `{}`: {}", shown, d)),
            }
        }
        Case::Subst { name, target } => {
            let sub = match env.ctx.registry.substances.get(name) {
                Some(s) => s,
                None => return Ok(()),
            };
            if env.ctx.lookup(name).is_some() || unusable(name).is_some() || sub.amount != rink_core::types::Number::one() {
                st.excluded("substance name not usable as such (also a unit, or an amount of a substance)");
                return Ok(());
            }
            if let Some((_, u)) = target {
                if unusable(u).is_some() {
                    st.excluded("name not usable bare in a query");
                    return Ok(());
                }
            }
            st.eval();
            st.class(if target.is_some() { "substance_converted" } else { "substance_bare" });
            let reply = match rinkx::eval_line(&env.ctx, &text) {
                Out::Panic(p) => return fail(env, st, &panic_signature(&p), &text, format!("panicked: {}", p)),
                Out::Reply(QueryReply::Substance(r)) => r,
                Out::Reply(_) => {
                    st.excluded("not a substance reply");
                    return Ok(());
                }
                Out::Error(_) => {
                    st.excluded("substance query refused (no property of that dimensionality)");
                    return Ok(());
                }
            };
            let mut any_differs = false;
            for pr in &reply.properties {
                let prop = match sub.properties.properties.get(&pr.name) {
                    Some(p) => p,
                    None => return fail(env, st, "substance-reply-unknown-property", &text, format!("the reply lists `{}`, which the substance does not have", pr.name)),
                };
                let (inq, ind) = match number_q(&prop.input) {
                    Some(q) => (q, rinkx::dims_of(&prop.input)),
                    None => continue,
                };
                let (outq, outd) = match number_q(&prop.output) {
                    Some(q) => (q, rinkx::dims_of(&prop.output)),
                    None => continue,
                };
                if inq.is_zero() || outq.is_zero() {
                    continue;
                }
                st.class("substance_property_shown");
                // what the property says: output per input (for a dimensionless input, simply the
                // output scaled); a reply converted to a unit of the *input's* dimensionality may
                // show the reciprocal ratio, which the printed unit's dimensionality tells
                let forward = (outq.div(&inq).unwrap(), dims_mul(&outd, &ind, -1));
                let backward = (inq.div(&outq).unwrap(), dims_mul(&ind, &outd, -1));
                let shown = pr.value.to_string();
                let mut verdict = None;
                for (v, d) in [&forward, &backward] {
                    let ex = Expect {
                        value: v,
                        dims: d,
                        check_labels: false,
                        unmarked: false,
                        base: 10,
                    };
                    match check_parts(env, &pr.value, &inline_none, &ex) {
                        Ok(differs) => {
                            any_differs |= differs;
                            verdict = Some(Ok(()));
                            break;
                        }
                        Err((sig, dtl)) => {
                            if sig == "printed-unit-wrong-dimension" && verdict.is_none() {
                                verdict = Some(Err((sig, dtl)));
                                continue;
                            }
                            verdict = Some(Err((sig, dtl)));
                            break;
                        }
                    }
                }
                if let Some(Err((sig, dtl))) = verdict {
                    return fail(
                        env,
                        st,
                        &format!("substance-property:{}", sig),
                        &text,
                        format!("property `{}` shown as `{}`: {}", pr.name, shown, dtl),
                    );
                }
            }
            mark(st, any_differs && !reply.properties.is_empty(), &format!("{} => {} properties", text, reply.properties.len()));
            Ok(())
        }
        Case::RootTarget { unit, k, .. } => {
            if unusable(unit).is_some() {
                st.excluded("name not usable bare in a query");
                return Ok(());
            }
            let u = match env.ctx.lookup(unit) {
                Some(u) => u,
                None => return Ok(()),
            };
            let uq = match number_q(&u) {
                Some(q) if q.signum() > 0 => q,
                _ => {
                    st.excluded("float-valued, zero or negative unit");
                    return Ok(());
                }
            };
            let _ = uq;
            st.eval();
            st.class("root_of_power_target");
            // the result is a float (a root was taken), so only the unit is judged: the printed
            // unit must have the dimensionality of the quantity, i.e. it must be there at all
            let want_dims = dims_pow(&rinkx::dims_of(&u), if k % 3 == 1 { 2 } else { 1 });
            let parts = match rinkx::eval_line(&env.ctx, &text) {
                Out::Panic(p) => return fail(env, st, &panic_signature(&p), &text, format!("panicked: {}", p)),
                Out::Reply(QueryReply::Conversion(c)) => c.value,
                Out::Reply(r) => return fail(env, st, "root-target-other-reply", &text, format!("{}", r)),
                Out::Error(e) => {
                    // refusing a fractional power in a target is a legitimate answer
                    st.class("root_of_power_target_refused");
                    let _ = e;
                    return Ok(());
                }
            };
            let shown = parts.to_string();
            let names: Vec<(String, i64)> = if let Some(ru) = &parts.raw_unit {
                ru.iter().map(|(k, v)| (k.to_string(), *v)).collect()
            } else if let Some(un) = &parts.unit {
                parse_unit_string(un).unwrap_or_default()
            } else {
                vec![]
            };
            let mut udims = Dims::new();
            for (n, p) in &names {
                match read_name(&env.ctx, &inline_none, n) {
                    Ok((_, d)) => udims = dims_mul(&udims, &dims_pow(&d, *p), 1),
                    Err(_) => return fail(env, st, "printed-unit-unreadable", &text, format!("shown `{}`: unit `{}`", shown, n)),
                }
            }
            if udims != want_dims {
                return fail(
                    env,
                    st,
                    "printed-unit-wrong-dimension",
                    &text,
                    format!("shown `{}`: the printed unit has dimensionality {}, the quantity {}", shown, dims_show(&udims), dims_show(&want_dims)),
                );
            }
            mark(st, true, &format!("{} => {}", text, shown));
            Ok(())
        }
        Case::ConstTarget { a, t, unit, expr } => {
            if let Some(u) = unit {
                if unusable(u).is_some() {
                    st.excluded("name not usable bare in a query");
                    return Ok(());
                }
            }
            if a.1 == 0 || t.1 == 0 || t.0 == 0 {
                return Ok(());
            }
            st.eval();
            st.class("constant_target");
            let src = match unit {
                Some(u) => format!("{}|{} {}", a.0, a.1, u),
                None => format!("{}|{}", a.0, a.1),
            };
            let raw = match rinkx::eval_line(&env.ctx, &src) {
                Out::Reply(QueryReply::Number(p)) => p.raw_value,
                Out::Reply(QueryReply::Duration(d)) => d.raw.raw_value.clone(),
                _ => None,
            };
            let raw = match raw {
                Some(r) => r,
                None => {
                    st.excluded("query refused (unit power not meaningful etc.)");
                    return Ok(());
                }
            };
            let v = match number_q(&raw) {
                Some(v) => v,
                None => {
                    st.excluded("float-valued result");
                    return Ok(());
                }
            };
            let dims = rinkx::dims_of(&raw);
            let parts = match rinkx::eval_line(&env.ctx, &text) {
                Out::Panic(p) => return fail(env, st, &panic_signature(&p), &text, format!("panicked: {}", p)),
                Out::Reply(QueryReply::Conversion(c)) => c.value,
                Out::Reply(r) => return fail(env, st, "constant-target-other-reply", &text, format!("{}", r)),
                Out::Error(_) if expr.is_some() => {
                    // the operator expression may come to zero, which no value can be converted to
                    st.class("constant_target_expression_refused");
                    return Ok(());
                }
                Out::Error(e) => return fail(env, st, "constant-target-refused", &text, format!("{}", e)),
            };
            let shown = parts.to_string();
            let ex = Expect {
                value: &v,
                dims: &dims,
                check_labels: false,
                unmarked: false,
                base: 10,
            };
            match check_parts(env, &parts, &inline_none, &ex) {
                Ok(_) => {
                    mark(st, *t != (1, 1), &format!("{} => {}", text, shown));
                    Ok(())
                }
                Err((sig, d)) => fail(env, st, &sig, &text, format!("shown `{}`: {}", shown, d)),
            }
        }
        Case::Conv(c) => {
            // left-hand side evaluated separately
            let lhs_text = format!("{} {}", c03_coef(c), c.src.render());
            for n in c.src.num.iter().chain(c.src.den.iter()).chain(c.tgt.num.iter()).chain(c.tgt.den.iter()) {
                if unusable(&n.0).is_some() {
                    st.excluded("name not usable bare in a query");
                    return Ok(());
                }
            }
            let lhs = match rinkx::eval_line(&env.ctx, &lhs_text) {
                Out::Reply(QueryReply::Number(p)) => p.raw_value,
                Out::Reply(QueryReply::Duration(d)) => d.raw.raw_value.clone(),
                _ => None,
            };
            let lhs = match lhs {
                Some(l) => l,
                None => {
                    st.excluded("left-hand side not a plain number");
                    return Ok(());
                }
            };
            let v = match number_q(&lhs) {
                Some(v) => v,
                None => {
                    st.excluded("float-valued result");
                    return Ok(());
                }
            };
            let dims = rinkx::dims_of(&lhs);
            let mut inline = BTreeMap::new();
            if let Some(name) = &c.inline_name {
                // the inline name denotes the right-hand side's value
                let rhs = match rinkx::eval_line(&env.ctx, &c.tgt.render()) {
                    Out::Reply(QueryReply::Number(p)) => p.raw_value,
                    Out::Reply(QueryReply::Duration(d)) => d.raw.raw_value.clone(),
                    _ => None,
                };
                match rhs.as_ref().and_then(|r| number_q(r).map(|q| (q, rinkx::dims_of(r)))) {
                    Some(x) => {
                        inline.insert(name.clone(), x);
                    }
                    None => {
                        st.excluded("inline definition's right-hand side not a rational number");
                        return Ok(());
                    }
                }
            }
            st.eval();
            match rinkx::eval_line(&env.ctx, &text) {
                Out::Panic(p) => fail(env, st, &panic_signature(&p), &text, format!("panicked: {}", p)),
                Out::Reply(QueryReply::Conversion(conv)) => {
                    st.class("conversion");
                    let ex = Expect {
                        value: &v,
                        dims: &dims,
                        check_labels: true,
                        unmarked: false,
                        base: 10,
                    };
                    match check_parts(env, &conv.value, &inline, &ex) {
                        Ok(differs) => {
                            if conv.value.factor.is_some() || conv.value.divfactor.is_some() {
                                st.class("conversion_with_factor");
                            }
                            mark(st, differs, &format!("{} => {}", text, conv));
                            Ok(())
                        }
                        Err((sig, d)) => fail(env, st, &sig, &text, format!("shown `{}`: {}", conv, d)),
                    }
                }
                _ => {
                    st.excluded("conversion refused (non-conformable by construction noise)");
                    Ok(())
                }
            }
        }
        Case::List(c) => {
            let list = match &c.list {
                Some(l) => l,
                None => return Ok(()),
            };
            for n in list.iter().chain(std::iter::once(&c.u0)) {
                if unusable(n).is_some() {
                    st.excluded("name not usable bare in a query");
                    return Ok(());
                }
            }
            st.eval();
            match rinkx::eval_line(&env.ctx, &text) {
                Out::Panic(p) => fail(env, st, &panic_signature(&p), &text, format!("panicked: {}", p)),
                Out::Reply(QueryReply::UnitList(ul)) => {
                    st.class("unit_list");
                    let shown = QueryReply::UnitList(ul.clone()).to_string();
                    for (i, entry) in ul.list.iter().enumerate() {
                        let name = match list.get(i) {
                            Some(n) => n,
                            None => return fail(env, st, "list-length", &text, "more entries than units".into()),
                        };
                        let (uq, ud) = match read_name(&env.ctx, &inline_none, name) {
                            Ok(x) => x,
                            Err(_) => {
                                st.excluded("list unit float or unreadable");
                                return Ok(());
                            }
                        };
                        let part = match entry.raw_value.as_ref().and_then(number_q) {
                            Some(p) => p,
                            None => {
                                st.excluded("float part");
                                return Ok(());
                            }
                        };
                        let v = part.mul(&uq);
                        let ex = Expect {
                            value: &v,
                            dims: &ud,
                            check_labels: false,
                            unmarked: true,
                            base: 10,
                        };
                        match check_parts(env, entry, &inline_none, &ex) {
                            Ok(_) => {
                                if entry.unit.as_deref() != Some(name.as_str()) {
                                    st.class("list_entry_renamed_or_prefixed");
                                    st.nontrivial(&(text.as_str(), i));
                                    st.nt_sample(|| json!(format!("{} => {}", text, shown)));
                                }
                            }
                            Err((sig, d)) => {
                                // recorded finding: an SI prefix put in front of a list member that was
                                // itself written with a prefix or a plural `s` (`ms`, `km`, `kgs`): the
                                // repository's own test suite pins such an output (`9.46 kiloteram`)
                                let plain = env.ctx.registry.units.contains_key(name.as_str()) || env.ctx.registry.base_units.contains(name.as_str());
                                let sig = if plain { format!("list-{}", sig) } else { "list-entry-si-prefix-on-prefixed-or-plural-name".to_string() };
                                return fail(env, st, &sig, &text, format!("entry {} of `{}`: {}", i, shown, d));
                            }
                        }
                    }
                    Ok(())
                }
                _ => {
                    st.excluded("list refused");
                    Ok(())
                }
            }
        }
        Case::Def(name) => {
            st.eval();
            match rinkx::eval_line(&env.ctx, name) {
                Out::Panic(p) => fail(env, st, &panic_signature(&p), &text, format!("panicked: {}", p)),
                Out::Reply(QueryReply::Def(def)) => {
                    st.class("definition");
                    let parts = match &def.value {
                        Some(p) => p,
                        None => return Ok(()),
                    };
                    let raw = match &parts.raw_value {
                        Some(r) => r,
                        None => return fail(env, st, "no-raw-value", &text, "definition value without raw value".into()),
                    };
                    let v = match number_q(raw) {
                        Some(v) => v,
                        None => return Ok(()),
                    };
                    // the definition's value is what the name (after alias expansion) denotes
                    let dims = rinkx::dims_of(raw);
                    let ex = Expect {
                        value: &v,
                        dims: &dims,
                        check_labels: true,
                        unmarked: false,
                        base: 10,
                    };
                    match check_parts(env, parts, &inline_none, &ex) {
                        Ok(differs) => {
                            mark(st, differs, &format!("{} => {}", text, parts));
                            // and it must be the value lookup gives for the queried name
                            if let Some(l) = env.ctx.lookup(name) {
                                if &l != raw {
                                    return fail(
                                        env,
                                        st,
                                        "definition-value-not-the-name's-value",
                                        &text,
                                        format!("definition shows {:?} but the name denotes {:?}", raw, l),
                                    );
                                }
                            }
                            Ok(())
                        }
                        Err((sig, d)) => fail(env, st, &sig, &text, format!("shown `{}`: {}", parts, d)),
                    }
                }
                _ => Ok(()),
            }
        }
    }
}

fn c03_coef(c: &c03::Case) -> String {
    if c.c.1 == 1 {
        c.c.0.to_string()
    } else {
        format!("{}|{}", c.c.0, c.c.1)
    }
}

// ---------------------------------------------------------------------------

const MANTS: [&str; 9] = ["1", "0.999", "1000", "999.9999", "1.000001", "3", "-1", "-999.5", "7.25"];
const BASES: [&str; 11] = ["kg", "m", "s", "A", "K", "mol", "cd", "bit", "radian", "sr", "USD"];

fn plain_sweep(pool: &UnitPool, tier: Tier) -> Vec<Case> {
    let mut v = vec![];
    let ks: Vec<i32> = if tier == Tier::Thorough { (-30..=30).collect() } else { vec![-30, -27, -24, -12, -9, -6, -4, -3, -2, -1, 0, 1, 2, 3, 5, 6, 8, 9, 12, 15, 24, 27, 30] };
    for (i, u) in pool.units.iter().enumerate() {
        for (j, k) in ks.iter().enumerate() {
            // thin: every unit sees every k with one mantissa/power combination, rotating
            let m = MANTS[(i + j) % MANTS.len()];
            let p = 1 + ((i + 2 * j) % 3) as u8;
            v.push(Case::Plain {
                mant: m.to_string(),
                k: *k,
                unit: u.name.clone(),
                p,
            });
        }
    }
    v
}

fn base_strategy() -> impl Strategy<Value = Case> {
    // exponent vectors over base units; targeted derived-unit shapes
    let derived: Vec<Vec<(&str, i8)>> = vec![
        vec![("kg", 1), ("m", 1), ("s", -2)],            // newton
        vec![("kg", 1), ("m", -1), ("s", -2)],           // pascal
        vec![("kg", 1), ("m", 2), ("s", -2)],            // joule
        vec![("kg", 1), ("m", 2), ("s", -3)],            // watt
        vec![("A", 1), ("s", 1)],                        // coulomb
        vec![("kg", 1), ("m", 2), ("s", -3), ("A", -1)], // volt
        vec![("kg", 1), ("m", 2), ("s", -3), ("A", -2)], // ohm
        vec![("kg", -1), ("m", -2), ("s", 3), ("A", 2)], // siemens
        vec![("kg", -1), ("m", -2), ("s", 4), ("A", 2)], // farad
        vec![("kg", 1), ("m", 2), ("s", -2), ("A", -1)], // weber
        vec![("kg", 1), ("m", 2), ("s", -2), ("A", -2)], // henry
        vec![("kg", 1), ("s", -2), ("A", -1)],           // tesla
        vec![("cd", 1), ("sr", 1)],                      // lumen
        vec![("cd", 1), ("sr", 1), ("m", -2)],           // lux
        vec![("mol", 1), ("s", -1)],                     // katal
        vec![("kg", 1)],
        vec![("bit", 1)],
        vec![("kg", 2)],
        vec![("bit", 2)],
    ];
    let mant = proptest::sample::select(MANTS.to_vec());
    let targeted = (
        proptest::sample::select(derived),
        proptest::sample::select(vec![-1i8, 1, 2]),
        proptest::option::weighted(0.5, (proptest::sample::select(BASES.to_vec()), proptest::sample::select(vec![-2i8, -1, 1, 2]))),
        mant.clone(),
        -30i32..=30,
    )
        .prop_map(|(d, pw, extra, m, k)| {
            let mut map: BTreeMap<String, i8> = BTreeMap::new();
            for (u, e) in d {
                *map.entry(u.to_string()).or_insert(0) += e * pw;
            }
            if let Some((u, e)) = extra {
                *map.entry(u.to_string()).or_insert(0) += e;
            }
            Case::Base {
                mant: m.to_string(),
                k,
                dims: map.into_iter().filter(|(_, e)| *e != 0).collect(),
            }
        });
    let random = (
        proptest::collection::vec((proptest::sample::select(BASES.to_vec()), -3i8..=3), 1..=4),
        mant,
        -30i32..=30,
    )
        .prop_map(|(ds, m, k)| {
            let mut map: BTreeMap<String, i8> = BTreeMap::new();
            for (u, e) in ds {
                *map.entry(u.to_string()).or_insert(0) += e;
            }
            Case::Base {
                mant: m.to_string(),
                k,
                dims: map.into_iter().filter(|(_, e)| *e != 0).collect(),
            }
        });
    prop_oneof![3 => targeted, 2 => random]
}

fn fmt_strategy(pool: Arc<UnitPool>) -> impl Strategy<Value = Case> {
    let plain = (
        proptest::sample::select(MANTS.to_vec()),
        -12i32..=12,
        any::<prop::sample::Index>(),
        1u8..=3,
    )
        .prop_map(move |(m, k, i, p)| Case::Plain {
            mant: m.to_string(),
            k,
            unit: pool.units[i.index(pool.units.len())].name.clone(),
            p,
        });
    let inner = prop_oneof![3 => plain, 2 => base_strategy()];
    (
        inner,
        0u8..FMT_MODES.len() as u8,
        prop_oneof![2 => Just(0u8), 2 => Just(16u8), 1 => Just(8u8), 1 => Just(2u8), 1 => Just(10u8), 3 => 2u8..=36],
    )
        .prop_map(|(inner, mode, base)| Case::Fmt { inner: Box::new(inner), mode, base })
}

fn root_target_strategy(pool: Arc<UnitPool>) -> impl Strategy<Value = Case> {
    (1u32..50, any::<prop::sample::Index>(), 2u8..=4, 0u8..3).prop_map(move |(c, i, n, k)| Case::RootTarget {
        c,
        unit: pool.units[i.index(pool.units.len())].name.clone(),
        n,
        k,
    })
}

fn const_target_strategy(pool: Arc<UnitPool>) -> impl Strategy<Value = Case> {
    (
        (1u32..2000, 1u32..12),
        (1u32..50, 1u32..9),
        proptest::option::weighted(0.5, any::<prop::sample::Index>()),
        proptest::option::weighted(0.3, (0u8..4, 2u32..40)),
    )
        .prop_map(move |(a, t, u, op)| {
            let expr = op.map(|(o, k): (u8, u32)| format!("({} {} {})", t.0, ["mod", "and", "or", "xor"][o as usize % 4], k));
            Case::ConstTarget {
                a,
                t,
                unit: u.map(|i| pool.units[i.index(pool.units.len())].name.clone()),
                expr,
            }
        })
}

pub fn run(cx: &Cx) -> Report {
    let mut rep = Report::new(RULE);
    rep.assumptions = vec![
        "the computed quantity of a plain result is the reply's raw_value (C01/C02/C03 check that computation); for conversions it is the separately evaluated left-hand side; for list entries part x lookup(list unit)".into(),
        "printed unit names are read back with Context::lookup (and inline names with the value the query gave them)".into(),
        "list numerals carry no approx marker and are accepted as truncations within one last-digit unit".into(),
        "float-valued results and units are skipped (counted)".into(),
    ];
    let ctx = rinkx::new_ctx();
    let pool = Arc::new(build(&ctx));
    let def_names: Vec<String> = ctx.registry.units.keys().filter(|n| unusable(n).is_none()).cloned().collect();
    drop(ctx);
    let known = cx.known.clone();
    crate::regress::run(cx, &mut rep, &replay);

    let items = plain_sweep(&pool, cx.tier);
    rep.stats.note("plain_sweep_cases", json!(items.len()));
    let k = known.clone();
    rep.absorb(par_sweep(
        cx,
        "plain-sweep",
        items,
        move || mk_env(k.clone()),
        |env, c, st| check(env, c, st),
        |c| json!({"case": c, "text": c.text()}),
    ));
    rep.mark(cx, "plain-sweep");

    let k = known.clone();
    rep.absorb(par_sweep(
        cx,
        "definitions",
        def_names.into_iter().map(Case::Def).collect(),
        move || mk_env(k.clone()),
        |env, c, st| check(env, c, st),
        |c| json!({"case": c, "text": c.text()}),
    ));
    rep.mark(cx, "definitions");

    let k = known.clone();
    rep.absorb(par_proptest(
        cx,
        "base-products",
        cx.tier.pick(40_000, 1_500_000),
        base_strategy,
        move || mk_env(k.clone()),
        |env, c, st| check(env, c, st),
        |c| json!({"case": c, "text": c.text()}),
    ));
    rep.mark(cx, "base-products");

    let k = known.clone();
    let p = pool.clone();
    rep.absorb(par_proptest(
        cx,
        "conversions",
        cx.tier.pick(40_000, 1_500_000),
        move || c03::conformable_strategy(p.clone()).prop_map(Case::Conv),
        move || mk_env(k.clone()),
        |env, c, st| check(env, c, st),
        |c| json!({"case": c, "text": c.text()}),
    ));
    rep.mark(cx, "conversions");

    let k = known.clone();
    let p = pool.clone();
    rep.absorb(par_proptest(
        cx,
        "unit-lists",
        cx.tier.pick(25_000, 800_000),
        move || c09::case_strategy(p.clone()).prop_map(Case::List),
        move || mk_env(k.clone()),
        |env, c, st| check(env, c, st),
        |c| json!({"case": c, "text": c.text()}),
    ));
    rep.mark(cx, "unit-lists");

    let k = known.clone();
    let p = pool.clone();
    rep.absorb(par_proptest(
        cx,
        "bases-and-modes",
        cx.tier.pick(30_000, 600_000),
        move || fmt_strategy(p.clone()),
        move || mk_env(k.clone()),
        |env, c, st| check(env, c, st),
        |c| json!({"case": c, "text": c.text()}),
    ));
    rep.mark(cx, "bases-and-modes");

    let k = known.clone();
    let p = pool.clone();
    rep.absorb(par_proptest(
        cx,
        "constant-targets",
        cx.tier.pick(10_000, 200_000),
        move || const_target_strategy(p.clone()),
        move || mk_env(k.clone()),
        |env, c, st| check(env, c, st),
        |c| json!({"case": c, "text": c.text()}),
    ));
    rep.mark(cx, "constant-targets");

    let k = known.clone();
    let p = pool.clone();
    rep.absorb(par_proptest(
        cx,
        "root-targets",
        cx.tier.pick(6_000, 100_000),
        move || root_target_strategy(p.clone()),
        move || mk_env(k.clone()),
        |env, c, st| check(env, c, st),
        |c| json!({"case": c, "text": c.text()}),
    ));
    rep.mark(cx, "root-targets");

    // substances: every property a substance reply shows, bare and converted
    let mut items: Vec<Case> = vec![];
    {
        let ctx = rinkx::new_ctx();
        for (name, sub) in ctx.registry.substances.iter() {
            items.push(Case::Subst { name: name.clone(), target: None });
            // targets: units of each property's output and input dimensionality, with and without a constant
            let mut seen: BTreeSet<Dims> = BTreeSet::new();
            for prop in sub.properties.properties.values() {
                for side in [&prop.output, &prop.input] {
                    let d = rinkx::dims_of(side);
                    if d.is_empty() || !seen.insert(d.clone()) {
                        continue;
                    }
                    let class: Vec<usize> = pool.classes.iter().find(|c| c.first().map(|i| pool.units[*i].dims == d).unwrap_or(false)).cloned().unwrap_or_default();
                    {
                        for (j, ui) in class.iter().take(if cx.tier == Tier::Thorough { 12 } else { 3 }).enumerate() {
                            let u = pool.units[*ui].name.clone();
                            items.push(Case::Subst { name: name.clone(), target: Some((1, u.clone())) });
                            items.push(Case::Subst { name: name.clone(), target: Some((2 + j as u32, u)) });
                        }
                    }
                }
            }
        }
    }
    rep.stats.note("substance_cases", json!(items.len()));
    let k = known.clone();
    rep.absorb(par_sweep(
        cx,
        "substances",
        items,
        move || mk_env(k.clone()),
        |env, c, st| check(env, c, st),
        |c| json!({"case": c, "text": c.text()}),
    ));
    rep.mark(cx, "substances");
    rep
}

pub fn replay(cx: &Cx, _phase: &str, case: &J, st: &mut Stats) -> CaseResult {
    let env = mk_env(cx.known.clone());
    let c: Case = serde_json::from_value(case["case"].clone()).map_err(|e| format!("bad case: {}", e))?;
    check(&env, &c, st)
}
