//! C14 — date arithmetic is consistent.

use crate::engine::*;
use crate::oracle::refarith::Q;
use crate::rinkx::{self, Out};
use num_bigint::BigInt;
use proptest::prelude::*;
use rink_core::output::QueryReply;
use rink_core::Context;
use serde_derive::{Deserialize, Serialize};
use serde_json::{json, Value as J};
use std::collections::BTreeSet;

pub const RULE: &str = "case = (instant: year 1..9999, valid civil date, time to the nanosecond, fixed offset or named zone; one of 8 \
documented literal patterns; operation). Operations: the literal alone (rfc3339 of the reply read by an own RFC 3339 reader must be \
the instant an own proleptic-Gregorian calendar computes); (d + t) - d and (d - t) + t for t = k ns, k from {1, 999, 10^3+-1, \
10^6+-1, 10^9+-1, random to 9.2e24} in ns/us/ms/s/min/hour/day/week/year with exact rational coefficients, both signs; d1 - d2; \
re-zoning to +-HH:MM (00:00..23:59 must keep the instant and show the offset, 24:00..99:59 must be refused) and to named zones. \
Non-trivial = distinct case where t has a sub-millisecond component or is negative, or the literal has a non-zero offset or zone.";

#[derive(Clone, Debug, Serialize, Deserialize, PartialEq, Eq, Hash)]
pub struct Instant {
    pub y: i32,
    pub mo: u32,
    pub d: u32,
    pub h: u32,
    pub mi: u32,
    pub s: u32,
    pub ns: u32,
    /// offset east of UTC in minutes, or a zone name
    pub off_min: i32,
    pub zone: Option<String>,
}

#[derive(Clone, Debug, Serialize, Deserialize, PartialEq, Eq, Hash)]
pub enum Op {
    Literal,
    /// (d + t) - d and (d - t) + t with t = k ns written in `unit`
    RoundTrip { k: String, unit: String },
    Diff(Instant, u8, u8),
    /// offset in (sign, hours, minutes) as written
    RezoneOffset { neg: bool, h: u32, m: u32 },
    RezoneZone(String),
}

#[derive(Clone, Debug, Serialize, Deserialize, PartialEq, Eq, Hash)]
pub struct Case {
    pub d: Instant,
    pub pattern: u8,
    pub frac_digits: u8,
    pub op: Op,
}

// --- own calendar ------------------------------------------------------------

/// days since 1970-01-01 of a proleptic Gregorian civil date
pub fn days_from_civil(y: i64, m: u32, d: u32) -> i64 {
    let y = if m <= 2 { y - 1 } else { y };
    let era = if y >= 0 { y } else { y - 399 } / 400;
    let yoe = y - era * 400;
    let mp = (m as i64 + 9) % 12;
    let doy = (153 * mp + 2) / 5 + d as i64 - 1;
    let doe = yoe * 365 + yoe / 4 - yoe / 100 + doy;
    era * 146097 + doe - 719468
}

pub fn is_leap(y: i32) -> bool {
    (y % 4 == 0 && y % 100 != 0) || y % 400 == 0
}

pub fn days_in_month(y: i32, m: u32) -> u32 {
    match m {
        1 | 3 | 5 | 7 | 8 | 10 | 12 => 31,
        4 | 6 | 9 | 11 => 30,
        _ => {
            if is_leap(y) {
                29
            } else {
                28
            }
        }
    }
}

/// nanoseconds since the epoch of a local civil time at a fixed offset
pub fn epoch_ns(i: &Instant) -> i128 {
    let days = days_from_civil(i.y as i64, i.mo, i.d) as i128;
    let tod = (i.h as i128 * 3600 + i.mi as i128 * 60 + i.s as i128) * 1_000_000_000 + i.ns as i128;
    days * 86_400_000_000_000 + tod - (i.off_min as i128) * 60_000_000_000
}

/// own RFC 3339 reader: (epoch ns, offset seconds, local fields)
pub fn read_rfc3339(s: &str) -> Option<(i128, i32, (i32, u32, u32, u32, u32, u32, u32))> {
    // [-]YYYY-MM-DDTHH:MM:SS[.frac](Z|+HH:MM|-HH:MM)
    let (neg_year, body) = match s.strip_prefix('-') {
        Some(r) => (true, r),
        None => (false, s.strip_prefix('+').unwrap_or(s)),
    };
    let t = body.find('T')?;
    let (date, rest) = body.split_at(t);
    let rest = &rest[1..];
    let mut dp = date.split('-');
    let y: i32 = dp.next()?.parse().ok()?;
    let mo: u32 = dp.next()?.parse().ok()?;
    let d: u32 = dp.next()?.parse().ok()?;
    let y = if neg_year { -y } else { y };
    // offset
    let (time, off) = if let Some(t) = rest.strip_suffix('Z') {
        (t, 0i32)
    } else {
        let p = rest.rfind(|c| c == '+' || c == '-')?;
        let (t, o) = rest.split_at(p);
        let sign = if o.starts_with('-') { -1 } else { 1 };
        let mut op = o[1..].split(':');
        let oh: i32 = op.next()?.parse().ok()?;
        let om: i32 = op.next()?.parse().ok()?;
        (t, sign * (oh * 3600 + om * 60))
    };
    let (hms, frac) = match time.split_once('.') {
        Some((a, b)) => (a, b),
        None => (time, ""),
    };
    let mut tp = hms.split(':');
    let h: u32 = tp.next()?.parse().ok()?;
    let mi: u32 = tp.next()?.parse().ok()?;
    let sec: u32 = tp.next()?.parse().ok()?;
    let mut ns: u32 = 0;
    if !frac.is_empty() {
        if frac.len() > 9 || !frac.chars().all(|c| c.is_ascii_digit()) {
            return None;
        }
        ns = frac.parse::<u32>().ok()? * 10u32.pow(9 - frac.len() as u32);
    }
    let days = days_from_civil(y as i64, mo, d) as i128;
    let tod = (h as i128 * 3600 + mi as i128 * 60 + sec as i128) * 1_000_000_000 + ns as i128;
    Some((days * 86_400_000_000_000 + tod - off as i128 * 1_000_000_000, off, (y, mo, d, h, mi, sec, ns)))
}

const MONTHS: [&str; 12] = ["January", "February", "March", "April", "May", "June", "July", "August", "September", "October", "November", "December"];
const MON3: [&str; 12] = ["Jan", "Feb", "Mar", "Apr", "May", "Jun", "Jul", "Aug", "Sep", "Oct", "Nov", "Dec"];
const WEEKDAYS: [&str; 7] = ["Thu", "Fri", "Sat", "Sun", "Mon", "Tue", "Wed"]; // 1970-01-01 was a Thursday

fn weekday(i: &Instant) -> &'static str {
    let d = days_from_civil(i.y as i64, i.mo, i.d);
    WEEKDAYS[d.rem_euclid(7) as usize]
}

fn offset_text(i: &Instant, compact: bool) -> String {
    if let Some(z) = &i.zone {
        return format!(" {}", z);
    }
    if i.off_min == 0 && !compact {
        return String::new();
    }
    let a = i.off_min.abs();
    if compact {
        format!(" {}{:02}{:02}", if i.off_min < 0 { "-" } else { "+" }, a / 60, a % 60)
    } else {
        format!(" {}{:02}:{:02}", if i.off_min < 0 { "-" } else { "+" }, a / 60, a % 60)
    }
}

fn sec_text(i: &Instant, frac_digits: u8) -> String {
    if i.ns == 0 && frac_digits == 0 {
        format!("{:02}", i.s)
    } else {
        // print exactly `frac_digits` digits (the instant's ns are a multiple of the unit)
        let fd = frac_digits.clamp(1, 9) as usize;
        let all = format!("{:09}", i.ns);
        format!("{:02}.{}", i.s, &all[..fd])
    }
}

/// render the literal (without #) for a pattern; None if the pattern cannot express the instant
pub fn literal(i: &Instant, pattern: u8, frac_digits: u8) -> Option<String> {
    let time24 = format!("{:02}:{:02}:{}", i.h, i.mi, sec_text(i, frac_digits));
    let h12 = if i.h % 12 == 0 { 12 } else { i.h % 12 };
    let time12 = format!("{:02}:{:02}:{} {}", h12, i.mi, sec_text(i, frac_digits), if i.h < 12 { "am" } else { "pm" });
    let date_only = i.h == 0 && i.mi == 0 && i.s == 0 && i.ns == 0 && i.off_min == 0 && i.zone.is_none();
    Some(match pattern % 8 {
        0 => {
            if !date_only {
                return None;
            }
            format!("{:04}-{:02}-{:02}", i.y, i.mo, i.d)
        }
        1 => format!("{:04}-{:02}-{:02} {}{}", i.y, i.mo, i.d, time24, offset_text(i, false)),
        2 => format!("{:04}-{:02}-{:02}T{}{}", i.y, i.mo, i.d, time24, offset_text(i, false)),
        3 => {
            let ord = days_from_civil(i.y as i64, i.mo, i.d) - days_from_civil(i.y as i64, 1, 1) + 1;
            format!("{:04}-{:03} {}{}", i.y, ord, time24, offset_text(i, false))
        }
        4 => format!("{} {}, {} {}{}", MONTHS[i.mo as usize - 1], i.d, i.y, time24, offset_text(i, false)),
        5 => format!("{} {} {} {}{}", MON3[i.mo as usize - 1], i.d, i.y, time12, offset_text(i, true)),
        6 => {
            // ctime form: no offset, 4-digit year, no fraction
            if i.off_min != 0 || i.zone.is_some() || i.ns != 0 || frac_digits != 0 {
                return None;
            }
            format!("{} {} {} {:02}:{:02}:{:02} {:04}", weekday(i), MON3[i.mo as usize - 1], i.d, i.h, i.mi, i.s, i.y)
        }
        _ => format!("{} {} {} {}{} AD", i.y, MONTHS[i.mo as usize - 1], i.d, time24, offset_text(i, false)),
    })
}

pub struct Env {
    pub ctx: Context,
    pub known: BTreeSet<String>,
}

fn fail(env: &Env, st: &mut Stats, sig: &str, text: &str, detail: String) -> CaseResult {
    if env.known.contains(sig) {
        st.known(sig, text);
        Ok(())
    } else {
        Err(format!("[{}] `{}`: {}", sig, text, detail))
    }
}

fn date_of(out: Out) -> Result<(i128, i32, (i32, u32, u32, u32, u32, u32, u32), String), String> {
    match out {
        Out::Reply(QueryReply::Date(d)) => match read_rfc3339(&d.rfc3339) {
            Some((ns, off, f)) => Ok((ns, off, f, d.rfc3339.clone())),
            None => Err(format!("cannot read rfc3339 `{}`", d.rfc3339)),
        },
        other => Err(other.describe()),
    }
}

fn in_range(ns: i128) -> bool {
    // years 1..9999 (roughly)
    let lo = days_from_civil(1, 1, 2) as i128 * 86_400_000_000_000;
    let hi = days_from_civil(9999, 12, 30) as i128 * 86_400_000_000_000;
    ns > lo && ns < hi
}

pub fn check(env: &Env, c: &Case, st: &mut Stats) -> CaseResult {
    let lit = match literal(&c.d, c.pattern, c.frac_digits) {
        Some(l) => l,
        None => {
            st.excluded("pattern cannot express this instant");
            return Ok(());
        }
    };
    if c.d.zone.is_some() && c.d.y < 1980 {
        st.excluded("zoned literal before 1980 (local-mean-time offsets have seconds, which RFC 3339 text cannot show)");
        return Ok(());
    }
    let dtext = format!("#{}#", lit);
    let expected = epoch_ns(&c.d);
    let has_zone = c.d.zone.is_some();
    let offsetful = c.d.off_min != 0 || has_zone;
    st.eval();
    st.class(&format!("pattern_{}", c.pattern % 8));
    // every case first checks the literal itself
    let base = match date_of(rinkx::eval_line(&env.ctx, &dtext)) {
        Ok(x) => x,
        Err(e) if e.starts_with("PANIC") => return fail(env, st, &panic_signature(&e[7..]), &dtext, e),
        Err(e) if has_zone && e.contains("does not represent a valid moment in time") => {
            // a wall-clock time inside a daylight-saving gap of that zone: there is no such instant
            st.excluded("zoned wall-clock time that does not exist (DST gap)");
            return Ok(());
        }
        Err(e) => return fail(env, st, "literal-not-a-date", &dtext, format!("a literal in a documented pattern was not read as a date: {}", e)),
    };
    if has_zone {
        // no independent zone database: the wall-clock fields must be the ones written
        let f = base.2;
        if (f.0, f.1, f.2, f.3, f.4, f.5, f.6) != (c.d.y, c.d.mo, c.d.d, c.d.h, c.d.mi, c.d.s, c.d.ns) {
            return fail(env, st, "zoned-literal-wall-clock-changed", &dtext, format!("read as {}", base.3));
        }
    } else if base.0 != expected {
        return fail(
            env,
            st,
            "literal-wrong-instant",
            &dtext,
            format!("read as {} = {} ns since the epoch, the calendar says {} ns", base.3, base.0, expected),
        );
    }
    let d_ns = base.0;
    match &c.op {
        Op::Literal => {
            if offsetful {
                st.nontrivial(&dtext);
                st.nt_sample(|| json!({"literal": dtext, "rfc3339": base.3}));
            } else {
                st.sample(|| json!({"literal": dtext, "rfc3339": base.3}));
            }
            Ok(())
        }
        Op::RoundTrip { k, unit } => {
            let k: i128 = k.parse().map_err(|_| "bad k")?;
            let uval = match env.ctx.lookup(unit).and_then(|n| rinkx::rational_of(&n.value)) {
                Some((a, b)) => Q::new(a, b),
                None => return Err(format!("harness: time unit {} not found", unit)),
            };
            // t = k ns = coef * unit, coef = k / (1e9 * val(unit))
            let coef = Q::new(BigInt::from(k), BigInt::from(1_000_000_000i64)).div(&uval).unwrap();
            let (cn, cd) = coef.reduced();
            let t = if cd == BigInt::from(1) { format!("{} {}", cn, unit) } else { format!("({}|{}) {}", cn, cd, unit) };
            let sub_ms = k % 1_000_000 != 0;
            if sub_ms || k < 0 || offsetful {
                st.nontrivial(&(c, "rt"));
                st.nt_sample(|| json!({"query": format!("({} + {}) - {}", dtext, t, dtext)}));
            }
            st.class(if sub_ms { "t_sub_millisecond" } else { "t_whole_milliseconds" });
            let total = in_range(d_ns + k) && in_range(d_ns - k);
            // (d + t) - d = t
            let q1 = format!("({} + {}) - {}", dtext, t, dtext);
            st.eval();
            match rinkx::eval_line(&env.ctx, &q1) {
                Out::Panic(p) => return fail(env, st, &panic_signature(&p), &q1, format!("panicked: {}", p)),
                Out::Reply(r) => {
                    let raw = match &r {
                        QueryReply::Duration(d) => d.raw.raw_value.clone(),
                        QueryReply::Number(p) => p.raw_value.clone(),
                        _ => None,
                    };
                    let want = Q::new(BigInt::from(k), BigInt::from(1_000_000_000i64));
                    match raw.as_ref().and_then(|n| rinkx::rational_of(&n.value).map(|(a, b)| (Q::new(a, b), rinkx::dims_of(n)))) {
                        Some((got, dims)) => {
                            if dims.len() != 1 || dims.get("s") != Some(&1) {
                                return fail(env, st, "difference-not-a-time", &q1, format!("dims {:?}", dims));
                            }
                            if !got.eq_val(&want) {
                                let (gn, gd) = got.reduced();
                                return fail(
                                    env,
                                    st,
                                    "add-then-subtract-drift",
                                    &q1,
                                    format!("(d + t) - d = {}/{} s, but t = {} ns", gn, gd, k),
                                );
                            }
                        }
                        None => return fail(env, st, "difference-not-rational", &q1, format!("{}", r)),
                    }
                }
                Out::Error(e) => {
                    if total {
                        return fail(env, st, "date-plus-duration-refused", &q1, format!("{}", e));
                    }
                    st.class("result_outside_years_1_9999 (totality only)");
                }
            }
            // (d - t) + t = d
            let q2 = format!("({} - {}) + {}", dtext, t, t);
            st.eval();
            match date_of(rinkx::eval_line(&env.ctx, &q2)) {
                Ok((ns, _, _, text)) => {
                    if ns != d_ns {
                        return fail(env, st, "subtract-then-add-drift", &q2, format!("gives {} ({} ns), d is {} ns", text, ns, d_ns));
                    }
                }
                Err(e) if e.starts_with("PANIC") => return fail(env, st, &panic_signature(&e[7..]), &q2, e),
                Err(e) => {
                    if total {
                        return fail(env, st, "date-minus-duration-refused", &q2, e);
                    }
                }
            }
            Ok(())
        }
        Op::Diff(d2, p2, fd2) => {
            let lit2 = match literal(d2, *p2, *fd2) {
                Some(l) => l,
                None => {
                    st.excluded("pattern cannot express the second instant");
                    return Ok(());
                }
            };
            let q = format!("{} - #{}#", dtext, lit2);
            let want = if d2.zone.is_some() || has_zone {
                // no independent zone database: the difference must agree with the two instants
                // as rink itself reads them one at a time (metamorphic)
                if d2.y < 1980 {
                    st.excluded("zoned literal before 1980 (local-mean-time offsets have seconds, which RFC 3339 text cannot show)");
                    return Ok(());
                }
                match date_of(rinkx::eval_line(&env.ctx, &format!("#{}#", lit2))) {
                    Ok((ns2, _, _, _)) => {
                        st.class("difference_with_zone");
                        d_ns - ns2
                    }
                    Err(_) => {
                        st.excluded("second literal not read as a date (DST gap)");
                        return Ok(());
                    }
                }
            } else {
                expected - epoch_ns(d2)
            };
            st.eval();
            st.class("difference");
            if offsetful || d2.off_min != 0 {
                st.nontrivial(&q);
                st.nt_sample(|| json!({"query": q}));
            }
            match rinkx::eval_line(&env.ctx, &q) {
                Out::Panic(p) => fail(env, st, &panic_signature(&p), &q, format!("panicked: {}", p)),
                Out::Reply(r) => {
                    let raw = match &r {
                        QueryReply::Duration(d) => d.raw.raw_value.clone(),
                        QueryReply::Number(p) => p.raw_value.clone(),
                        _ => None,
                    };
                    match raw.as_ref().and_then(|n| rinkx::rational_of(&n.value)) {
                        Some((a, b)) => {
                            let got = Q::new(a, b);
                            let w = Q::new(BigInt::from(want), BigInt::from(1_000_000_000i64));
                            if got.eq_val(&w) {
                                Ok(())
                            } else {
                                let (gn, gd) = got.reduced();
                                fail(env, st, "difference-wrong", &q, format!("rink {}/{} s, calendar {} ns", gn, gd, want))
                            }
                        }
                        None => fail(env, st, "difference-not-rational", &q, format!("{}", r)),
                    }
                }
                Out::Error(e) => fail(env, st, "difference-refused", &q, format!("{}", e)),
            }
        }
        Op::RezoneOffset { neg, h, m } => {
            let q = format!("{} -> {}{:02}:{:02}", dtext, if *neg { "-" } else { "+" }, h, m);
            let secs = (*h as i32 * 3600 + *m as i32 * 60) * if *neg { -1 } else { 1 };
            st.eval();
            st.nontrivial(&q);
            st.nt_sample(|| json!({"query": q}));
            if *h >= 24 {
                st.class("rezone_out_of_range");
                return match rinkx::eval_line(&env.ctx, &q) {
                    Out::Panic(p) => fail(env, st, &panic_signature(&p), &q, format!("panicked: {}", p)),
                    Out::Error(_) => Ok(()),
                    Out::Reply(r) => fail(env, st, "out-of-range-offset-accepted", &q, format!("{}", r)),
                };
            }
            st.class("rezone_offset");
            match date_of(rinkx::eval_line(&env.ctx, &q)) {
                Ok((ns, off, _, text)) => {
                    if ns != d_ns {
                        return fail(env, st, "rezoning-moved-the-instant", &q, format!("{} is {} ns, the instant was {} ns", text, ns, d_ns));
                    }
                    if off != secs {
                        return fail(env, st, "rezoning-wrong-offset", &q, format!("{} shows offset {} s, asked for {} s", text, off, secs));
                    }
                    Ok(())
                }
                Err(e) if e.starts_with("PANIC") => fail(env, st, &panic_signature(&e[7..]), &q, e),
                Err(e) => fail(env, st, "rezoning-refused", &q, e),
            }
        }
        Op::RezoneZone(z) => {
            let q = format!("{} -> \"{}\"", dtext, z);
            st.eval();
            st.class("rezone_named");
            st.nontrivial(&q);
            st.nt_sample(|| json!({"query": q}));
            match date_of(rinkx::eval_line(&env.ctx, &q)) {
                Ok((ns, off, _, text)) => {
                    // RFC 3339 shows offsets to the minute; before standard time zones had
                    // local-mean-time offsets with seconds, so allow < 60 s there
                    let exact_expected = c.d.y >= 1980;
                    let diff = (ns - d_ns).abs();
                    if (exact_expected && diff != 0) || diff >= 60_000_000_000 {
                        return fail(env, st, "rezoning-moved-the-instant", &q, format!("{} is {} ns, the instant was {} ns", text, ns, d_ns));
                    }
                    if off.abs() > 16 * 3600 {
                        return fail(env, st, "rezoning-implausible-offset", &q, text);
                    }
                    Ok(())
                }
                Err(e) if e.starts_with("PANIC") => fail(env, st, &panic_signature(&e[7..]), &q, e),
                Err(e) => fail(env, st, "rezoning-refused", &q, e),
            }
        }
    }
}

// ---------------------------------------------------------------------------

const ZONES: [&str; 10] = ["UTC", "US/Pacific", "Europe/London", "Asia/Tokyo", "Asia/Kolkata", "Australia/Lord_Howe", "America/St_Johns", "Pacific/Kiritimati", "America/Sao_Paulo", "Africa/Cairo"];
const UNITS: [&str; 10] = ["ns", "microsecond", "ms", "s", "second", "minute", "hour", "day", "week", "year"];

fn instant(allow_zone: bool) -> impl Strategy<Value = (Instant, u8)> {
    (
        prop_oneof![3 => 1970i32..2100, 2 => 1i32..=9999, 1 => proptest::sample::select(vec![1, 2, 1582, 1600, 1900, 2000, 2038, 9998, 9999])],
        1u32..=12,
        1u32..=31,
        (0u32..24, 0u32..60, 0u32..60),
        // (number of fraction digits, value in that unit)
        prop_oneof![3 => Just((0u8, 0u32)), 3 => (1u8..=9).prop_flat_map(|n| (Just(n), 0u32..10u32.pow(n as u32)))],
        prop_oneof![
            4 => Just(0i32),
            4 => (-23i32 * 60 - 59..=23 * 60 + 59),
            1 => proptest::sample::select(vec![330, 345, -210, 765, 840, -720, 1, -1, 1439, -1439]),
        ],
        if allow_zone {
            proptest::option::weighted(0.15, proptest::sample::select(ZONES.to_vec())).boxed()
        } else {
            Just(None).boxed()
        },
    )
        .prop_map(|(y, mo, d, (h, mi, s), (fd, fv), off, zone)| {
            let d = d.min(days_in_month(y, mo));
            let ns = if fd == 0 { 0 } else { fv * 10u32.pow(9 - fd as u32) };
            (
                Instant {
                    y,
                    mo,
                    d,
                    h,
                    mi,
                    s,
                    ns,
                    off_min: if zone.is_some() { 0 } else { off },
                    zone: zone.map(|z| z.to_string()),
                },
                fd,
            )
        })
}

fn k_strategy() -> impl Strategy<Value = i128> {
    let mag = prop_oneof![
        3 => proptest::sample::select(vec![1i128, 999, 1000, 1001, 999_999, 1_000_000, 1_000_001, 999_999_999, 1_000_000_000, 1_000_000_001, 500_000, 86_400_000_000_000, 9_200_000_000_000_000_000_000_000]),
        3 => (0u64..1_000_000_000_000).prop_map(|x| x as i128 + 1),
        2 => (any::<u64>(), 0u32..20).prop_map(|(x, s)| ((x as i128) << s) % 9_200_000_000_000_000_000_000_000 + 1),
    ];
    (mag, any::<bool>()).prop_map(|(m, neg)| if neg { -m } else { m })
}

pub fn case_strategy() -> impl Strategy<Value = Case> {
    let op = prop_oneof![
        3 => Just(Op::Literal),
        6 => (k_strategy(), proptest::sample::select(UNITS.to_vec())).prop_map(|(k, u)| Op::RoundTrip { k: k.to_string(), unit: u.to_string() }),
        2 => (instant(false), 0u8..8).prop_map(|((i, fd), p)| Op::Diff(i, p, fd)),
        1 => (instant(true), 0u8..8).prop_map(|((i, fd), p)| Op::Diff(i, p, fd)),
        3 => (any::<bool>(), prop_oneof![4 => 0u32..24, 1 => 24u32..100], 0u32..60).prop_map(|(neg, h, m)| Op::RezoneOffset { neg, h, m }),
        1 => proptest::sample::select(ZONES.to_vec()).prop_map(|z| Op::RezoneZone(z.to_string())),
    ];
    (instant(true), 0u8..8, op).prop_map(|((d, fd), pattern, op)| Case {
        d,
        pattern,
        frac_digits: fd,
        op,
    })
}

pub fn mk_env(known: BTreeSet<String>) -> Env {
    Env {
        ctx: rinkx::new_ctx(),
        known,
    }
}

/// literals of the remaining documented patterns (ISO week, `--month-day`) and literals whose
/// own fields are out of range: the fields that were written must not be silently dropped
#[derive(Clone, Debug, Serialize, Deserialize)]
pub struct EdgeLit {
    pub kind: u8,
    pub y: i32,
    pub mo: u32,
    pub d: u32,
    pub h: u32,
    pub mi: u32,
    pub ww: u32,
    pub off_h: u32,
    pub off_m: u32,
    pub with_time: bool,
    pub neg: bool,
}

fn edge_strategy() -> impl Strategy<Value = EdgeLit> {
    (0u8..8, 1600i32..2400, 1u32..=12, 1u32..=28, 0u32..24, 0u32..60, 1u32..=52, 24u32..100, 0u32..60, any::<bool>(), any::<bool>()).prop_map(
        |(kind, y, mo, d, h, mi, ww, off_h, off_m, with_time, neg)| EdgeLit { kind, y, mo, d, h, mi, ww, off_h, off_m, with_time, neg },
    )
}

/// (literal, acceptable instants in ns since the epoch)
pub fn edge_literal(c: &EdgeLit) -> (String, Vec<i128>) {
    const DAY: i128 = 86_400_000_000_000;
    const MIN: i128 = 60_000_000_000;
    let tod = |h: u32, mi: u32| (h as i128 * 60 + mi as i128) * MIN;
    let sign: i128 = if c.neg { -1 } else { 1 };
    let sg = if c.neg { "-" } else { "+" };
    match c.kind % 8 {
        5 => {
            // second 60: the second after :59
            let local = days_from_civil(c.y as i64, c.mo, c.d) as i128 * DAY + tod(c.h, c.mi) + 60_000_000_000;
            (format!("{:04}-{:02}-{:02} {:02}:{:02}:60", c.y, c.mo, c.d, c.h, c.mi), vec![local])
        }
        6 => {
            // arithmetic on such a literal: (d + 1 s) - d, answered in seconds (not an instant)
            let l = format!("{:04}-{:02}-{:02} {:02}:{:02}:60", c.y, c.mo, c.d, c.h, c.mi);
            (format!("{}# + {} s) - #{}", l, 1 + c.off_m, l), vec![(1 + c.off_m as i128) * 1_000_000_000])
        }
        7 => {
            // month name and day, no year, with a time: `monthname day[[','] year][ hour24:min...]`
            let day = days_from_civil(2016, c.mo, c.d) as i128 * DAY;
            // (the comma of the pattern belongs to the optional year, so none is written here)
            (format!("{} {} {:02}:{:02}", if c.neg { MON3[c.mo as usize - 1] } else { MONTHS[c.mo as usize - 1] }, c.d, c.h, c.mi), vec![day + tod(c.h, c.mi)])
        }
        0 => {
            // ISO week: the week's Monday (week 1 is the one with 4 January in it)
            let jan4 = days_from_civil(c.y as i64, 1, 4);
            let wd = (jan4 + 3).rem_euclid(7); // Monday = 0; 1970-01-01 was a Thursday
            let monday = jan4 - wd + 7 * (c.ww as i64 - 1);
            if c.with_time {
                (format!("{:04}-W{:02} {:02}:{:02}", c.y, c.ww, c.h, c.mi), vec![monday as i128 * DAY + tod(c.h, c.mi)])
            } else {
                (format!("{:04}-W{:02}", c.y, c.ww), vec![monday as i128 * DAY])
            }
        }
        1 => {
            // month and day of the current year (the clock is pinned in 2016)
            let day = days_from_civil(2016, c.mo, c.d) as i128 * DAY;
            if c.with_time {
                (format!("--{:02}-{:02} {:02}:{:02}", c.mo, c.d, c.h, c.mi), vec![day + tod(c.h, c.mi)])
            } else {
                (format!("--{:02}-{:02}", c.mo, c.d), vec![day])
            }
        }
        2 => {
            // an offset of 24 h or more on the literal itself
            let local = days_from_civil(c.y as i64, c.mo, c.d) as i128 * DAY + tod(c.h, c.mi);
            (
                format!("{:04}-{:02}-{:02} {:02}:{:02} {}{:02}:{:02}", c.y, c.mo, c.d, c.h, c.mi, sg, c.off_h, c.off_m),
                vec![local - sign * tod(c.off_h, c.off_m)],
            )
        }
        3 => {
            // minute 60
            let local = days_from_civil(c.y as i64, c.mo, c.d) as i128 * DAY + tod(c.h, 60);
            (format!("{:04}-{:02}-{:02} {:02}:60", c.y, c.mo, c.d, c.h), vec![local])
        }
        _ => {
            // compact offset whose minute part is 60..99
            let m = 60 + c.off_m % 40;
            let hh = c.off_h % 24;
            let local = days_from_civil(c.y as i64, c.mo, c.d) as i128 * DAY + tod(c.h, c.mi);
            (
                format!("{:04}-{:02}-{:02} {:02}:{:02} {}{:02}{:02}", c.y, c.mo, c.d, c.h, c.mi, sg, hh, m),
                vec![local - sign * tod(hh, m)],
            )
        }
    }
}

pub fn check_edge(env: &Env, c: &EdgeLit, st: &mut Stats) -> CaseResult {
    let (lit, accepted) = edge_literal(c);
    let kind = c.kind % 8;
    let text = if kind == 6 { format!("(#{}#", lit) } else { format!("#{}#", lit) };
    st.eval();
    st.class(
        [
            "edge_iso_week",
            "edge_month_day_without_year",
            "edge_literal_offset_24h_or_more",
            "edge_minute_60",
            "edge_compact_offset_minutes_60_99",
            "edge_second_60",
            "edge_second_60_arithmetic",
            "edge_month_name_without_year_with_time",
        ][kind as usize],
    );
    st.nontrivial(&text);
    if kind == 6 {
        // (d + t) - d = t, a number of seconds
        return match rinkx::eval_line(&env.ctx, &text) {
            Out::Panic(p) => fail(env, st, &panic_signature(&p), &text, format!("panicked: {}", p)),
            Out::Error(_) => {
                st.class("edge_refused");
                Ok(())
            }
            Out::Reply(r @ QueryReply::Number(_)) | Out::Reply(r @ QueryReply::Duration(_)) => {
                let raw = match &r {
                    QueryReply::Number(p) => p.raw_value.clone(),
                    QueryReply::Duration(d) => d.raw.raw_value.clone(),
                    _ => None,
                };
                let got = raw.as_ref().and_then(|r| rinkx::rational_of(&r.value)).map(|(a, b)| Q::new(a, b));
                let want = Q::new(BigInt::from(accepted[0] as i64), BigInt::from(1_000_000_000i64));
                match got {
                    Some(g) if g.eq_val(&want) => Ok(()),
                    other => fail(env, st, "add-then-subtract-drift", &text, format!("(d + t) - d = {:?} s, t = {} s", other.map(|q| q.to_string()), want.to_string())),
                }
            }
            other => fail(env, st, "literal-edge-other-reply", &text, other.describe()),
        };
    }
    match rinkx::eval_line(&env.ctx, &text) {
        Out::Panic(p) => fail(env, st, &panic_signature(&p), &text, format!("panicked: {}", p)),
        Out::Error(e) => {
            if kind == 7 {
                // a literal that follows a documented pattern and has every field in range
                return fail(env, st, "documented-pattern-refused", &text, format!("{}", e));
            }
            st.class("edge_refused");
            Ok(())
        }
        out => match date_of(out) {
            Ok((ns, _, _, shown)) => {
                if accepted.contains(&ns) {
                    st.class("edge_read_as_written");
                    Ok(())
                } else {
                    fail(
                        env,
                        st,
                        "literal-fields-silently-dropped",
                        &text,
                        format!("read as {} ({} ns since the epoch); what is written means {:?} ns (or should be refused)", shown, ns, accepted),
                    )
                }
            }
            Err(e) => fail(env, st, "literal-edge-other-reply", &text, e),
        },
    }
}

/// time-only literals with a named zone, read on days when that zone's clocks change: what
/// "today" is comes from the context's clock, so the clock is part of the case
#[derive(Clone, Debug, Serialize, Deserialize)]
pub struct ClockLit {
    pub now: u8,
    pub zone: u8,
    pub h: u32,
    pub mi: u32,
    pub sec: Option<u32>,
}

const CLOCKS: [&str; 12] = [
    "2021-11-07T12:00:00+00:00",
    "2021-03-14T12:00:00+00:00",
    "2021-10-31T00:30:00+00:00",
    "2021-03-28T00:30:00+00:00",
    "2021-04-04T00:00:00+00:00",
    "2021-10-03T00:00:00+00:00",
    "2018-11-04T12:00:00+00:00",
    "2018-02-18T12:00:00+00:00",
    "2016-08-02T19:33:19+00:00",
    "2021-11-07T08:30:00+00:00",
    "2021-03-14T09:59:59+00:00",
    "1999-12-31T23:59:59+00:00",
];
const CLOCK_ZONES: [&str; 10] = [
    "US/Pacific", "America/New_York", "Europe/London", "Europe/Paris", "Australia/Sydney", "America/Sao_Paulo", "Asia/Tokyo", "UTC", "Australia/Lord_Howe", "America/St_Johns",
];

pub struct ClockEnv {
    pub ctx: std::cell::RefCell<Context>,
    pub known: BTreeSet<String>,
}

pub fn check_clock(env: &ClockEnv, c: &ClockLit, st: &mut Stats) -> CaseResult {
    use chrono::DateTime;
    let now = CLOCKS[c.now as usize % CLOCKS.len()];
    let zone = CLOCK_ZONES[c.zone as usize % CLOCK_ZONES.len()];
    let text = match c.sec {
        Some(s) => format!("#{:02}:{:02}:{:02} {}#", c.h, c.mi, s, zone),
        None => format!("#{:02}:{:02} {}#", c.h, c.mi, zone),
    };
    let shown_case = format!("{} (clock {})", text, now);
    st.eval();
    st.class("time_only_zoned_literal_on_a_chosen_day");
    st.nontrivial(&shown_case);
    let mut ctx = env.ctx.borrow_mut();
    let t = DateTime::parse_from_rfc3339(now).map_err(|e| format!("[infrastructure] {}", e))?;
    ctx.set_time(t.into());
    let out = rinkx::eval_line(&ctx, &text);
    let known = |st: &mut Stats, sig: &str, detail: String| -> CaseResult {
        if env.known.contains(sig) {
            st.known(sig, &shown_case);
            Ok(())
        } else {
            Err(format!("[{}] `{}`: {}", sig, shown_case, detail))
        }
    };
    match out {
        Out::Panic(p) => known(st, &panic_signature(&p), format!("panicked: {}", p)),
        Out::Error(_) => {
            st.class("clock_literal_refused");
            Ok(())
        }
        out => match date_of(out) {
            Ok((_, _, f, shown)) => {
                // the wall-clock time of the reply is the one that was written
                if f.3 != c.h || f.4 != c.mi || f.5 != c.sec.unwrap_or(0) {
                    return known(st, "time-only-literal-wrong-wall-clock", format!("read as {}", shown));
                }
                st.class("clock_literal_read");
                Ok(())
            }
            Err(e) => known(st, "clock-literal-other-reply", e),
        },
    }
}

pub fn run(cx: &Cx) -> Report {
    let mut rep = Report::new(RULE);
    rep.assumptions = vec![
        "`now` is pinned; a literal without an offset is read as UTC (what the reply's rfc3339 shows)".into(),
        "named zones have no independent oracle here: for zoned literals the wall-clock fields must be the ones written, and re-zoning must keep the instant".into(),
        "results outside years 1..9999 are checked for totality only".into(),
        "a literal whose own fields are out of range (offset of 24 h or more, minute 60) may be refused or read as written, but must not be read as something else (phase literal-edges)".into(),
    ];
    let known = cx.known.clone();
    crate::regress::run(cx, &mut rep, &replay);
    let k = known.clone();
    rep.absorb(par_proptest(
        cx,
        "random",
        cx.tier.pick(500_000, 6_000_000),
        case_strategy,
        move || mk_env(k.clone()),
        |env, c, st| check(env, c, st),
        |c| serde_json::to_value(c).unwrap(),
    ));
    rep.mark(cx, "random");
    let k = known.clone();
    rep.absorb(par_proptest(
        cx,
        "literal-edges",
        cx.tier.pick(20_000, 400_000),
        edge_strategy,
        move || mk_env(k.clone()),
        |env, c, st| check_edge(env, c, st),
        |c| json!({"edge": c}),
    ));
    rep.mark(cx, "literal-edges");
    let k = known.clone();
    rep.absorb(par_proptest(
        cx,
        "clock-dependent-literals",
        cx.tier.pick(12_000, 300_000),
        || {
            (0u8..CLOCKS.len() as u8, 0u8..CLOCK_ZONES.len() as u8, prop_oneof![3 => 0u32..4, 1 => 0u32..24], 0u32..60, proptest::option::weighted(0.3, 0u32..60))
                .prop_map(|(now, zone, h, mi, sec)| ClockLit { now, zone, h, mi, sec })
        },
        move || ClockEnv { ctx: std::cell::RefCell::new(rinkx::new_ctx()), known: k.clone() },
        |env, c, st| check_clock(env, c, st),
        |c| json!({"clock": c}),
    ));
    rep.mark(cx, "clock-dependent-literals");
    // the other direction of the subtraction: a duration minus an instant is no instant (and no
    // duration). rink refuses `-#d#` and `#d# + #d#`; `t - d` has to be refused with them
    {
        let mut items: Vec<String> = vec![];
        let dates = ["#2020-01-01#", "#2020-02-29 12:00:00 +05:30#", "#1999-12-31 23:59:59.999999999#", "#2020-07-01 12:00:00 Europe/Berlin#", "now", "#0001-01-01#", "#9999-12-31#"];
        let amounts = ["1", "0", "-3", "1|3", "86400", "1e9", "0.5", "2.25"];
        let units = ["s", "ns", "ms", "minute", "hour", "day", "week", "year", "century", ""];
        for d in dates {
            for a in amounts {
                for u in units {
                    items.push(format!("{} {} - {}", a, u, d));
                }
            }
            items.push(format!("(1 s + 1 s) - {}", d));
            items.push(format!("1 s - ({} + 1 s)", d));
            items.push(format!("3 m - {}", d));
        }
        let k = known.clone();
        rep.absorb(par_sweep(
            cx,
            "number-minus-date",
            items,
            move || mk_env(k.clone()),
            |env, text, st| check_number_minus_date(env, text, st),
            |text| json!({"number_minus_date": text}),
        ));
        rep.mark(cx, "number-minus-date");
    }
    rep
}

pub fn check_number_minus_date(env: &Env, text: &String, st: &mut Stats) -> CaseResult {
    st.eval();
    st.class("number_minus_date");
    st.nontrivial(text);
    match rinkx::eval_line(&env.ctx, text) {
        Out::Panic(p) => fail(env, st, &panic_signature(&p), text, format!("panicked: {}", p)),
        Out::Error(_) => Ok(()),
        Out::Reply(r) => fail(
            env,
            st,
            "number-minus-date-accepted",
            text,
            format!("a number minus a date was answered (as if it were the date minus the number): {}", r),
        ),
    }
}

pub fn replay(cx: &Cx, _phase: &str, case: &J, st: &mut Stats) -> CaseResult {
    let env = mk_env(cx.known.clone());
    if let Some(t) = case.get("number_minus_date").and_then(|t| t.as_str()) {
        return check_number_minus_date(&env, &t.to_string(), st);
    }
    if case.get("clock").is_some() {
        let c: ClockLit = serde_json::from_value(case["clock"].clone()).map_err(|e| format!("bad case: {}", e))?;
        let env = ClockEnv { ctx: std::cell::RefCell::new(rinkx::new_ctx()), known: cx.known.clone() };
        return check_clock(&env, &c, st);
    }
    if case.get("edge").is_some() {
        let c: EdgeLit = serde_json::from_value(case["edge"].clone()).map_err(|e| format!("bad case: {}", e))?;
        return check_edge(&env, &c, st);
    }
    let c: Case = serde_json::from_value(case.clone()).map_err(|e| format!("bad case: {}", e))?;
    check(&env, &c, st)
}
