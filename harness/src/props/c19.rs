//! C19 — sandbox allocator accounting.
//!
//! Code under test: `rink_sandbox::Alloc` (/repo/sandbox/src/alloc.rs), observed only through
//! its public surface: the four `GlobalAlloc` methods called on a *private* `Alloc::new(limit)`
//! instance (never installed as the global allocator), `set_limit`, `reset_max`, `get_max`.
//!
//! Three phases:
//!  * `exhaustive`: every operation sequence of length 0..=L over a boundary alphabet, each run
//!    in two observation modes, against a reference model (live blocks, used, peak since reset);
//!  * `random`: long model-based sequences from a proptest strategy;
//!  * `threads`: barrier-released rounds from 2, 4, 8, 16 threads with only assertions that hold
//!    under every interleaving for a correct allocator (lower-bound counter argument) plus exact
//!    checks at quiescent points.

use crate::engine::*;
use proptest::prelude::*;
use proptest::strategy::ValueTree;
use proptest::test_runner::{Config, RngAlgorithm, TestRng, TestRunner};
use rink_sandbox::Alloc;
use serde_derive::{Deserialize, Serialize};
use serde_json::{json, Value as J};
use std::alloc::{GlobalAlloc, Layout};
use std::collections::BTreeSet;
use std::sync::atomic::{AtomicBool, AtomicU64, AtomicUsize, Ordering};
use std::sync::{Arc, Mutex};

pub const RULE: &str = "cases = (initial limit, observation mode, operation sequence over alloc / alloc_zeroed / \
realloc(slot) / dealloc(slot) / read_usage (reset_max+get_max) / read_peak (get_max) / set_limit) executed on a private \
Alloc::new(limit) and on a reference model; exhaustive phase = every sequence of length 0..=L over the boundary size \
alphabet {1, 64, limit/2, limit-1, limit, limit+1} for limits 4096 and 2^20 and {1, 64, 2^60, isize::MAX-7} for \
limit usize::MAX (slots = every live block), random phase = sequences of up to 400 operations, thread phase = \
barrier-released rounds of bursts from 2/4/8/16 threads. Non-trivial sequence = distinct (limit, ops) in which a \
request is refused after at least one earlier success, or in which a realloc is executed on a live block; non-trivial \
thread round = distinct (threads, round spec) in a round where at least one request succeeded and at least one was \
refused.";

pub const SIG_F21: &str = "peak-below-usage-after-realloc";

const ALIGN: usize = 8;
const HUGE_A: usize = 1 << 60;
const HUGE_B: usize = (isize::MAX as usize) - 7;
/// a request of at least this size can only fail in the parent allocator (x86-64 user space is 2^47)
const PARENT_REFUSES_FROM: usize = 1 << 48;
/// blocks up to this size are filled and verified completely, larger ones at sampled offsets
const FULL_FILL: usize = 8192;
const EDGE: usize = 256;
const STRIDE: usize = 65536;

// ---------------------------------------------------------------------------
// cases
// ---------------------------------------------------------------------------

#[derive(Clone, Debug, Serialize, Deserialize, PartialEq, Eq, Hash)]
#[serde(tag = "op", rename_all = "snake_case")]
pub enum Op {
    Alloc { size: usize },
    AllocZeroed { size: usize },
    /// `slot` addresses the min(slot, live-1)-th live block (allocation order); no-op without live blocks
    Realloc { slot: usize, new_size: usize },
    Dealloc { slot: usize },
    /// reset_max(); get_max()  — the only way to read the usage counter
    ReadUsage,
    /// get_max()
    ReadPeak,
    SetLimit { limit: usize },
}

#[derive(Clone, Debug, Serialize, Deserialize, PartialEq, Eq, Hash)]
pub struct Case {
    pub limit: usize,
    /// true: after every operation check the peak, then read the usage back (which resets the
    /// peak); false: after every operation only the side-effect-free `get_max() >= model peak`,
    /// usage is read back only where the sequence says so and at the end.
    pub probe_every: bool,
    pub ops: Vec<Op>,
}

fn short_op(o: &Op) -> String {
    match o {
        Op::Alloc { size } => format!("alloc {}", size),
        Op::AllocZeroed { size } => format!("alloc_zeroed {}", size),
        Op::Realloc { slot, new_size } => format!("realloc #{} -> {}", slot, new_size),
        Op::Dealloc { slot } => format!("dealloc #{}", slot),
        Op::ReadUsage => "read_usage".into(),
        Op::ReadPeak => "read_peak".into(),
        Op::SetLimit { limit } => format!("set_limit {}", limit),
    }
}

fn short_case(c: &Case) -> String {
    let ops: Vec<String> = c.ops.iter().map(short_op).collect();
    format!("limit {}: {}", c.limit, ops.join("; "))
}

// ---------------------------------------------------------------------------
// block contents
// ---------------------------------------------------------------------------

#[inline]
fn pat(seed: u8, i: usize) -> u8 {
    (seed as usize)
        .wrapping_add(i.wrapping_mul(131))
        .wrapping_add(i >> 8) as u8
}

/// visit the checked offsets of a block of `size` bytes that are < cap
#[inline]
fn positions(size: usize, cap: usize, mut f: impl FnMut(usize) -> bool) -> bool {
    let cap = cap.min(size);
    if size <= FULL_FILL {
        for i in 0..cap {
            if !f(i) {
                return false;
            }
        }
        return true;
    }
    for i in 0..EDGE.min(cap) {
        if !f(i) {
            return false;
        }
    }
    let mut i = STRIDE;
    while i < cap && i < size - EDGE {
        if !f(i) {
            return false;
        }
        i += STRIDE;
    }
    for i in (size - EDGE)..size {
        if i < cap && !f(i) {
            return false;
        }
    }
    true
}

unsafe fn fill(p: *mut u8, size: usize, seed: u8) {
    positions(size, size, |i| {
        *p.add(i) = pat(seed, i);
        true
    });
}

/// the first `cap` bytes of a block that was filled as a block of `size` bytes still hold the pattern
unsafe fn intact(p: *const u8, size: usize, cap: usize, seed: u8) -> bool {
    positions(size, cap, |i| *p.add(i) == pat(seed, i))
}

unsafe fn all_zero(p: *const u8, size: usize) -> bool {
    positions(size, size, |i| *p.add(i) == 0)
}


// ---------------------------------------------------------------------------
// cheap class counters (Stats::class allocates a String per call; the exhaustive phase executes
// billions of operations), flushed into Stats per case (random phase) or per worker (exhaustive)
// ---------------------------------------------------------------------------

macro_rules! counters {
    ($($id:ident => $name:expr),* $(,)?) => {
        #[allow(non_camel_case_types, dead_code)]
        #[derive(Clone, Copy)]
        #[repr(usize)]
        enum K { $($id),*, N_ }
        const NAMES: [&str; K::N_ as usize] = [$($name),*];
    };
}

counters! {
    AllocOk => "alloc_ok",
    AllocRefused => "alloc_refused",
    ZeroedOk => "alloc_zeroed_ok",
    ZeroedRefused => "alloc_zeroed_refused",
    ParentFailAlloc => "parent_allocator_failure(alloc within limit, system allocator refused)",
    AllocRefusedFits => "alloc_refused_though_it_fits(allowed: property is one-directional)",
    HugeServed => "huge_request_unexpectedly_served(not tracked)",
    SlotNoop => "slot_op_without_live_block(no-op)",
    ReallocRefused => "realloc_refused",
    ParentFailRealloc => "parent_allocator_failure(realloc within limit, system allocator refused)",
    ReallocRefusedFits => "realloc_refused_though_result_fits(stricter old+new<=limit test; allowed)",
    ReallocUp => "realloc_up_ok",
    ReallocDown => "realloc_down_ok",
    ReallocSame => "realloc_same_ok",
    Dealloc => "dealloc",
    ReadUsage => "read_usage",
    ReadPeak => "read_peak",
    SetLimit => "set_limit",
    SetLimitBelow => "set_limit_below_usage",
    SeqSuccess => "seq_with_success",
    SeqRefusal => "seq_with_refusal",
    SeqRefAfterSucc => "seq_refusal_after_success",
    SeqRealloc => "seq_with_realloc",
    OpsOk => "ops_succeeded",
    OpsRefused => "ops_refused",
    ExhSeq => "exhaustive_sequences(distinct by construction)",
    ExhNt => "exhaustive_nontrivial_sequences(distinct by construction)",
    Violating => "violating_sequences",
    BadLayout => "size is not a valid Layout (> isize::MAX after rounding): op skipped",
}

pub struct Ctr([u64; K::N_ as usize]);

impl Ctr {
    pub fn new() -> Ctr {
        Ctr([0; K::N_ as usize])
    }
    #[inline]
    fn add(&mut self, k: K) {
        self.0[k as usize] += 1;
    }
    #[inline]
    fn add_n(&mut self, k: K, n: u64) {
        self.0[k as usize] += n;
    }
    pub fn flush(&mut self, st: &mut Stats) {
        for (i, c) in self.0.iter_mut().enumerate() {
            if *c > 0 && !st.frozen {
                if i == K::BadLayout as usize {
                    *st.excluded.entry(NAMES[i].to_string()).or_insert(0) += *c;
                } else {
                    st.class_n(NAMES[i], *c);
                }
            }
            *c = 0;
        }
    }
}

// ---------------------------------------------------------------------------
// interpreter + reference model
// ---------------------------------------------------------------------------

struct Block {
    ptr: *mut u8,
    size: usize,
    seed: u8,
}

#[derive(Clone, Copy, PartialEq, Eq, Debug)]
enum PeakSrc {
    Reset,
    Alloc,
    Realloc,
}

struct Fail {
    sig: &'static str,
    detail: String,
}

#[derive(Default, Clone, Debug)]
pub struct Outcome {
    pub live: usize,
    pub successes: u64,
    pub refusals: u64,
    pub refusal_after_success: bool,
    pub reallocs: u64,
}

struct Machine {
    a: Alloc,
    live: Vec<Block>,
    // reference model
    used: usize,
    limit: usize,
    /// largest model usage since the last reset_max
    peak: usize,
    /// what `max` holds if only alloc/alloc_zeroed/reset_max ever update it (shape of F-21)
    peak_noreal: usize,
    peak_src: PeakSrc,
    next_seed: u8,
}

impl Drop for Machine {
    fn drop(&mut self) {
        for b in self.live.drain(..) {
            unsafe { self.a.dealloc(b.ptr, Layout::from_size_align_unchecked(b.size, ALIGN)) }
        }
    }
}

fn layout(size: usize) -> Option<Layout> {
    Layout::from_size_align(size.max(1), ALIGN).ok()
}

impl Machine {
    fn new(limit: usize) -> Machine {
        Machine {
            a: Alloc::new(limit),
            live: vec![],
            used: 0,
            limit,
            peak: 0,
            peak_noreal: 0,
            peak_src: PeakSrc::Reset,
            next_seed: 1,
        }
    }

    fn seed(&mut self) -> u8 {
        self.next_seed = self.next_seed.wrapping_mul(5).wrapping_add(17);
        self.next_seed
    }

    fn raise_peak(&mut self, src: PeakSrc) {
        if self.used > self.peak {
            self.peak = self.used;
            self.peak_src = src;
        }
        if src == PeakSrc::Alloc && self.used > self.peak_noreal {
            self.peak_noreal = self.used;
        }
    }

    fn check_peak(&self) -> Result<(), Fail> {
        let got = self.a.get_max();
        if got >= self.peak {
            return Ok(());
        }
        let detail = format!(
            "get_max() = {} but the usage reached {} since the last reset_max() (peak established by {:?}; \
             peak counting only allocs/resets would be {})",
            got, self.peak, self.peak_src, self.peak_noreal
        );
        if self.peak_src == PeakSrc::Realloc && got >= self.peak_noreal {
            Err(Fail { sig: SIG_F21, detail })
        } else {
            Err(Fail {
                sig: "peak-below-model",
                detail,
            })
        }
    }

    fn check_usage(&mut self, why: &str) -> Result<(), Fail> {
        self.a.reset_max();
        let got = self.a.get_max();
        self.peak = self.used;
        self.peak_noreal = self.used;
        self.peak_src = PeakSrc::Reset;
        if got != self.used {
            return Err(Fail {
                sig: "usage-mismatch",
                detail: format!(
                    "{}: tracked usage read back as {} but live allocations total {} ({} blocks)",
                    why,
                    got,
                    self.used,
                    self.live.len()
                ),
            });
        }
        Ok(())
    }

    fn slot(&self, slot: usize) -> Option<usize> {
        if self.live.is_empty() {
            None
        } else {
            Some(slot.min(self.live.len() - 1))
        }
    }

    /// apply one operation; statistics go to `st`, counters to `out`
    fn step(&mut self, op: &Op, ct: &mut Ctr, out: &mut Outcome) -> Result<(), Fail> {
        match *op {
            Op::Alloc { size } | Op::AllocZeroed { size } => {
                let zeroed = matches!(op, Op::AllocZeroed { .. });
                let size = size.max(1);
                let l = match layout(size) {
                    Some(l) => l,
                    None => {
                        ct.add(K::BadLayout);
                        return Ok(());
                    }
                };
                let fits = self.used.checked_add(size).map(|u| u <= self.limit).unwrap_or(false);
                let p = unsafe {
                    if zeroed {
                        self.a.alloc_zeroed(l)
                    } else {
                        self.a.alloc(l)
                    }
                };
                if p.is_null() {
                    out.refusals += 1;
                    if out.successes > 0 {
                        out.refusal_after_success = true;
                    }
                    ct.add(if zeroed { K::ZeroedRefused } else { K::AllocRefused });
                    if fits {
                        if size >= PARENT_REFUSES_FROM {
                            ct.add(K::ParentFailAlloc);
                        } else {
                            ct.add(K::AllocRefusedFits);
                        }
                    }
                    return Ok(());
                }
                if size >= PARENT_REFUSES_FROM {
                    // cannot happen on x86-64; do not touch or keep such a block
                    unsafe { self.a.dealloc(p, l) };
                    ct.add(K::HugeServed);
                    return Ok(());
                }
                // from here on the block is tracked (and freed by Drop)
                let seed = self.seed();
                self.live.push(Block { ptr: p, size, seed });
                self.used += size;
                self.raise_peak(PeakSrc::Alloc);
                out.successes += 1;
                ct.add(if zeroed { K::ZeroedOk } else { K::AllocOk });
                if !fits {
                    return Err(Fail {
                        sig: "success-over-limit",
                        detail: format!(
                            "{} of {} bytes succeeded although usage {} + {} exceeds the limit {}",
                            if zeroed { "alloc_zeroed" } else { "alloc" },
                            size,
                            self.used - size,
                            size,
                            self.limit
                        ),
                    });
                }
                if (p as usize) % ALIGN != 0 {
                    return Err(Fail {
                        sig: "misaligned-block",
                        detail: format!("block {:p} is not aligned to {}", p, ALIGN),
                    });
                }
                if zeroed && !unsafe { all_zero(p, size) } {
                    return Err(Fail {
                        sig: "zeroed-not-zero",
                        detail: format!("alloc_zeroed({}) returned memory that is not all zero", size),
                    });
                }
                unsafe { fill(p, size, seed) };
                Ok(())
            }
            Op::Realloc { slot, new_size } => {
                let i = match self.slot(slot) {
                    Some(i) => i,
                    None => {
                        ct.add(K::SlotNoop);
                        return Ok(());
                    }
                };
                let new_size = new_size.max(1);
                if layout(new_size).is_none() {
                    ct.add(K::BadLayout);
                    return Ok(());
                }
                let (old_ptr, old_size, seed) = (self.live[i].ptr, self.live[i].size, self.live[i].seed);
                if !unsafe { intact(old_ptr, old_size, old_size, seed) } {
                    return Err(Fail {
                        sig: "block-contents-changed",
                        detail: format!("live block #{} ({} bytes) lost its fill pattern before realloc", i, old_size),
                    });
                }
                out.reallocs += 1;
                let after = (self.used - old_size).checked_add(new_size);
                let fits = after.map(|u| u <= self.limit).unwrap_or(false);
                let old_layout = unsafe { Layout::from_size_align_unchecked(old_size, ALIGN) };
                let q = unsafe { self.a.realloc(old_ptr, old_layout, new_size) };
                if q.is_null() {
                    out.refusals += 1;
                    if out.successes > 0 {
                        out.refusal_after_success = true;
                    }
                    ct.add(K::ReallocRefused);
                    if fits {
                        if new_size >= PARENT_REFUSES_FROM {
                            ct.add(K::ParentFailRealloc);
                        } else {
                            ct.add(K::ReallocRefusedFits);
                        }
                    }
                    if !unsafe { intact(old_ptr, old_size, old_size, seed) } {
                        return Err(Fail {
                            sig: "refusal-clobbered-block",
                            detail: format!(
                                "realloc {} -> {} was refused but the original block no longer holds its contents",
                                old_size, new_size
                            ),
                        });
                    }
                    return Ok(());
                }
                if new_size >= PARENT_REFUSES_FROM {
                    // cannot happen; keep the books straight without touching the tail
                    self.live[i].ptr = q;
                    self.live[i].size = new_size;
                    self.used = after.unwrap_or(usize::MAX);
                    ct.add(K::HugeServed);
                    return Ok(());
                }
                self.live[i].ptr = q;
                self.live[i].size = new_size;
                self.used = self.used - old_size + new_size;
                self.raise_peak(PeakSrc::Realloc);
                out.successes += 1;
                ct.add(if new_size > old_size {
                    K::ReallocUp
                } else if new_size < old_size {
                    K::ReallocDown
                } else {
                    K::ReallocSame
                });
                let kept = old_size.min(new_size);
                let kept_ok = unsafe { intact(q, old_size, kept, seed) };
                unsafe { fill(q, new_size, seed) };
                if !fits {
                    return Err(Fail {
                        sig: "success-over-limit",
                        detail: format!(
                            "realloc {} -> {} succeeded although the resulting usage {} exceeds the limit {}",
                            old_size, new_size, self.used, self.limit
                        ),
                    });
                }
                if (q as usize) % ALIGN != 0 {
                    return Err(Fail {
                        sig: "misaligned-block",
                        detail: format!("block {:p} is not aligned to {}", q, ALIGN),
                    });
                }
                if !kept_ok {
                    return Err(Fail {
                        sig: "realloc-lost-contents",
                        detail: format!(
                            "realloc {} -> {}: the first {} bytes were not preserved",
                            old_size, new_size, kept
                        ),
                    });
                }
                Ok(())
            }
            Op::Dealloc { slot } => {
                let i = match self.slot(slot) {
                    Some(i) => i,
                    None => {
                        ct.add(K::SlotNoop);
                        return Ok(());
                    }
                };
                let b = self.live.remove(i);
                let ok = unsafe { intact(b.ptr, b.size, b.size, b.seed) };
                unsafe { self.a.dealloc(b.ptr, Layout::from_size_align_unchecked(b.size, ALIGN)) };
                self.used -= b.size;
                ct.add(K::Dealloc);
                if !ok {
                    return Err(Fail {
                        sig: "block-contents-changed",
                        detail: format!("live block #{} ({} bytes) lost its fill pattern before dealloc", i, b.size),
                    });
                }
                Ok(())
            }
            Op::ReadUsage => {
                ct.add(K::ReadUsage);
                self.check_usage("read_usage")
            }
            Op::ReadPeak => {
                ct.add(K::ReadPeak);
                self.check_peak()
            }
            Op::SetLimit { limit } => {
                self.a.set_limit(limit);
                self.limit = limit;
                ct.add(if limit < self.used { K::SetLimitBelow } else { K::SetLimit });
                Ok(())
            }
        }
    }
}

pub struct Env {
    pub known: BTreeSet<String>,
}

thread_local! {
    /// shortest example of the known finding seen by this thread (length, text)
    static TL_BEST: std::cell::RefCell<Option<(usize, String)>> = std::cell::RefCell::new(None);
}
static BEST_KNOWN: Mutex<Option<(usize, String)>> = Mutex::new(None);

fn note_known_example(case: &Case, upto: usize) {
    let len = (upto + 1).min(case.ops.len());
    let better = TL_BEST.with(|b| match &*b.borrow() {
        Some((l, _)) => len < *l,
        None => true,
    });
    if !better {
        return;
    }
    let text = short_case(&Case {
        ops: case.ops[..len].to_vec(),
        ..case.clone()
    });
    TL_BEST.with(|b| *b.borrow_mut() = Some((len, text.clone())));
    let mut g = BEST_KNOWN.lock().unwrap();
    let replace = match &*g {
        Some((l, t)) => (len, text.len(), &text) < (*l, t.len(), t),
        None => true,
    };
    if replace {
        *g = Some((len, text));
    }
}

/// Execute one case with all checks. Ok(outcome) also when only listed known findings were seen.
pub fn run_case(env: &Env, case: &Case, st: &mut Stats, ct: &mut Ctr, sample: bool) -> Result<Outcome, String> {
    let mut m = Machine::new(case.limit);
    let mut out = Outcome::default();
    let mut known_seen = false;
    st.eval();
    // a failure is either a listed known finding (recorded once per case, execution goes on) or a violation
    macro_rules! settle {
        ($r:expr, $i:expr, $what:expr) => {
            if let Err(f) = $r {
                if env.known.contains(f.sig) {
                    if !known_seen {
                        known_seen = true;
                        if st.known.contains_key(f.sig) {
                            st.known(f.sig, "");
                        } else {
                            st.known(f.sig, &short_case(case));
                        }
                        note_known_example(case, $i);
                    }
                } else {
                    return Err(format!(
                        "[{}] {} (op #{} {}; mode {}): {}",
                        f.sig,
                        short_case(case),
                        $i,
                        $what,
                        if case.probe_every { "probe-every-op" } else { "explicit-reads" },
                        f.detail
                    ));
                }
            }
        };
    }
    for (i, op) in case.ops.iter().enumerate() {
        let r = m.step(op, ct, &mut out);
        settle!(r, i, short_op(op));
        // after every operation
        let r = m.check_peak();
        settle!(r, i, format!("{} / peak check after it", short_op(op)));
        if case.probe_every {
            let r = m.check_usage("after the operation");
            settle!(r, i, format!("{} / usage read-back after it", short_op(op)));
        }
    }
    out.live = m.live.len();
    let n = case.ops.len();
    let r = m.check_usage("at the end of the sequence");
    settle!(r, n, "end / usage read-back".to_string());
    // free everything: usage must return to 0 and every block must still hold its contents
    while let Some(b) = m.live.pop() {
        let ok = unsafe { intact(b.ptr, b.size, b.size, b.seed) };
        unsafe { m.a.dealloc(b.ptr, Layout::from_size_align_unchecked(b.size, ALIGN)) };
        m.used -= b.size;
        if !ok {
            let r: Result<(), Fail> = Err(Fail {
                sig: "block-contents-changed",
                detail: format!("a live block of {} bytes lost its fill pattern", b.size),
            });
            settle!(r, n, "end / final free".to_string());
        }
    }
    let r = m.check_usage("after freeing every block");
    settle!(r, n, "end / usage after freeing everything".to_string());

    // coverage bookkeeping
    if out.successes > 0 {
        ct.add(K::SeqSuccess);
    }
    if out.refusals > 0 {
        ct.add(K::SeqRefusal);
    }
    ct.add_n(K::OpsOk, out.successes);
    ct.add_n(K::OpsRefused, out.refusals);
    if out.refusal_after_success {
        ct.add(K::SeqRefAfterSucc);
    }
    if out.reallocs > 0 {
        ct.add(K::SeqRealloc);
    }
    if sample {
        if is_nontrivial(&out) {
            st.nt_sample(|| serde_json::to_value(case).unwrap());
        } else {
            st.sample(|| serde_json::to_value(case).unwrap());
        }
    }
    let _ = known_seen;
    Ok(out)
}

fn is_nontrivial(o: &Outcome) -> bool {
    o.refusal_after_success || o.reallocs > 0
}

// ---------------------------------------------------------------------------
// phase (a): bounded-exhaustive
// ---------------------------------------------------------------------------

#[derive(Clone, Debug)]
struct Cfg {
    limit: usize,
    sizes: Vec<usize>,
    limits: Vec<usize>,
    depth: usize,
}

fn configs(tier: Tier) -> Vec<Cfg> {
    let mut v = vec![];
    for (limit, depth) in [
        (4096usize, tier.pick(4usize, 6)),
        (1usize << 20, tier.pick(4usize, 5)),
    ] {
        v.push(Cfg {
            limit,
            sizes: vec![1, 64, limit / 2, limit - 1, limit, limit + 1],
            limits: vec![64, limit + 1],
            depth,
        });
    }
    v.push(Cfg {
        limit: usize::MAX,
        sizes: vec![1, 64, HUGE_A, HUGE_B],
        limits: vec![64, usize::MAX],
        depth: tier.pick(4usize, 5),
    });
    v
}

fn alphabet(cfg: &Cfg, live: usize) -> Vec<Op> {
    let mut v = vec![];
    for &size in &cfg.sizes {
        v.push(Op::Alloc { size });
    }
    for &size in &cfg.sizes {
        v.push(Op::AllocZeroed { size });
    }
    for slot in 0..live {
        for &new_size in &cfg.sizes {
            v.push(Op::Realloc { slot, new_size });
        }
    }
    for slot in 0..live {
        v.push(Op::Dealloc { slot });
    }
    v.push(Op::ReadUsage);
    v.push(Op::ReadPeak);
    for &limit in &cfg.limits {
        v.push(Op::SetLimit { limit });
    }
    v
}

/// cap on hash-set entries per shard; beyond it non-trivial sequences are only counted in a class
const NT_CAP: usize = 200_000;

struct Dfs<'a> {
    env: &'a Env,
    cfg: &'a Cfg,
    st: &'a mut Stats,
    ct: &'a mut Ctr,
    viols: &'a mut Vec<Violation>,
    nt_recorded: usize,
    seen: u64,
}

impl<'a> Dfs<'a> {
    /// run `ops` in both modes; returns the number of live blocks at the end of the sequence
    fn eval(&mut self, ops: &[Op]) -> Option<usize> {
        let mut live = None;
        for probe_every in [false, true] {
            let case = Case {
                limit: self.cfg.limit,
                probe_every,
                ops: ops.to_vec(),
            };
            // samples for the evidence file: a thin, spread-out selection
            self.seen += 1;
            let sample = !probe_every && self.seen % 8191 == 1;
            match run_case(self.env, &case, self.st, self.ct, sample) {
                Ok(o) => {
                    if !probe_every {
                        self.ct.add(K::ExhSeq);
                        if is_nontrivial(&o) {
                            self.ct.add(K::ExhNt);
                            if self.nt_recorded < NT_CAP {
                                self.nt_recorded += 1;
                                self.st.nontrivial(&(case.limit, &case.ops));
                            }
                        }
                    }
                    live = Some(o.live);
                }
                Err(detail) => {
                    self.ct.add(K::Violating);
                    // keep the three shortest failing sequences of this worker
                    let v = Violation {
                        phase: "sequence".into(),
                        case: serde_json::to_value(&case).unwrap(),
                        detail,
                    };
                    let len_of = |v: &Violation| v.case["ops"].as_array().map(|a| a.len()).unwrap_or(0);
                    if self.viols.len() < 3 {
                        self.viols.push(v);
                    } else if let Some(worst) = (0..self.viols.len()).max_by_key(|i| len_of(&self.viols[*i])) {
                        if len_of(&v) < len_of(&self.viols[worst]) {
                            self.viols[worst] = v;
                        }
                    }
                    return None; // do not extend a failing sequence
                }
            }
        }
        live
    }

    fn go(&mut self, ops: &mut Vec<Op>) {
        let live = match self.eval(ops) {
            Some(l) => l,
            None => return,
        };
        if ops.len() >= self.cfg.depth {
            return;
        }
        for op in alphabet(self.cfg, live) {
            ops.push(op);
            self.go(ops);
            ops.pop();
        }
    }
}

/// sequences of length 0 and 1 are evaluated here; the length-2 sequences are returned as work items
fn prefixes(env: &Env, cfg: &Cfg, st: &mut Stats, viols: &mut Vec<Violation>) -> Vec<Vec<Op>> {
    let mut ct = Ctr::new();
    let items = prefixes_inner(env, cfg, st, &mut ct, viols);
    ct.flush(st);
    items
}

fn prefixes_inner(env: &Env, cfg: &Cfg, st: &mut Stats, ct: &mut Ctr, viols: &mut Vec<Violation>) -> Vec<Vec<Op>> {
    let mut items = vec![];
    let mut d = Dfs {
        env,
        cfg,
        st,
        ct,
        viols,
        nt_recorded: 0,
        seen: 0,
    };
    let live0 = match d.eval(&[]) {
        Some(l) => l,
        None => return items,
    };
    if cfg.depth == 0 {
        return items;
    }
    for op in alphabet(cfg, live0) {
        let seq = vec![op];
        if let Some(l1) = d.eval(&seq) {
            if cfg.depth >= 2 {
                for op2 in alphabet(cfg, l1) {
                    let mut s = seq.clone();
                    s.push(op2);
                    items.push(s);
                }
            }
        }
    }
    items
}

fn exhaustive(cx: &Cx, rep: &mut Report) {
    let env = Env { known: cx.known.clone() };
    for cfg in configs(cx.tier) {
        let mut st0 = Stats::new();
        let mut v0 = vec![];
        let items = prefixes(&env, &cfg, &mut st0, &mut v0);
        rep.absorb((st0, v0));
        let items = Arc::new(items);
        let known = cx.known.clone();
        let cfg2 = cfg.clone();
        let results = par_shards(cx.threads.max(1), move |i, n| {
            let env = Env { known: known.clone() };
            let mut st = Stats::new();
            let mut viols = vec![];
            let mut ct = Ctr::new();
            {
                let mut d = Dfs {
                    env: &env,
                    cfg: &cfg2,
                    st: &mut st,
                    ct: &mut ct,
                    viols: &mut viols,
                    nt_recorded: 0,
                    seen: 0,
                };
                let mut idx = i;
                while idx < items.len() {
                    let mut ops = items[idx].clone();
                    d.go(&mut ops);
                    idx += n;
                }
            }
            ct.flush(&mut st);
            (st, viols)
        });
        for r in results {
            rep.absorb(r);
        }
        let label = if cfg.limit == usize::MAX {
            "usize::MAX".to_string()
        } else {
            cfg.limit.to_string()
        };
        rep.stats
            .note(&format!("exhaustive_depth_limit_{}", label), json!(cfg.depth));
        rep.mark(cx, &format!("exhaustive_limit_{}", label));
    }
}

// ---------------------------------------------------------------------------
// phase (b): random sequences
// ---------------------------------------------------------------------------

fn size_strategy(limit: usize) -> BoxedStrategy<usize> {
    if limit == usize::MAX {
        return prop_oneof![
            6 => 1usize..=4096,
            1 => prop::sample::select(vec![PARENT_REFUSES_FROM, HUGE_A, HUGE_B, HUGE_B + 1]),
        ]
        .boxed();
    }
    prop_oneof![
        3 => prop::sample::select(vec![1, 64, limit / 2, limit - 1, limit, limit + 1]),
        3 => 1usize..=128,
        4 => (limit / 16)..=(limit / 3),
        1 => 1usize..=(limit + 1),
    ]
    .boxed()
}

fn op_strategy(limit: usize) -> BoxedStrategy<Op> {
    let sz = size_strategy(limit);
    let limits = if limit == usize::MAX {
        vec![usize::MAX, usize::MAX, 64, 1 << 20]
    } else {
        vec![limit, limit, limit * 2, limit + 1, limit / 2, 64]
    };
    prop_oneof![
        8 => sz.clone().prop_map(|size| Op::Alloc { size }),
        4 => sz.clone().prop_map(|size| Op::AllocZeroed { size }),
        8 => (0usize..24, sz).prop_map(|(slot, new_size)| Op::Realloc { slot, new_size }),
        6 => (0usize..24).prop_map(|slot| Op::Dealloc { slot }),
        2 => Just(Op::ReadUsage),
        4 => Just(Op::ReadPeak),
        1 => prop::sample::select(limits).prop_map(|limit| Op::SetLimit { limit }),
    ]
    .boxed()
}

fn case_strategy() -> BoxedStrategy<Case> {
    (
        prop_oneof![4 => Just(4096usize), 3 => Just(1usize << 20), 1 => Just(usize::MAX)],
        any::<bool>(),
    )
        .prop_flat_map(|(limit, probe_every)| {
            prop::collection::vec(op_strategy(limit), 0..400).prop_map(move |ops| Case {
                limit,
                probe_every,
                ops,
            })
        })
        .boxed()
}

fn check_random(env: &Env, case: &Case, st: &mut Stats) -> CaseResult {
    let mut ct = Ctr::new();
    let o = run_case(env, case, st, &mut ct, true)?;
    ct.flush(st);
    if is_nontrivial(&o) {
        st.nontrivial(&(case.limit, &case.ops));
    }
    st.class(match case.limit {
        usize::MAX => "random_case_limit_usize_max",
        4096 => "random_case_limit_4096",
        _ => "random_case_limit_1MiB",
    });
    Ok(())
}

// ---------------------------------------------------------------------------
// phase (c): threads
// ---------------------------------------------------------------------------

const T_LIMIT: usize = 1 << 16;
const BURST: usize = 8;
const TAG: usize = 64;

#[derive(Clone, Debug, Serialize, Deserialize, PartialEq, Eq, Hash)]
pub struct RoundSpec {
    /// request size per thread
    pub sizes: Vec<usize>,
    /// per thread: 0 alloc, 1 alloc_zeroed, 2 alloc then realloc to 2x, 3 alloc then realloc to 1/2,
    /// 4 reset_max() then alloc (the reset races with the other threads' operations)
    pub kinds: Vec<u8>,
    /// true: every thread keeps its blocks until all threads are done (quiescent point with live
    /// blocks); false: every block is freed right after it was obtained (alloc/free churn)
    pub hold: bool,
}

fn round_strategy(t: usize) -> BoxedStrategy<RoundSpec> {
    let total = t * BURST;
    (
        // limit/m per request: m < t*BURST so that the requests of one round cannot all fit;
        // m in [t*BURST, 2*t*BURST]: the allocs fit, growing the blocks (kind 2) does not
        prop_oneof![2 => 1usize..=4, 3 => 1usize..t.max(2), 3 => 1usize..total, 2 => total..=2 * total],
        // per thread: size variant and kind; every fourth round all threads grow their blocks
        (
            prop::collection::vec(
                (0usize..3, prop_oneof![4 => Just(0u8), 2 => Just(1u8), 2 => Just(2u8), 1 => Just(3u8), 2 => Just(4u8)]),
                t,
            ),
            prop::bool::weighted(0.25),
        )
            .prop_map(|(per, all_grow)| {
                if all_grow {
                    per.into_iter().map(|(j, _)| (j, 2u8)).collect::<Vec<_>>()
                } else {
                    per
                }
            }),
        prop::bool::weighted(0.6),
    )
        .prop_map(|(m, per, hold)| RoundSpec {
            sizes: per
                .iter()
                .map(|(j, _)| match j {
                    0 => (T_LIMIT / m).max(1),
                    1 => (T_LIMIT / m + 1).min(T_LIMIT + 1),
                    _ => (T_LIMIT / (m + 1)).max(1),
                })
                .collect(),
            kinds: per.iter().map(|(_, k)| *k).collect(),
            hold,
        })
        .boxed()
}

fn make_plan(seed: u64, t: usize, n: usize) -> Vec<RoundSpec> {
    let rng = TestRng::from_seed(RngAlgorithm::ChaCha, &mix_seed(seed, "C19", "threads", t as u64));
    let mut runner = TestRunner::new_with_rng(Config::default(), rng);
    let strat = round_strategy(t);
    (0..n)
        .map(|_| strat.new_tree(&mut runner).expect("round spec").current())
        .collect()
}

/// Generation barrier: spins briefly for a tight release, then blocks on a condvar so that an
/// oversubscribed machine does not turn the wait into a yield storm.
struct SpinBarrier {
    n: usize,
    count: AtomicUsize,
    gen: AtomicUsize,
    abort: AtomicBool,
    m: Mutex<()>,
    cv: std::sync::Condvar,
}

impl SpinBarrier {
    fn new(n: usize) -> SpinBarrier {
        SpinBarrier {
            n,
            count: AtomicUsize::new(0),
            gen: AtomicUsize::new(0),
            abort: AtomicBool::new(false),
            m: Mutex::new(()),
            cv: std::sync::Condvar::new(),
        }
    }
    fn abort(&self) {
        self.abort.store(true, Ordering::SeqCst);
        let _g = self.m.lock().unwrap();
        self.cv.notify_all();
    }
    /// false: the run was aborted (a worker died)
    fn wait(&self) -> bool {
        let g = self.gen.load(Ordering::SeqCst);
        if self.count.fetch_add(1, Ordering::SeqCst) + 1 == self.n {
            self.count.store(0, Ordering::SeqCst);
            self.gen.fetch_add(1, Ordering::SeqCst);
            let _g = self.m.lock().unwrap();
            self.cv.notify_all();
            return !self.abort.load(Ordering::SeqCst);
        }
        for _ in 0..4000 {
            if self.gen.load(Ordering::SeqCst) != g {
                return !self.abort.load(Ordering::SeqCst);
            }
            std::hint::spin_loop();
        }
        let mut guard = self.m.lock().unwrap();
        while self.gen.load(Ordering::SeqCst) == g && !self.abort.load(Ordering::SeqCst) {
            guard = self.cv.wait(guard).unwrap();
        }
        !self.abort.load(Ordering::SeqCst)
    }
}

struct Shared {
    a: Alloc,
    /// lower bound of the live total: raised after a success, lowered before a free
    lb: AtomicUsize,
    bar: SpinBarrier,
    succ: AtomicU64,
    refu: AtomicU64,
    stop: AtomicBool,
    fails: Mutex<Vec<(String, String)>>,
    plan: Vec<RoundSpec>,
    rounds: u64,
    t: usize,
    f21_known: bool,
}

impl Shared {
    fn fail(&self, sig: &str, detail: String) {
        let mut g = self.fails.lock().unwrap();
        if g.len() < 8 {
            g.push((sig.to_string(), detail));
        }
    }
}

#[derive(Default)]
struct ThreadTotals {
    rounds: u64,
    mixed_rounds: u64,
    mixed_specs: BTreeSet<usize>,
    all_ok_rounds: u64,
    all_refused_rounds: u64,
    succ: u64,
    refu: u64,
    hold_rounds: u64,
    known_f21: u64,
    known_example: Option<String>,
    realloc_ok: u64,
    realloc_refused: u64,
    zeroed_ok: u64,
    racing_resets: u64,
}

unsafe fn tag(p: *mut u8, size: usize, who: u8) {
    for i in 0..size.min(TAG) {
        *p.add(i) = pat(who, i);
    }
}
unsafe fn tagged(p: *const u8, cap: usize, who: u8) -> bool {
    (0..cap.min(TAG)).all(|i| *p.add(i) == pat(who, i))
}

fn worker(sh: &Shared, me: usize) -> ThreadTotals {
    let mut tot = ThreadTotals::default();
    let who = (me as u8).wrapping_mul(37).wrapping_add(11);
    let mut mine: Vec<(*mut u8, usize)> = Vec::with_capacity(BURST);
    let limit = T_LIMIT;
    let release = |sh: &Shared, p: *mut u8, size: usize| {
        if !unsafe { tagged(p, size, who) } {
            sh.fail(
                "block-contents-changed",
                format!("thread {}: a live block of {} bytes lost its tag", me, size),
            );
        }
        sh.lb.fetch_sub(size, Ordering::SeqCst);
        unsafe { sh.a.dealloc(p, Layout::from_size_align_unchecked(size, ALIGN)) };
    };
    for r in 0..sh.rounds {
        let si = (r as usize) % sh.plan.len();
        let spec = &sh.plan[si];
        let (s, kind) = (spec.sizes[me], spec.kinds[me]);
        let l = Layout::from_size_align(s, ALIGN).unwrap();
        let (mut ok, mut no) = (0u64, 0u64);
        // the barrier at the end of the previous round releases all threads into this burst together
        if r == 0 && !sh.bar.wait() {
            break;
        }
        // ---- burst
        for _ in 0..BURST {
            if kind == 4 {
                // the peak is reset while the other threads are inside the allocator
                sh.a.reset_max();
            }
            let p = unsafe {
                if kind == 1 {
                    sh.a.alloc_zeroed(l)
                } else {
                    sh.a.alloc(l)
                }
            };
            if p.is_null() {
                no += 1;
                continue;
            }
            ok += 1;
            let v = sh.lb.fetch_add(s, Ordering::SeqCst) + s;
            if v > limit {
                sh.fail(
                    "thread-live-over-limit",
                    format!(
                        "thread {} round {}: after a successful {} of {} bytes at least {} bytes are live, limit {}",
                        me,
                        r,
                        if kind == 1 { "alloc_zeroed" } else { "alloc" },
                        s,
                        v,
                        limit
                    ),
                );
            }
            if kind == 1 {
                tot.zeroed_ok += 1;
                if !(0..s.min(TAG)).all(|i| unsafe { *p.add(i) } == 0) {
                    sh.fail("zeroed-not-zero", format!("thread {}: alloc_zeroed({}) not zero", me, s));
                }
            }
            unsafe { tag(p, s, who) };
            let mut blk = (p, s);
            if kind == 2 || kind == 3 {
                let new = if kind == 2 { s * 2 } else { (s / 2).max(1) };
                sh.lb.fetch_sub(s, Ordering::SeqCst);
                let q = unsafe { sh.a.realloc(p, l, new) };
                if q.is_null() {
                    no += 1;
                    tot.realloc_refused += 1;
                    let v = sh.lb.fetch_add(s, Ordering::SeqCst) + s;
                    if v > limit {
                        sh.fail(
                            "thread-live-over-limit",
                            format!("thread {} round {}: at least {} bytes live, limit {}", me, r, v, limit),
                        );
                    }
                    if !unsafe { tagged(p, s, who) } {
                        sh.fail(
                            "refusal-clobbered-block",
                            format!("thread {}: refused realloc {} -> {} damaged the block", me, s, new),
                        );
                    }
                } else {
                    ok += 1;
                    tot.realloc_ok += 1;
                    let v = sh.lb.fetch_add(new, Ordering::SeqCst) + new;
                    if v > limit {
                        sh.fail(
                            "thread-live-over-limit",
                            format!(
                                "thread {} round {}: after a successful realloc {} -> {} at least {} bytes are live, limit {}",
                                me, r, s, new, v, limit
                            ),
                        );
                    }
                    if !unsafe { tagged(q, s.min(new), who) } {
                        sh.fail(
                            "realloc-lost-contents",
                            format!("thread {}: realloc {} -> {} lost the contents", me, s, new),
                        );
                    }
                    unsafe { tag(q, new, who) };
                    blk = (q, new);
                }
            }
            if spec.hold {
                mine.push(blk);
            } else {
                release(sh, blk.0, blk.1);
            }
        }
        sh.succ.fetch_add(ok, Ordering::SeqCst);
        sh.refu.fetch_add(no, Ordering::SeqCst);
        // ---- quiescent point: nobody is inside the allocator
        if !sh.bar.wait() {
            break;
        }
        if me == 0 {
            let live = sh.lb.load(Ordering::SeqCst);
            if live > limit {
                sh.fail(
                    "thread-live-over-limit",
                    format!("round {} ({} threads): {} bytes live at the quiescent point, limit {}", r, sh.t, live, limit),
                );
            }
            if spec.kinds.iter().any(|k| *k == 4) {
                tot.racing_resets += 1;
            }
            let peak = sh.a.get_max();
            if peak < live {
                let has_realloc_up = spec.kinds.iter().any(|k| *k == 2) && !spec.kinds.iter().any(|k| *k == 4);
                let detail = format!(
                    "round {} ({} threads): get_max() = {} < {} bytes live at the quiescent point (reset at the previous one)",
                    r, sh.t, peak, live
                );
                if has_realloc_up && sh.f21_known {
                    tot.known_f21 += 1;
                    if tot.known_example.is_none() {
                        tot.known_example = Some(detail);
                    }
                } else if has_realloc_up {
                    sh.fail(SIG_F21, detail);
                } else {
                    sh.fail("thread-peak-below-usage", detail);
                }
            }
            sh.a.reset_max();
            let u = sh.a.get_max();
            if u != live {
                sh.fail(
                    "thread-usage-mismatch",
                    format!(
                        "round {} ({} threads): usage read back as {} at the quiescent point, live blocks total {}",
                        r, sh.t, u, live
                    ),
                );
            }
            let (k, n) = (sh.succ.swap(0, Ordering::SeqCst), sh.refu.swap(0, Ordering::SeqCst));
            tot.rounds += 1;
            tot.succ += k;
            tot.refu += n;
            if spec.hold {
                tot.hold_rounds += 1;
            }
            if k > 0 && n > 0 {
                tot.mixed_rounds += 1;
                tot.mixed_specs.insert(si);
            } else if k > 0 {
                tot.all_ok_rounds += 1;
            } else {
                tot.all_refused_rounds += 1;
            }
            if !sh.fails.lock().unwrap().is_empty() {
                sh.stop.store(true, Ordering::SeqCst);
            }
        }
        if !sh.bar.wait() {
            break;
        }
        // ---- free (every thread has freed its blocks before it reaches the next quiescent point)
        for (p, size) in mine.drain(..) {
            release(sh, p, size);
        }
        if sh.stop.load(Ordering::SeqCst) {
            break;
        }
    }
    for (p, size) in mine.drain(..) {
        release(sh, p, size);
    }
    tot
}

/// one stress run with `t` threads; Err = (signature, detail) of the first failure
fn thread_run(seed: u64, t: usize, rounds: u64, plan_len: usize, f21_known: bool, st: &mut Stats) -> Result<(), (String, String)> {
    let plan = make_plan(seed, t, plan_len.max(1));
    let sh = Arc::new(Shared {
        a: Alloc::new(T_LIMIT),
        lb: AtomicUsize::new(0),
        bar: SpinBarrier::new(t),
        succ: AtomicU64::new(0),
        refu: AtomicU64::new(0),
        stop: AtomicBool::new(false),
        fails: Mutex::new(vec![]),
        plan,
        rounds,
        t,
        f21_known,
    });
    let mut hs = vec![];
    for me in 0..t {
        let sh = sh.clone();
        hs.push(
            std::thread::Builder::new()
                .name(format!("c19-t{}", me))
                .spawn(move || {
                    let r = catch(|| worker(&sh, me));
                    if r.is_err() {
                        sh.bar.abort();
                    }
                    r
                })
                .expect("spawn"),
        );
    }
    let mut panics = vec![];
    let mut tot0 = None;
    for (i, h) in hs.into_iter().enumerate() {
        match h.join() {
            Ok(Ok(t)) => {
                if i == 0 {
                    tot0 = Some(t)
                }
            }
            Ok(Err(p)) => panics.push(p),
            Err(_) => panics.push("worker died".into()),
        }
    }
    if let Some(p) = panics.first() {
        return Err((panic_signature(p), format!("{} threads: a worker panicked inside the allocator calls: {}", t, p)));
    }
    let tot = tot0.unwrap_or_default();
    st.evals(tot.rounds);
    st.class_n(&format!("thread_rounds_T{}", t), tot.rounds);
    st.class_n("thread_rounds_mixed(some succeed, some refused)", tot.mixed_rounds);
    st.class_n("thread_rounds_all_succeed", tot.all_ok_rounds);
    st.class_n("thread_rounds_all_refused", tot.all_refused_rounds);
    st.class_n("thread_rounds_hold(quiescent point with live blocks)", tot.hold_rounds);
    st.class_n("thread_rounds_with_reset_max_racing_the_operations", tot.racing_resets);
    st.class_n("thread_ops_succeeded", tot.succ);
    st.class_n("thread_ops_refused", tot.refu);
    for si in &tot.mixed_specs {
        st.nontrivial(&("threads", t, &sh.plan[*si]));
        st.nt_sample(|| json!({"threads": t, "limit": T_LIMIT, "burst": BURST, "round": &sh.plan[*si]}));
    }
    if tot.known_f21 > 0 {
        for _ in 0..tot.known_f21 {
            st.known(SIG_F21, &format!("threads: {}", tot.known_example.clone().unwrap_or_default()));
        }
    }
    if let Some((sig, detail)) = sh.fails.lock().unwrap().first().cloned() {
        return Err((sig, detail));
    }
    // after joining: everything was freed
    let lb = sh.lb.load(Ordering::SeqCst);
    sh.a.reset_max();
    let u = sh.a.get_max();
    if lb != 0 || u != 0 {
        return Err((
            "thread-final-usage-nonzero".into(),
            format!("{} threads: after joining, usage reads back as {} (harness counter {}), expected 0", t, u, lb),
        ));
    }
    Ok(())
}

fn thread_case(seed: u64, t: usize, rounds: u64, plan_len: usize) -> J {
    json!({"threads": t, "rounds": rounds, "plan_len": plan_len, "seed": seed, "limit": T_LIMIT, "burst": BURST})
}

fn threads_phase(cx: &Cx, rep: &mut Report) {
    let plan_len = cx.tier.pick(1024usize, 8192);
    // 20_000 rounds in total (quick), 1_000_000 (thorough)
    for (t, per_t) in [
        (2usize, cx.tier.pick(8_000u64, 400_000)),
        (4, cx.tier.pick(6_000, 300_000)),
        (8, cx.tier.pick(4_000, 200_000)),
        (16, cx.tier.pick(2_000, 100_000)),
    ] {
        let mut st = Stats::new();
        let r = thread_run(cx.seed, t, per_t, plan_len, cx.is_known(SIG_F21), &mut st);
        let mut viols = vec![];
        if let Err((sig, detail)) = r {
            viols.push(Violation {
                phase: "threads".into(),
                case: thread_case(cx.seed, t, per_t, plan_len),
                detail: format!(
                    "[{}] {} (schedule-dependent: the replay re-runs the same round plan, not the same interleaving)",
                    sig, detail
                ),
            });
        }
        rep.absorb((st, viols));
        rep.mark(cx, &format!("threads_T{}", t));
    }
}

// ---------------------------------------------------------------------------
// entry points
// ---------------------------------------------------------------------------

fn dedupe(v: Vec<Violation>) -> Vec<Violation> {
    let mut best: std::collections::BTreeMap<(String, String), (usize, String, Violation)> = Default::default();
    for x in v {
        let sig = x
            .detail
            .strip_prefix('[')
            .and_then(|d| d.split(']').next())
            .unwrap_or("")
            .to_string();
        let text = x.case.to_string();
        // thread runs are kept per thread count
        let phase = match x.case.get("threads").and_then(|t| t.as_u64()) {
            Some(t) => format!("{}:T{:02}", x.phase, t),
            None => x.phase.clone(),
        };
        let key = (phase, sig);
        let cand = (text.len(), text, x);
        match best.get(&key) {
            Some(b) if (b.0, &b.1) <= (cand.0, &cand.1) => {}
            _ => {
                best.insert(key, cand);
            }
        }
    }
    best.into_values().map(|(_, _, v)| v).collect()
}

pub fn run(cx: &Cx) -> Report {
    let mut rep = Report::new(RULE);
    rep.level = "exploration";
    rep.assumptions = vec![
        "Layout align fixed to 8; sizes >= 1 (a zero-size Layout is never passed: '0-ish' = 1)".into(),
        "usage is observable only as reset_max()+get_max(), which also resets the peak: every sequence is run once with a read-back after every operation and once with read-backs only where the sequence has them (peak checked with get_max() after every operation in both)".into(),
        "the property is one-directional about success: a refusal of a request that would have fit (realloc tests old+new<=limit; parent allocator failure) is counted in a class, not reported".into(),
        "blocks larger than 8192 bytes are filled/verified at their first and last 256 bytes and every 65536th byte, smaller ones completely".into(),
        "requests of >= 2^48 bytes are assumed to be refused by the system allocator (x86-64 user address space); used to exercise the parent-failure path with limit = usize::MAX".into(),
        "thread phase samples schedules, it does not enumerate them; it is the only part that is not a deterministic function of VERIF_SEED (its round plan is, the interleaving is not)".into(),
        "thread phase asserts only schedule-independent facts: a counter raised after each success and lowered before each free never exceeds the limit; at barrier-separated quiescent points usage read-back == sum of live blocks and get_max() >= that sum; after joining usage == 0".into(),
        "exhaustive phase: distinct_nontrivial hashes at most 200000 sequences per worker thread; the full number is the class exhaustive_nontrivial_sequences (distinct by construction)".into(),
    ];
    *BEST_KNOWN.lock().unwrap() = None;

    crate::regress::run(cx, &mut rep, &replay);
    rep.mark(cx, "regress");

    exhaustive(cx, &mut rep);
    rep.exhaustive = false; // exhaustive only up to the stated depth and alphabet
    rep.mark(cx, "exhaustive");
    // leave room in the evidence samples for the other phases
    rep.stats.nontrivial_samples.truncate(5);
    rep.stats.samples.truncate(2);

    let cases = cx.tier.pick(40_000u64, 2_000_000);
    let known = cx.known.clone();
    rep.absorb(par_proptest(
        cx,
        "random",
        cases,
        case_strategy,
        move || Env { known: known.clone() },
        |env, case, st| check_random(env, case, st),
        |case| serde_json::to_value(case).unwrap(),
    ));
    rep.mark(cx, "random");
    rep.stats.nontrivial_samples.truncate(9);

    threads_phase(cx, &mut rep);
    rep.mark(cx, "threads");

    // the shortest example of the known finding is the most useful one to print
    if let Some((_, text)) = BEST_KNOWN.lock().unwrap().clone() {
        if let Some(e) = rep.stats.known.get_mut(SIG_F21) {
            e.1 = text;
        }
    }

    // one violation per (phase, signature): the smallest case
    rep.violations = dedupe(std::mem::take(&mut rep.violations));

    // vacuity
    let c = |k: &str| rep.stats.classes.get(k).copied().unwrap_or(0);
    let mut why = vec![];
    if c("ops_succeeded") == 0 {
        why.push("no sequential operation succeeded");
    }
    if c("ops_refused") == 0 {
        why.push("no sequential operation was refused");
    }
    if c("thread_ops_succeeded") == 0 || c("thread_ops_refused") == 0 {
        why.push("thread phase: nothing succeeded or nothing was refused");
    }
    if c("thread_rounds_mixed(some succeed, some refused)") == 0 {
        why.push("thread phase: no round in which some requests succeed and some are refused");
    }
    if c("parent_allocator_failure(alloc within limit, system allocator refused)") == 0 {
        why.push("the parent-allocator failure path was never taken");
    }
    if c("realloc_up_ok") == 0 || c("realloc_down_ok") == 0 || c("realloc_refused") == 0 {
        why.push("realloc up/down/refused not all exercised");
    }
    if !why.is_empty() && rep.violations.is_empty() && rep.inconclusive.is_none() {
        rep.inconclusive = Some(format!("vacuous run: {}", why.join("; ")));
    }
    rep
}

pub fn replay(cx: &Cx, phase: &str, case: &J, st: &mut Stats) -> CaseResult {
    if phase == "threads" || case.get("threads").is_some() {
        let t = case["threads"].as_u64().ok_or("bad case: threads")? as usize;
        if !(1..=64).contains(&t) {
            return Err("bad case: threads out of range".into());
        }
        let rounds = case["rounds"].as_u64().unwrap_or(5_000);
        let plan_len = case["plan_len"].as_u64().unwrap_or(1024) as usize;
        let seed = case["seed"].as_u64().unwrap_or(cx.seed);
        return thread_run(seed, t, rounds, plan_len, cx.is_known(SIG_F21), st)
            .map_err(|(sig, d)| format!("[{}] {}", sig, d));
    }
    // a sequence; "text"-less witness format: {"limit":..,"probe_every":..,"ops":[..]}
    let c: Case = serde_json::from_value(case.clone()).map_err(|e| format!("bad case: {}", e))?;
    let env = Env { known: cx.known.clone() };
    let mut ct = Ctr::new();
    let r = run_case(&env, &c, st, &mut ct, false).map(|_| ());
    ct.flush(st);
    r
}
