//! C13 — loading arbitrary definition text is safe and reports its problems.

use crate::engine::*;
use crate::gen::defs::*;
use crate::gen::query::Tape;
use crate::oracle::regdump;
use crate::worker::{Outcome, Supervised};
use proptest::prelude::*;
use serde_derive::{Deserialize, Serialize};
use serde_json::{json, Value as J};
use std::cell::RefCell;
use std::collections::BTreeSet;
use std::time::Duration;

pub const RULE: &str = "cases, each loaded in a supervised worker process (8 MiB stack, 3 GiB, 20 s budget, re-run alone with 60 s before \
a hang counts): (a) the three bundled files under generated edit scripts (delete / duplicate / swap lines and tokens, truncation at \
any byte, CRLF / CR line ends, stray continuations, unbalanced braces); (b) generated databases with known values plus injected \
problems of the kinds the loader reports (undefined reference, unit / prefix / quantity cycles of length 1..20, non-conformable +, \
duplicate names, prefix referencing a unit, quantity of a non-base name, substance properties with zero / negative output or input, \
substance with a non-numeric property); (c) scale: cycles and alias chains of 10..10000 definitions, 10^5 blanks before a token, \
parentheses nested to 1000; (d) the currency snapshot truncated, retyped, or of the wrong shape; (e) mutated date-pattern text. \
Oracle: the load returns; every injected problem's definition is named in the error text; afterwards the same context answers: \
surviving generated units have exactly the generator's values, arithmetic still works. Non-trivial = distinct case with an injected \
problem and a queried survivor, or a cycle / chain longer than 1000, or a mutation of a bundled file.";

#[derive(Clone, Debug, Serialize, Deserialize)]
pub enum Case {
    /// which bundled file (0 defs, 1 currency.units, 2 datepatterns), edit tape
    Mutated { file: u8, tape: Vec<u32> },
    Generated { db: SynDb, injections: Vec<Injection>, shuffle: Vec<u32> },
    Scale { kind: u8, n: u32 },
    Currency { tape: Vec<u32> },
    /// a literal text (fuzzer artifact): loaded as definitions, date patterns and currency JSON
    RawText(String),
    /// a second load into a context that already holds the bundled definitions: it redefines a bundled
    /// unit in terms of one of that unit's own aliases (`pick` selects the alias line of the bundled file)
    SecondLoad { pick: u32, via: u8, form: u8 },
}

#[derive(Clone, Debug, Serialize, Deserialize, PartialEq, Eq)]
pub enum Injection {
    UndefinedRef,
    UnitCycle(u8),
    PrefixCycle(u8),
    QuantityCycle(u8),
    NonConformableAdd,
    DuplicateUnit,
    PrefixRefersToUnit,
    QuantityOfNonBase,
    ZeroOutputProperty,
    ZeroInputProperty,
    NegativeProperty,
    NonNumericProperty,
    SelfReference,
    /// a malformed substance whose first (well-formed) property is named like an existing unit:
    /// nothing of it may remain visible after the load
    MalformedSubstanceShadowingUnit,
    /// a prefix whose value divides by zero (`1|0`, `0^-1`, `1 / 0`)
    PrefixDivByZero(u8),
    /// a quantity raised to a power at the edge of the exponent range
    QuantityHugePower(u8),
    /// a substance property whose input or output is a *computed* zero (float zero, `0 * 2^0.5`)
    ComputedZeroProperty(u8),
    /// a number immediately followed by a non-ASCII numeric character (`10\u{b2}`, `2\u{bd}`)
    UnicodeNumericInNumber(u8),
    /// a unit whose value is zero: legal to define; lists and conversions that divide by it must refuse, not crash
    ZeroUnit(u8),
    /// a unit named like a built-in word of the query language (`ans`, `_`): `search` finds it
    ReservedName(u8),
    /// a substance with a chemical symbol whose molar_mass is not a mass per amount: formulas using it
    SymbolOddMolarMass(u8),
}

impl Injection {
    /// (text, tokens one of which must appear in the error text, query to run afterwards)
    fn render(&self, i: usize) -> (String, Vec<String>, Option<String>) {
        match self {
            Injection::UndefinedRef => (format!("bad{}x 3 nosuchunit{}\n", i, i), vec![format!("bad{}x", i)], None),
            Injection::UnitCycle(l) => {
                let l = (*l).max(1) as usize;
                let mut t = String::new();
                for k in 0..l {
                    t.push_str(&format!("cy{}x{} 2 cy{}x{}\n", i, k, i, (k + 1) % l));
                }
                (t, (0..l).map(|k| format!("cy{}x{}", i, k)).collect(), None)
            }
            Injection::PrefixCycle(l) => {
                let l = (*l).max(1) as usize;
                let mut t = String::new();
                for k in 0..l {
                    t.push_str(&format!("pc{}x{}- pc{}x{}\n", i, k, i, (k + 1) % l));
                }
                (t, (0..l).map(|k| format!("pc{}x{}", i, k)).collect(), None)
            }
            Injection::QuantityCycle(l) => {
                let l = (*l).max(1) as usize;
                let mut t = String::new();
                for k in 0..l {
                    t.push_str(&format!("qc{}x{} ? qc{}x{}\n", i, k, i, (k + 1) % l));
                }
                (t, (0..l).map(|k| format!("qc{}x{}", i, k)).collect(), None)
            }
            Injection::NonConformableAdd => (format!("nadd{}x 3 ba + 2 ba^2\n", i), vec![format!("nadd{}x", i)], None),
            Injection::DuplicateUnit => (format!("dup{}x 3 ba\ndup{}x 4 ba\n", i, i), vec![format!("dup{}x", i)], None),
            Injection::PrefixRefersToUnit => (format!("pru{}x- u0\n", i), vec![format!("pru{}x", i)], None),
            Injection::QuantityOfNonBase => (format!("qnb{}x ? u0\n", i), vec![format!("qnb{}x", i)], None),
            Injection::ZeroOutputProperty => (
                format!("zo{}x {{\n    pzo{}x const izo{}x 0 ba\n}}\n", i, i, i),
                vec![format!("zo{}x", i)],
                Some(format!("pzo{}x of zo{}x", i, i)),
            ),
            Injection::ZeroInputProperty => (
                format!("zi{}x {{\n    pzi{}x ozi{}x 3 ba / izi{}x 0 ba\n}}\n", i, i, i, i),
                vec![format!("zi{}x", i)],
                Some(format!("pzi{}x of zi{}x", i, i)),
            ),
            Injection::NegativeProperty => (
                format!("ng{}x {{\n    png{}x ong{}x -3 ba / ing{}x 2 ba\n}}\n", i, i, i, i),
                vec![],
                Some(format!("png{}x of ng{}x", i, i)),
            ),
            Injection::NonNumericProperty => (
                // the property's value is a substance, not a number
                format!(
                    "nno{}x {{\n    qnn{}x const iqnn{}x 3 ba\n}}\nnn{}x {{\n    pnn{}x const inn{}x nno{}x\n}}\n",
                    i, i, i, i, i, i, i
                ),
                vec![format!("nn{}x", i)],
                Some(format!("nn{}x", i)),
            ),
            Injection::SelfReference => (format!("selfr{}x 2 selfr{}x\n", i, i), vec![format!("selfr{}x", i)], None),
            Injection::MalformedSubstanceShadowingUnit => (
                format!(
                    "zlk{}x {{\n    u0 const u1 7 ba\n    pzlk{}x const izlk{}x 0 ba\n}}\n",
                    i, i, i
                ),
                vec![format!("zlk{}x", i)],
                Some("u0 + u0".to_string()),
            ),
            Injection::PrefixDivByZero(k) => {
                let v = ["1|0", "0^-1", "1 / 0", "3|(2 - 2)", "(1 - 1)^-3", "1|0.0"][*k as usize % 6];
                (format!("pdz{}x- {}\n", i, v), vec![format!("pdz{}x", i)], Some(format!("pdz{}xba", i)))
            }
            Injection::QuantityHugePower(k) => {
                let v = ["9223372036854775807", "-9223372036854775807", "9223372036854775808", "4611686018427387904", "3037000500^2", "99999999999999999999"][*k as usize % 6];
                (format!("qhp{}x ? ba^{}\nqhq{}x ? qhp{}x qhp{}x qhp{}x\n", i, v, i, i, i, i), vec![], Some(format!("units for qhp{}x", i)))
            }
            Injection::ComputedZeroProperty(k) => {
                let zero = ["(0 * 2^0.5)", "(2^0.5 - 2^0.5)", "0.0", "(1 - 1)", "(0 ba / ba)"][*k as usize % 5];
                let text = if k % 2 == 0 {
                    format!("cz{}x {{\n    pcz{}x ocz{}x 3 ba / icz{}x {} ba\n}}\n", i, i, i, i, zero)
                } else {
                    format!("cz{}x {{\n    pcz{}x ocz{}x {} ba / icz{}x 2 ba\n}}\n", i, i, i, zero, i)
                };
                (text, vec![format!("cz{}x", i)], Some(format!("pcz{}x of cz{}x", i, i)))
            }
            Injection::UnicodeNumericInNumber(k) => {
                let v = ["10\u{b2}", "2\u{bd}", "10\u{663}", "1.5\u{b2}", "3\u{2460}", "1e\u{663}", "7\u{2155}", "1.\u{b9}"][*k as usize % 8];
                (format!("und{}x {} ba\n", i, v), vec![], Some(format!("und{}x", i)))
            }
            Injection::ZeroUnit(k) => {
                let v = ["0", "0.0", "(1 - 1)", "(2^0.5 - 2^0.5)"][*k as usize % 4];
                (
                    format!("zu{}x {} ba\n", i, v),
                    vec![],
                    Some(format!("zu{i}x -> zu{i}x, zu{i}x;;3 ba -> zu{i}x;;3 ba -> zu{i}x, ba;;3 ba -> ba, zu{i}x;;1 / zu{i}x;;3 ba mod zu{i}x", i = i)),
                )
            }
            Injection::ReservedName(k) => {
                let n = ["ans", "_", "ans", "_"][*k as usize % 4];
                let text = if k % 8 < 4 { format!("{} 3 ba\n", n) } else { format!("{} ? ba^2\n", n) };
                (text, vec![], Some(format!("search {n};;{n};;3 {n};;units for {n};;search an", n = n)))
            }
            Injection::SymbolOddMolarMass(k) => {
                let sym = ["Zq", "Zr", "Zs", "Zt", "Zv"][i % 5];
                let mm = ["3 ba", "5", "2 ba^2", "1 ba / ba", "0 ba"][*k as usize % 5];
                (
                    format!("!symbol sy{i}x {sym}\nsy{i}x {{\n    molar_mass const msy{i}x {mm}\n}}\n", i = i, sym = sym, mm = mm),
                    vec![],
                    Some(format!("{s}2;;{s};;{s}{s};;{s}3{s};;molar_mass of {s}2;;3 ba {s}2", s = sym)),
                )
            }
        }
    }
}

/// queries run after every load of a (possibly damaged) bundled file or currency feed: one per evaluator
/// path that looks something up in the database by a fixed name
pub const PROBES: [&str; 20] = [
    "1 + 1",
    "3 foot -> m",
    "#2020-01-01# + 1 day",
    "kg",
    "100 degF -> degC",
    "3 degC",
    "10 K -> degF",
    "20 degR + 1 degN",
    "search ans",
    "search kg",
    "3 s",
    "1 year -> day, hour",
    "3 m -> ft, in",
    "units for length",
    "H2O",
    "molar_mass of NaCl",
    "1 mol C2H6 -> g",
    "2 hours -> s",
    "1 EUR -> USD",
    "3 km / 2 min -> mph",
];

/// the same for generated databases (which define none of the names the evaluator knows)
pub const GENERATED_PROBES: [&str; 8] = ["1 + 1", "3 degC", "10 degF -> degR", "search ans", "search u0", "3 s", "H2O", "3 ba -> degC"];

pub struct Env {
    /// a context without definitions (sizes names a text defines itself)
    pub empty: rink_core::Context,
    pub sup: RefCell<Supervised>,
    pub known: BTreeSet<String>,
    /// set when the failure being shrunk is an overrun (only then do overruns count while shrinking)
    pub hang_mode: std::cell::Cell<bool>,
}

pub fn mk_env(known: BTreeSet<String>) -> Env {
    Env {
        empty: rink_core::Context::new(),
        sup: RefCell::new(Supervised::new(vec![])),
        known,
        hang_mode: std::cell::Cell::new(false),
    }
}

fn signature_of(o: &Outcome) -> String {
    match o {
        Outcome::Panic(p) => panic_signature(p),
        Outcome::Died(w) => format!("died:{}", w),
        Outcome::Timeout(_) => "hang".into(),
        Outcome::Reply(_) => "reply".into(),
    }
}

/// send one command; classify; Ok(Some(reply)) / Ok(None) when a known finding was observed
fn call(env: &Env, st: &mut Stats, cmd: &J, what: &str) -> Result<Option<J>, String> {
    call_sig(env, st, cmd, what, None)
}

/// like `call`, but a crash / overrun is reported under `crash_sig` when given
fn call_sig(env: &Env, st: &mut Stats, cmd: &J, what: &str, crash_sig: Option<&str>) -> Result<Option<J>, String> {
    let mut sup = env.sup.borrow_mut();
    let shrinking = st.frozen;
    let budget = Duration::from_secs(if shrinking { 6 } else { 20 });
    let mut out = sup.call(cmd, budget).map_err(|e| format!("[infrastructure] {}", e))?;
    if let (Outcome::Timeout(_), false) = (&out, shrinking) {
        // state is gone with the worker: callers that need state re-establish it; for a lone
        // load command re-running alone is exact
        if cmd["cmd"].as_str() == Some("load_defs") {
            out = sup.call_alone(cmd, Duration::from_secs(60)).map_err(|e| format!("[infrastructure] {}", e))?;
        }
    }
    if let (Outcome::Timeout(_), true) = (&out, shrinking) {
        if !env.hang_mode.get() {
            // a shorter budget is used while shrinking some other failure: an overrun here proves nothing
            return Ok(None);
        }
    }
    if let (Outcome::Timeout(_), false) = (&out, shrinking) {
        env.hang_mode.set(true);
    }
    match out {
        Outcome::Reply(v) => Ok(Some(v)),
        other => {
            let sig = match (crash_sig, &other) {
                (Some(s), Outcome::Died(_)) | (Some(s), Outcome::Timeout(_)) => s.to_string(),
                _ => signature_of(&other),
            };
            if env.known.contains(&sig) {
                st.known(&sig, what);
                return Ok(None);
            }
            let detail = match &other {
                Outcome::Panic(p) => format!("panicked: {}", p),
                Outcome::Died(w) => format!("killed the process: {}", w),
                Outcome::Timeout(t) => format!("did not return within the budget ({:.0} s)", t),
                _ => unreachable!(),
            };
            Err(format!("[{}] {} {}", sig, what, detail))
        }
    }
}

fn bundled(file: u8) -> &'static str {
    match file % 3 {
        0 => rink_core::DEFAULT_FILE.unwrap_or(""),
        1 => rink_core::CURRENCY_FILE.unwrap_or(""),
        _ => rink_core::DATES_FILE.unwrap_or(""),
    }
}

/// apply an edit script to a text
pub fn mutate_text(src: &str, tape: &[u32]) -> String {
    let mut t = Tape::new(tape);
    let mut lines: Vec<String> = src.lines().map(|l| l.to_string()).collect();
    let edits = 1 + t.pick(8);
    for _ in 0..edits {
        let n = lines.len().max(1);
        match t.pick(12) {
            0 => {
                if !lines.is_empty() {
                    lines.remove(t.pick(n));
                }
            }
            1 => {
                if !lines.is_empty() {
                    let i = t.pick(n);
                    let l = lines[i].clone();
                    lines.insert(i, l);
                }
            }
            2 => {
                if lines.len() > 1 {
                    let a = t.pick(n);
                    let b = t.pick(n);
                    lines.swap(a, b);
                }
            }
            3 => {
                // delete a token
                if !lines.is_empty() {
                    let i = t.pick(n);
                    let mut toks: Vec<&str> = lines[i].split(' ').collect();
                    if !toks.is_empty() {
                        let k = t.pick(toks.len());
                        toks.remove(k);
                    }
                    lines[i] = toks.join(" ");
                }
            }
            4 => {
                // swap two tokens
                if !lines.is_empty() {
                    let i = t.pick(n);
                    let mut toks: Vec<String> = lines[i].split(' ').map(|s| s.to_string()).collect();
                    if toks.len() > 1 {
                        let a = t.pick(toks.len());
                        let b = t.pick(toks.len());
                        toks.swap(a, b);
                    }
                    lines[i] = toks.join(" ");
                }
            }
            5 => {
                // stray continuation
                if !lines.is_empty() {
                    let i = t.pick(n);
                    lines[i].push('\\');
                }
            }
            6 => {
                if !lines.is_empty() {
                    let i = t.pick(n);
                    let c = ["{", "}", "(", ")", "!", "?", "??", "\"", "|", "^", "/", "-", "--", "\\x", "#", "\u{b2}", "\u{bd}", "\u{663}", "0", "|0", "^-1", "e", "."][t.pick(23)];
                    let pos = t.pick(lines[i].chars().count() + 1);
                    let mut cs: Vec<char> = lines[i].chars().collect();
                    for (k, ch) in c.chars().enumerate() {
                        cs.insert((pos + k).min(cs.len()), ch);
                    }
                    lines[i] = cs.into_iter().collect();
                }
            }
            7 => {
                // truncate the file at a line and a byte within it
                let i = t.pick(n);
                lines.truncate(i + 1);
                if let Some(l) = lines.last_mut() {
                    let k = t.pick(l.chars().count() + 1);
                    *l = l.chars().take(k).collect();
                }
            }
            8 => {
                // make a definition refer to itself / to a later line's name
                if !lines.is_empty() {
                    let i = t.pick(n);
                    let name = lines[i].split_whitespace().next().unwrap_or("x").to_string();
                    lines[i] = format!("{} 2 {}", name, name);
                }
            }
            9 => {
                if !lines.is_empty() {
                    let i = t.pick(n);
                    lines[i] = lines[i].replace(' ', "\t");
                }
            }
            10 => {
                let i = t.pick(n + 1);
                lines.insert(i.min(lines.len()), ["!category", "!endcategory", "!symbol", "!bogus directive", "!", "?? orphan doc", "{", "}"][t.pick(8)].to_string());
            }
            _ => {
                if !lines.is_empty() {
                    let i = t.pick(n);
                    lines[i] = lines[i].chars().rev().collect();
                }
            }
        }
    }
    let eol = ["\n", "\r\n", "\r"][if t.chance(70) { 0 } else { 1 + t.pick(2) }];
    let mut out = lines.join(eol);
    if t.chance(80) {
        out.push_str(eol);
    }
    out
}

/// does this mutation make the feed wrong in shape or type (so that the load has to report it)?
/// Mirrors the choices of `mutate_json` on the same tape.
pub fn json_mutation_must_be_refused(tape: &[u32]) -> Option<&'static str> {
    let mut t = Tape::new(tape);
    match t.pick(16) {
        10 | 11 | 12 => Some("an entry that refers to itself (dependency cycle)"),
        13 | 14 | 15 => Some("one extra entry of the wrong type or shape among valid ones"),
        2 => Some("top level is an object"),
        4 => Some("top level is null"),
        5 => Some("entries are numbers"),
        6 => Some("an entry whose name is a number"),
        8 => match t.pick(6) {
            2 => Some("unknown type tag"),
            3 => Some("type tag is a number"),
            4 => Some("type tag is null"),
            5 => Some("a unit entry retyped as substance (required fields missing)"),
            _ => None,
        },
        9 => Some("required field `expr` missing"),
        _ => None,
    }
}

/// mutate the currency JSON
pub fn mutate_json(src: &str, tape: &[u32]) -> String {
    let mut t = Tape::new(tape);
    match t.pick(16) {
        10 | 11 | 12 => {
            // entries that redefine an existing name in terms of itself (the feed is loaded into a
            // context that already holds the core definitions), or two feed names in terms of each other
            let name = ["foot", "meter", "kg", "inch", "USD", "EUR", "hour"][t.pick(7)];
            let expr = match t.pick(4) {
                0 => name.to_string(),
                1 => format!("3 {}", name),
                2 => format!("{} + 1 {}", name, name),
                _ => "loopb".to_string(),
            };
            let extra = format!(
                "{{\"name\":\"{}\",\"doc\":null,\"category\":null,\"type\":\"unit\",\"expr\":\"{}\"}},{{\"name\":\"loopb\",\"doc\":null,\"category\":null,\"type\":\"unit\",\"expr\":\"{}\"}},",
                name, expr, name
            );
            match src.find('[') {
                Some(i) => format!("{}{}{}", &src[..=i], extra, &src[i + 1..]),
                None => src.to_string(),
            }
        }
        13 | 14 | 15 => {
            // one confused entry that nothing depends on, the rest of the feed intact
            let bad = [
                "{\"name\":\"zzq\",\"doc\":null,\"category\":null,\"type\":7,\"expr\":\"1\"}",
                "{\"name\":\"zzq\",\"doc\":null,\"category\":null,\"type\":\"unit\",\"expr\":1.0852}",
                "{\"name\":\"zzq\",\"doc\":null,\"category\":null,\"type\":\"unit\"}",
                "{\"doc\":null,\"category\":null,\"type\":\"unit\",\"expr\":\"1\"}",
                "{\"name\":\"zzq\",\"doc\":null,\"category\":null,\"type\":\"nonsense\",\"expr\":\"1\"}",
                "{\"name\":[\"zzq\"],\"doc\":null,\"category\":null,\"type\":\"unit\",\"expr\":\"1\"}",
                "7",
                "\"zzq\"",
                "null",
                "[]",
            ][t.pick(10)];
            let at_end = t.chance(50);
            match (src.find('['), src.rfind(']'), at_end) {
                (_, Some(j), true) => format!("{},{}{}", &src[..j], bad, &src[j..]),
                (Some(i), _, _) => format!("{}{},{}", &src[..=i], bad, &src[i + 1..]),
                _ => src.to_string(),
            }
        }
        0 => {
            // truncate at a structural character
            let idx: Vec<usize> = src.char_indices().filter(|(_, c)| "{}[],:\"".contains(*c)).map(|(i, _)| i).collect();
            let cut = idx[t.pick(idx.len())];
            src[..cut].to_string()
        }
        1 => src.chars().take(t.pick(src.chars().count())).collect(),
        2 => "{}".into(),
        3 => "[]".into(),
        4 => "null".into(),
        5 => "[1, 2, 3]".into(),
        6 => "[{\"name\": 5, \"type\": \"unit\", \"expr\": \"1\"}]".into(),
        7 => {
            // hostile expression text
            let hostile = ["", "(((((", "1 +", "#2020#", "\\u", "1e4999", "1e999999999", "xyzzy", "a = b = c", "1 -> ->", "'"][t.pick(11)];
            src.replacen("(1 / 99.477867) EUR", hostile, 1).replacen("price of bitcoin", hostile, 1)
        }
        8 => src.replace("\"unit\"", ["\"prefix\"", "\"quantity\"", "\"bogus\"", "5", "null", "\"substance\""][t.pick(6)]),
        _ => src.replace("\"expr\"", "\"exp\""),
    }
}

/// (alias, target) for every line `alias target` of the bundled definitions whose two words are plain names
pub fn bundled_aliases() -> &'static Vec<(String, String)> {
    static CELL: std::sync::OnceLock<Vec<(String, String)>> = std::sync::OnceLock::new();
    CELL.get_or_init(|| {
        let src = rink_core::DEFAULT_FILE.unwrap_or("");
        let plain = |w: &str| !w.is_empty() && w.chars().all(|c| c.is_ascii_alphabetic() || c == '_') && w.len() > 1;
        let mut out = vec![];
        for l in src.lines() {
            let l = l.split('#').next().unwrap_or("");
            let toks: Vec<&str> = l.split_whitespace().collect();
            if toks.len() == 2 && plain(toks[0]) && plain(toks[1]) && toks[0] != toks[1] {
                out.push((toks[0].to_string(), toks[1].to_string()));
            }
        }
        out
    })
}

fn scale_text(kind: u8, n: usize) -> (String, Vec<String>, Option<(String, String)>) {
    // (text, error tokens, (name to look up, exact expected text))
    match kind % 5 {
        0 => {
            // alias chain
            let mut t = String::from("ba !\nch0x 3 ba\n");
            for i in 1..n {
                t.push_str(&format!("ch{}x ch{}x\n", i, i - 1));
            }
            (t, vec![], Some((format!("ch{}x", n.saturating_sub(1)), "3/1 [ba^1]".to_string())))
        }
        1 => {
            // dependency cycle
            let mut t = String::from("ba !\nok1x 5 ba\n");
            for i in 0..n {
                t.push_str(&format!("cyc{}x 2 cyc{}x\n", i, (i + 1) % n));
            }
            (t, vec!["cycle".to_string()], Some(("ok1x".to_string(), "5/1 [ba^1]".to_string())))
        }
        2 => {
            // blanks before a token
            let t = format!("ba !\nsp1x {} 7 ba\nok1x 5 ba\n", " ".repeat(n));
            (t, vec![], Some(("sp1x".to_string(), "7/1 [ba^1]".to_string())))
        }
        3 => {
            // nested parentheses
            let d = n.min(1000);
            let t = format!("ba !\npar1x {}2{} ba\nok1x 5 ba\n", "(".repeat(d), ")".repeat(d));
            (t, vec![], Some(("par1x".to_string(), "2/1 [ba^1]".to_string())))
        }
        _ => {
            // long comment / doc lines
            let t = format!("ba !\n# {}\n?? {}\nok1x 5 ba\n", "c".repeat(n), "d".repeat(n.min(50_000)));
            (t, vec![], Some(("ok1x".to_string(), "5/1 [ba^1]".to_string())))
        }
    }
}

pub fn check(env: &Env, c: &Case, st: &mut Stats) -> CaseResult {
    match c {
        Case::Mutated { file, tape } => {
            let src = bundled(*file);
            let text = mutate_text(src, tape);
            if crate::oracle::cost::has_huge_exponent(&text) {
                st.excluded("text contains a literal exponent above 5000 (an astronomically large number, C04's resource clause)");
                return Ok(());
            }
            if crate::oracle::cost::has_huge_power(&text) && !crate::oracle::cost::has_huge_power(src) {
                st.excluded("the edit made the text raise to a literal power above 5000 (an astronomically large number, C04's resource clause)");
                return Ok(());
            }
            st.eval();
            st.class(&format!("mutated_file_{}", file % 3));
            st.nontrivial(&(file % 3, tape));
            let fname = ["definitions.units", "currency.units", "datepatterns.txt"][(*file % 3) as usize];
            st.nt_sample(|| json!({"file": fname, "edits_tape_len": tape.len()}));
            let what = format!("loading a mutated {}", ["definitions.units", "currency.units", "datepatterns.txt"][(*file % 3) as usize]);
            let cmd = if file % 3 == 2 {
                json!({"cmd": "load_dates", "text": text})
            } else {
                json!({"cmd": "load_defs", "text": text, "fresh": true})
            };
            let r = match call(env, st, &cmd, &what)? {
                Some(r) => r,
                None => return Ok(()),
            };
            if file % 3 != 2 {
                st.class(if r["ok"].as_bool() == Some(true) { "mutated_loads_clean" } else { "mutated_reports_problems" });
            }
            // the context still answers
            for q in PROBES {
                if call(env, st, &json!({"cmd": "eval", "line": q, "save_prev": false, "pinned": true}), &format!("`{}` after {}", q, what))?.is_none() {
                    return Ok(());
                }
            }
            Ok(())
        }
        Case::Generated { db, injections, shuffle } => {
            let mut chunks = db.chunks();
            let mut expect: Vec<(Vec<String>, String)> = vec![];
            let mut queries = vec![];
            for (i, inj) in injections.iter().enumerate() {
                let (text, tokens, q) = inj.render(i);
                chunks.push(text);
                if !tokens.is_empty() {
                    expect.push((tokens, format!("{:?}", inj)));
                }
                if let Some(q) = q {
                    queries.extend(q.split(";;").map(|x| x.to_string()));
                }
            }
            // chunk order: sort keys (identity when all zero)
            let mut idx: Vec<usize> = (0..chunks.len()).collect();
            idx.sort_by_key(|i| (shuffle.get(*i).cloned().unwrap_or(0), *i));
            let text: String = idx.iter().map(|i| chunks[*i].clone()).collect();
            st.eval();
            st.class("generated");
            let what = "loading a generated database";
            let r = match call(env, st, &json!({"cmd": "load_defs", "text": text, "fresh": true}), what)? {
                Some(r) => r,
                None => return Ok(()),
            };
            let err = r["err"].as_str().unwrap_or("").to_string();
            if injections.is_empty() && r["ok"].as_bool() != Some(true) {
                return Err(format!("[clean-database-reports-problems] {}\n{}", err.lines().take(4).collect::<Vec<_>>().join(" | "), text));
            }
            for (tokens, kind) in &expect {
                st.class(&format!("injected_{}", kind.split('(').next().unwrap_or("")));
                if !tokens.iter().any(|t| err.contains(t.as_str())) {
                    let sig = format!("problem-not-reported:{}", kind.split('(').next().unwrap_or(""));
                    if env.known.contains(&sig) {
                        st.known(&sig, kind);
                        continue;
                    }
                    return Err(format!(
                        "[{}] the load result does not name {:?} (injected {}); it says: {}\nfile:\n{}",
                        sig,
                        tokens,
                        kind,
                        err.lines().take(6).collect::<Vec<_>>().join(" | "),
                        text
                    ));
                }
            }
            // survivors keep the generator's values
            let expected = db.expected();
            let mut checked = 0;
            for (name, (q, dims)) in expected.iter().take(12) {
                let rep = match call(env, st, &json!({"cmd": "lookup", "name": name}), &format!("lookup of {}", name))? {
                    Some(r) => r,
                    None => return Ok(()),
                };
                let (n, d) = q.reduced();
                let want = format!("{}/{} [{}]", n, d, dims.iter().map(|(k, v)| format!("{}^{}", k, v)).collect::<Vec<_>>().join(" "));
                if rep["exact"].as_str() != Some(want.as_str()) {
                    return Err(format!(
                        "[survivor-wrong-or-missing] after a load with problems, {} is {:?}, the generator says {}\nfile:\n{}",
                        name, rep["exact"], want, text
                    ));
                }
                checked += 1;
            }
            for q in queries.iter().chain(GENERATED_PROBES.iter().map(|x| x.to_string()).collect::<Vec<_>>().iter()) {
                if call(env, st, &json!({"cmd": "eval", "line": q, "save_prev": false, "pinned": true}), &format!("`{}` after {}\nfile:\n{}", q, what, text))?.is_none() {
                    return Ok(());
                }
            }
            if !injections.is_empty() && checked > 0 {
                st.nontrivial(&text);
                st.nt_sample(|| json!({"injections": injections.iter().map(|i| format!("{:?}", i)).collect::<Vec<_>>(), "units": db.units.len(), "reported": err.lines().take(4).collect::<Vec<_>>()}));
            }
            Ok(())
        }
        Case::Scale { kind, n } => {
            let mut base_n = (*n as usize).clamp(10, 20_000);
            if kind % 5 == 0 && base_n <= 10_000 {
                // the query at the far end of an alias chain takes cubic time (2.4 s at 4000 when alone):
                // slow but finite, so keep generated chains where the budget has a wide margin
                base_n = base_n.min(3000);
            }
            // beyond 10000 definitions the recursion in the resolver / canonicaliser is a recorded finding
            // (cycles of any generated length load since the resolver walks iteratively: only the
            // query at the far end of a long alias chain still recurses, in Registry::canonicalize)
            let deep_sig: Option<&str> = if base_n > 10_000 && kind % 5 == 0 { Some("unbounded-recursion-on-chains-beyond-10000-definitions") } else { None };
            let n = if kind % 5 == 2 || kind % 5 == 4 { (base_n * 5).min(100_000) } else { base_n };
            let (text, tokens, probe) = scale_text(*kind, n);
            st.eval();
            st.class(&format!("scale_kind_{}", kind % 5));
            if n > 1000 {
                st.nontrivial(&(kind % 5, n));
                let kname = ["alias chain", "cycle", "blanks", "parentheses", "long comment"][(*kind % 5) as usize];
                st.nt_sample(|| json!({"scale_kind": kname, "n": n}));
            }
            let what = format!("loading a scale case (kind {}, n {})", kind % 5, n);
            let r = match call_sig(env, st, &json!({"cmd": "load_defs", "text": text, "fresh": true}), &what, deep_sig)? {
                Some(r) => r,
                None => return Ok(()),
            };
            let err = r["err"].as_str().unwrap_or("");
            for t in &tokens {
                if !err.contains(t.as_str()) {
                    return Err(format!("[scale-problem-not-reported] {}: the load result does not mention {}: {}", what, t, err.chars().take(300).collect::<String>()));
                }
            }
            if let Some((name, want)) = probe {
                let rep = match call(env, st, &json!({"cmd": "lookup", "name": name}), &format!("lookup of {} after {}", name, what))? {
                    Some(r) => r,
                    None => return Ok(()),
                };
                if rep["exact"].as_str() != Some(want.as_str()) {
                    return Err(format!("[scale-survivor-wrong] {}: {} is {:?}, expected {}", what, name, rep["exact"], want));
                }
                if call_sig(env, st, &json!({"cmd": "eval", "line": name, "save_prev": false, "pinned": true}), &format!("query `{}` after {}", name, what), deep_sig)?.is_none() {
                    return Ok(());
                }
            }
            Ok(())
        }
        Case::SecondLoad { pick, via, form } => {
            let al = bundled_aliases();
            if al.is_empty() {
                return Err("[infrastructure] no alias lines found in the bundled definitions".into());
            }
            let (alias, target) = &al[((*pick as u64 * al.len() as u64) >> 32) as usize];
            // (name, expression) pairs of the second load
            let defs: Vec<(String, String)> = match form % 5 {
                0 => vec![(target.clone(), alias.clone())],
                1 => vec![(target.clone(), format!("1 {}", alias))],
                2 => vec![("zzqa".to_string(), alias.clone()), (target.clone(), "zzqa".to_string())],
                3 => vec![(target.clone(), alias.clone()), (alias.clone(), target.clone())],
                _ => vec![(alias.clone(), alias.clone())],
            };
            st.eval();
            st.class(&format!("second_load_form_{}_via_{}", form % 5, via % 2));
            st.nontrivial(&(pick, via % 2, form % 5));
            st.nt_sample(|| json!({"second_load": defs.clone(), "via": if via % 2 == 0 { "load_definitions" } else { "load_currency" }}));
            if call(env, st, &json!({"cmd": "new_ctx", "pinned": true, "humanize": false}), "new context")?.is_none() {
                return Ok(());
            }
            let what = format!("a second load redefining {:?} ({})", defs, if via % 2 == 0 { "load_definitions" } else { "load_currency" });
            let cmd = if via % 2 == 0 {
                let text: String = defs.iter().map(|(n, e)| format!("{} {}\n", n, e)).collect();
                json!({"cmd": "load_defs", "text": text, "fresh": false})
            } else {
                let js = format!(
                    "[{}]",
                    defs.iter()
                        .map(|(n, e)| format!("{{\"name\":\"{}\",\"doc\":null,\"category\":null,\"type\":\"unit\",\"expr\":\"{}\"}}", n, e))
                        .collect::<Vec<_>>()
                        .join(",")
                );
                json!({"cmd": "load_currency", "json": js, "base": ""})
            };
            if call(env, st, &cmd, &what)?.is_none() {
                return Ok(());
            }
            let mut qs = vec![
                target.clone(),
                alias.clone(),
                format!("3 {} -> {}", target, alias),
                format!("3 {}", alias),
                format!("search {}", target),
                format!("1 {} -> {}, {}", target, target, alias),
                format!("{}s", alias),
                format!("k{}", target),
            ];
            qs.extend(PROBES.iter().take(6).map(|x| x.to_string()));
            for q in qs {
                if call(env, st, &json!({"cmd": "eval", "line": q, "save_prev": false, "pinned": true}), &format!("`{}` after {}", q, what))?.is_none() {
                    return Ok(());
                }
            }
            Ok(())
        }
        Case::RawText(text) => {
            // digit separators may stand anywhere inside a literal, also around its `e`
            // (`.272__e___2________000000000`): judge the text without them
            // (and the definitions lexer skips a backslash inside a literal: `1e\982810912`): keep
            // only letters, digits and the operator characters
            let stripped: String = text.chars().filter(|c| c.is_ascii_alphanumeric() || " \n\t^*<>.|-+()/".contains(*c)).collect();
            if crate::oracle::cost::has_huge_exponent(&stripped) || crate::oracle::cost::has_huge_power(&stripped) {
                st.excluded("text contains a literal exponent or power above 5000 once separators and other non-operator characters are removed");
                return Ok(());
            }
            if crate::oracle::cost::has_huge_exponent(text) {
                st.excluded("text contains a literal exponent above 5000");
                return Ok(());
            }
            if crate::oracle::cost::has_huge_power(text) {
                st.excluded("text raises to a literal power above 5000 (an astronomically large number, C04's resource clause)");
                return Ok(());
            }
            if let Some(why) = crate::oracle::cost::defs_expensive(&env.empty, text) {
                st.excluded(&format!("a definition in the text is expensive by C04's static bound: {}", why));
                return Ok(());
            }
            st.eval();
            st.class("raw_text");
            let run_all = |env: &Env, st: &mut Stats, text: &str| -> Result<Option<()>, String> {
                for cmd in [
                    json!({"cmd": "load_defs", "text": text, "fresh": true}),
                    json!({"cmd": "load_dates", "text": text}),
                    json!({"cmd": "load_currency", "json": text, "base": ""}),
                    json!({"cmd": "eval", "line": "1 + 1", "save_prev": false, "pinned": true}),
                ] {
                    if call(env, st, &cmd, "loading a raw text")?.is_none() {
                        return Ok(None);
                    }
                }
                Ok(Some(()))
            };
            match run_all(env, st, text) {
                Ok(_) => Ok(()),
                Err(e) if e.starts_with("[hang]") => {
                    // A text that no spelling rule above recognises may still be slow only because of
                    // the size of a number it computes. Decide that by experiment: with every numeric
                    // literal replaced by 1 nothing large is left, while a hang in the structure of
                    // the text (a loop in the parser, the resolver, the loader) is still there.
                    let reduced = crate::oracle::cost::reduce_numbers(text);
                    env.hang_mode.set(false);
                    match run_all(env, st, &reduced) {
                        Ok(_) => {
                            st.excluded("slow only because of the size of its numbers: the same text with every numeric literal replaced by 1 loads at once");
                            Ok(())
                        }
                        Err(e2) => Err(format!("{} (and still with every numeric literal replaced by 1: {})", e, e2.chars().take(200).collect::<String>())),
                    }
                }
                Err(e) => Err(e),
            }
        }
        Case::Currency { tape } => {
            let src = std::fs::read_to_string("/repo/core/tests/currency.snapshot.json").map_err(|e| format!("[infrastructure] {}", e))?;
            let js = mutate_json(&src, tape);
            if crate::oracle::cost::has_huge_exponent(&js) {
                st.excluded("text contains a literal exponent above 5000 (an astronomically large number, C04's resource clause)");
                return Ok(());
            }
            st.eval();
            st.class("currency_json");
            st.nontrivial(&("currency", tape));
            let what = "loading mutated currency JSON";
            if call(env, st, &json!({"cmd": "new_ctx", "pinned": true, "humanize": false}), "new context")?.is_none() {
                return Ok(());
            }
            let r = match call(env, st, &json!({"cmd": "load_currency", "json": js, "base": rink_core::CURRENCY_FILE.unwrap_or("")}), what)? {
                Some(r) => r,
                None => return Ok(()),
            };
            st.class(if r["ok"].as_bool() == Some(true) { "currency_accepted" } else { "currency_refused" });
            if let Some(why) = json_mutation_must_be_refused(tape) {
                st.class("currency_feed_wrong_in_shape_or_type");
                if r["ok"].as_bool() == Some(true) {
                    return Err(format!(
                        "[currency-problem-not-reported] the feed was made wrong ({}), but load_currency returned Ok(()) without a message; feed starts: {}",
                        why,
                        js.chars().take(200).collect::<String>()
                    ));
                }
            }
            for q in ["3 foot -> m", "1 EUR", "USD", "1 + 1", "foot", "meter", "kg", "inch", "hour", "loopb"].iter().chain(PROBES.iter()).cloned() {
                match call(env, st, &json!({"cmd": "eval", "line": q, "save_prev": false, "pinned": true}), &format!("`{}` after {}", q, what))? {
                    Some(v) => {
                        if q == "3 foot -> m" && v["text"].as_str() != Some("0.9144 meter (length)") {
                            return Err(format!("[core-damaged-by-currency-load] `3 foot -> m` answers {} after {}", v["text"], what));
                        }
                    }
                    None => return Ok(()),
                }
            }
            Ok(())
        }
    }
}

// ---------------------------------------------------------------------------

fn injection() -> impl Strategy<Value = Injection> {
    prop_oneof![
        Just(Injection::UndefinedRef),
        (1u8..=20).prop_map(Injection::UnitCycle),
        (1u8..=20).prop_map(Injection::PrefixCycle),
        (1u8..=20).prop_map(Injection::QuantityCycle),
        Just(Injection::NonConformableAdd),
        Just(Injection::DuplicateUnit),
        Just(Injection::PrefixRefersToUnit),
        Just(Injection::QuantityOfNonBase),
        Just(Injection::ZeroOutputProperty),
        Just(Injection::ZeroInputProperty),
        Just(Injection::NegativeProperty),
        Just(Injection::NonNumericProperty),
        Just(Injection::SelfReference),
        Just(Injection::MalformedSubstanceShadowingUnit),
        (0u8..6).prop_map(Injection::PrefixDivByZero),
        (0u8..6).prop_map(Injection::QuantityHugePower),
        (0u8..10).prop_map(Injection::ComputedZeroProperty),
        (0u8..8).prop_map(Injection::UnicodeNumericInNumber),
        (0u8..4).prop_map(Injection::ZeroUnit),
        (0u8..8).prop_map(Injection::ReservedName),
        (0u8..5).prop_map(Injection::SymbolOddMolarMass),
    ]
}

pub fn case_strategy(tier: Tier) -> impl Strategy<Value = Case> {
    let w_mut = tier.pick(2, 2);
    prop_oneof![
        w_mut => (0u8..3, proptest::collection::vec(any::<u32>(), 4..40)).prop_map(|(file, tape)| Case::Mutated { file, tape }),
        // the small files are cheap to load: mutate them far more often
        6 => (1u8..3, proptest::collection::vec(any::<u32>(), 4..40)).prop_map(|(file, tape)| Case::Mutated { file, tape }),
        24 => (db_strategy(30), proptest::collection::vec(injection(), 0..=4), proptest::collection::vec(0u32..8, 0..80))
            .prop_map(|(db, injections, shuffle)| Case::Generated { db, injections, shuffle }),
        2 => (0u8..5, prop_oneof![3 => 10u32..2000, 1 => 2000u32..=10_000]).prop_map(|(kind, n)| Case::Scale { kind, n }),
        4 => proptest::collection::vec(any::<u32>(), 2..6).prop_map(|tape| Case::Currency { tape }),
        3 => (any::<u32>(), 0u8..2, 0u8..5).prop_map(|(pick, via, form)| Case::SecondLoad { pick, via, form }),
    ]
}

pub fn run(cx: &Cx) -> Report {
    let mut rep = Report::new(RULE);
    rep.assumptions = vec![
        "cycles and alias chains are generated up to 10000 definitions (the bundled file has about 2700) and parentheses up to depth 1000; beyond that see the recorded finding about unbounded recursion (witnesses at 20000 are replayed from regress/)".into(),
        "a problem counts as reported when the load's error text names one of the definitions involved".into(),
        "hangs are judged with a 20 s budget per command (typical latency is milliseconds) and confirmed alone with 60 s".into(),
    ];
    let known = cx.known.clone();
    crate::regress::run(cx, &mut rep, &replay);
    MAX_SHRINK_ITERS.store(300, std::sync::atomic::Ordering::Relaxed);
    let k = known.clone();
    let tier = cx.tier;
    rep.absorb(par_proptest(
        cx,
        "random",
        cx.tier.pick(12_000, 600_000),
        move || case_strategy(tier),
        move || mk_env(k.clone()),
        |env, c, st| check(env, c, st),
        |c| serde_json::to_value(c).unwrap(),
    ));
    rep.mark(cx, "random");
    // fixed scale witnesses at the upper end
    let k = known.clone();
    let items: Vec<Case> = vec![
        Case::Scale { kind: 0, n: 3000 },
        Case::Scale { kind: 1, n: 10_000 },
        Case::Scale { kind: 1, n: 5000 },
        Case::Scale { kind: 2, n: 20_000 },
        Case::Scale { kind: 3, n: 1000 },
        Case::Scale { kind: 4, n: 20_000 },
        Case::Scale { kind: 0, n: 1000 },
    ];
    rep.absorb(par_sweep(
        cx,
        "scale-witnesses",
        items,
        move || mk_env(k.clone()),
        |env, c, st| check(env, c, st),
        |c| serde_json::to_value(c).unwrap(),
    ));
    rep.mark(cx, "scale");
    if cx.tier == Tier::Thorough {
        // artifacts of the `defs` libFuzzer campaign, replayed as definition files in the worker
        let fz = verif_root().join("harness").join("fuzz");
        let summary = std::fs::read_to_string(fz.join("last-defs.txt")).unwrap_or_else(|_| "no campaign ran".into());
        rep.stats.note("fuzz_campaign", json!(summary.trim()));
        let mut texts: Vec<String> = vec![];
        if let Ok(rd) = std::fs::read_dir(fz.join("artifacts").join("defs")) {
            let mut files: Vec<_> = rd.filter_map(|e| e.ok()).map(|e| e.path()).collect();
            files.sort();
            for f in files.into_iter().take(200) {
                if let Ok(b) = std::fs::read(&f) {
                    texts.push(String::from_utf8_lossy(&b).to_string());
                }
            }
        }
        rep.stats.note("fuzz_artifacts_replayed", json!(texts.len()));
        let k = known.clone();
        rep.absorb(par_sweep(
            cx,
            "fuzz-artifacts",
            texts,
            move || mk_env(k.clone()),
            |env, text, st| check(env, &Case::RawText(text.clone()), st),
            |text| json!({"RawText": text}),
        ));
    }
    let _ = regdump::numeric_text;
    rep
}

pub fn replay(cx: &Cx, _phase: &str, case: &J, st: &mut Stats) -> CaseResult {
    let env = mk_env(cx.known.clone());
    let c: Case = serde_json::from_value(case.clone()).map_err(|e| format!("bad case: {}", e))?;
    check(&env, &c, st)
}
