//! C12 — definition order does not matter.

use crate::engine::*;
use crate::gen::defs::*;
use crate::oracle::regdump;
use crate::props::c08::capture_stdout;
use proptest::prelude::*;
use rink_core::ast::{Def, DefEntry, Defs, Expr};
use rink_core::loader::gnu_units;
use rink_core::Context;
use serde_derive::{Deserialize, Serialize};
use serde_json::{json, Value as J};
use std::collections::{BTreeMap, BTreeSet};

pub const RULE: &str = "case = (definition list, permutation given as a vector of sort keys): the bundled definitions (quick: core; \
thorough: also core + currency.units + snapshot) under reversal, rotations, interleavings and seeded uniform shuffles, and generated \
databases (acyclic graphs of up to 60 units with forward, prefixed and plural references, prefixes, quantities, substances with const \
and ratio properties, docs, categories) under 4 permutations each. Oracle: the canonical exact registry dump and the set of reported \
problems are identical to those of the original order. Entries sharing (namespace, name) are reduced to the one that wins in the \
shipped order first (the statement's premise is uniquely named definitions). Non-trivial = distinct (database, permutation) that \
places at least one definition before something it depends on. Phase cli-split: 2..10 generated user units that refer to bundled units \
and to each other (bare, prefixed, plural), split over ./definitions.units and <config>/rink/definitions.units in a generated order, \
queried through the real rink binary and compared with the same units in one file in dependency order; non-trivial there = a reference \
that crosses the two files.";

fn clone_entry(e: &DefEntry) -> DefEntry {
    DefEntry {
        name: e.name.clone(),
        def: e.def.clone(),
        doc: e.doc.clone(),
        category: e.category.clone(),
    }
}

fn namespace(d: &Def) -> u8 {
    match d {
        Def::Prefix { .. } => 1,
        Def::Quantity { .. } => 2,
        Def::Category { .. } => 3,
        _ => 0,
    }
}

/// keep, for each (namespace, name), the entry that wins in the given order (the last one)
pub fn dedupe(defs: Vec<DefEntry>) -> (Vec<DefEntry>, usize) {
    let mut last: BTreeMap<(u8, String), usize> = BTreeMap::new();
    for (i, e) in defs.iter().enumerate() {
        last.insert((namespace(&e.def), e.name.clone()), i);
    }
    let keep: BTreeSet<usize> = last.values().cloned().collect();
    let n = defs.len();
    let out: Vec<DefEntry> = defs.into_iter().enumerate().filter(|(i, _)| keep.contains(i)).map(|(_, e)| e).collect();
    let removed = n - out.len();
    (out, removed)
}

fn names_in(e: &Expr, out: &mut Vec<String>) {
    match e {
        Expr::Unit { name } => out.push(name.clone()),
        Expr::Of { expr, .. } => names_in(expr, out),
        Expr::BinOp(b) => {
            names_in(&b.left, out);
            names_in(&b.right, out);
        }
        Expr::UnaryOp(u) => names_in(&u.expr, out),
        Expr::Mul { exprs } => exprs.iter().for_each(|x| names_in(x, out)),
        Expr::Call { args, .. } => args.iter().for_each(|x| names_in(x, out)),
        _ => {}
    }
}

/// (dependent index, dependency index) pairs by exact name
pub fn dependency_edges(defs: &[DefEntry]) -> Vec<(usize, usize)> {
    let mut by_name: BTreeMap<&str, usize> = BTreeMap::new();
    for (i, e) in defs.iter().enumerate() {
        by_name.insert(e.name.as_str(), i);
    }
    let mut edges = vec![];
    for (i, e) in defs.iter().enumerate() {
        let mut names = vec![];
        match &*e.def {
            Def::Prefix { expr, .. } | Def::Unit { expr } | Def::Quantity { expr } => names_in(&expr.0, &mut names),
            Def::Substance { properties, .. } => {
                for p in properties {
                    names_in(&p.input.0, &mut names);
                    names_in(&p.output.0, &mut names);
                }
            }
            _ => {}
        }
        for n in names {
            if let Some(j) = by_name.get(n.as_str()) {
                if *j != i {
                    edges.push((i, *j));
                }
            }
        }
    }
    edges
}

pub struct Loaded {
    pub dump: String,
    pub problems: BTreeSet<String>,
}

pub fn load_order(defs: &[DefEntry], order: &[usize]) -> Result<Loaded, String> {
    let list: Vec<DefEntry> = order.iter().map(|i| clone_entry(&defs[*i])).collect();
    let mut out = None;
    let r = catch(|| {
        let mut ctx = Context::new();
        let mut res = None;
        let _ = capture_noop(|| res = Some(ctx.load(Defs { defs: list })));
        (ctx, res.unwrap())
    });
    match r {
        Ok((ctx, res)) => {
            let problems: BTreeSet<String> = match res {
                Ok(()) => BTreeSet::new(),
                Err(e) => e.lines().skip(1).map(|l| l.trim().to_string()).collect(),
            };
            out = Some(Loaded {
                dump: regdump::dump(&ctx),
                problems,
            });
        }
        Err(p) => return Err(p),
    }
    Ok(out.unwrap())
}

fn capture_noop(f: impl FnOnce()) {
    f()
}

/// permutation from sort keys (stable): all-equal keys = identity
pub fn order_from_keys(n: usize, keys: &[u32]) -> Vec<usize> {
    let mut idx: Vec<usize> = (0..n).collect();
    idx.sort_by_key(|i| (keys.get(*i).cloned().unwrap_or(0), *i));
    idx
}

fn inversions(order: &[usize], edges: &[(usize, usize)]) -> usize {
    let mut pos = vec![0usize; order.len()];
    for (p, i) in order.iter().enumerate() {
        pos[*i] = p;
    }
    edges.iter().filter(|(a, b)| pos[*a] < pos[*b]).count()
}

fn compare(base: &Loaded, other: &Loaded) -> Result<(), String> {
    if base.problems != other.problems {
        let a: Vec<&String> = base.problems.difference(&other.problems).take(3).collect();
        let b: Vec<&String> = other.problems.difference(&base.problems).take(3).collect();
        return Err(format!(
            "[reported-problems-differ] original order only: {:?}; permuted order only: {:?}",
            a, b
        ));
    }
    if base.dump != other.dump {
        return Err(format!("[registry-differs] {}", regdump::diff(&base.dump, &other.dump, 4).join(" ; ")));
    }
    Ok(())
}

// --- bundled ---------------------------------------------------------------

pub struct Bundled {
    pub defs: Vec<DefEntry>,
    pub removed: usize,
    pub edges: Vec<(usize, usize)>,
    pub base: Loaded,
}

pub fn bundled(with_currency: bool) -> Result<Bundled, String> {
    let mut defs = vec![];
    let _ = capture_stdout(|| {
        defs = gnu_units::parse_str(rink_core::DEFAULT_FILE.unwrap_or("")).defs;
        if with_currency {
            defs.extend(gnu_units::parse_str(rink_core::CURRENCY_FILE.unwrap_or("")).defs);
        }
    });
    if with_currency {
        let live = std::fs::read_to_string("/repo/core/tests/currency.snapshot.json").map_err(|e| e.to_string())?;
        let extra: Vec<DefEntry> = serde_json::from_str(&live).map_err(|e| e.to_string())?;
        defs.extend(extra);
    }
    let (defs, removed) = dedupe(defs);
    let edges = dependency_edges(&defs);
    let order: Vec<usize> = (0..defs.len()).collect();
    let base = load_order(&defs, &order)?;
    Ok(Bundled {
        defs,
        removed,
        edges,
        base,
    })
}

#[derive(Clone, Debug, Serialize, Deserialize)]
pub enum Perm {
    Reverse,
    Rotate(u32),
    /// interleave: i -> (i * stride) mod n for a stride coprime to n
    Stride(u32),
    Keys(Vec<u32>),
    /// split into files by key % k, concatenated in key order (within-file order kept)
    Files(u8, Vec<u8>),
}

fn perm_order(n: usize, p: &Perm) -> Vec<usize> {
    match p {
        Perm::Reverse => (0..n).rev().collect(),
        Perm::Rotate(k) => (0..n).map(|i| (i + *k as usize) % n.max(1)).collect(),
        Perm::Stride(s) => {
            let mut s = (*s as usize % n.max(1)).max(1);
            while gcd(s, n) != 1 {
                s += 1;
            }
            (0..n).map(|i| (i * s) % n).collect()
        }
        Perm::Keys(k) => order_from_keys(n, k),
        Perm::Files(k, assign) => {
            let k = (*k).clamp(1, 3) as usize;
            let mut files: Vec<Vec<usize>> = vec![vec![]; k];
            for i in 0..n {
                files[assign.get(i).cloned().unwrap_or(0) as usize % k].push(i);
            }
            files.concat()
        }
    }
}

fn gcd(a: usize, b: usize) -> usize {
    if b == 0 {
        a
    } else {
        gcd(b, a % b)
    }
}

fn perm_strategy(n: usize) -> impl Strategy<Value = Perm> {
    prop_oneof![
        1 => Just(Perm::Reverse),
        2 => (1u32..n as u32).prop_map(Perm::Rotate),
        2 => (2u32..n as u32).prop_map(Perm::Stride),
        6 => proptest::collection::vec(any::<u32>(), n).prop_map(Perm::Keys),
        3 => (1u8..=3, proptest::collection::vec(0u8..3, n)).prop_map(|(k, a)| Perm::Files(k, a)),
    ]
}

fn check_bundled(b: &Bundled, p: &Perm, which: &str, st: &mut Stats, known: &BTreeSet<String>) -> CaseResult {
    let order = perm_order(b.defs.len(), p);
    st.eval();
    let inv = inversions(&order, &b.edges);
    let key = (which, crate::engine::hash_of(&order));
    if inv > 0 {
        st.nontrivial(&key);
        st.nt_sample(|| json!({"database": which, "permutation": perm_label(p), "dependency_inversions": inv}));
    }
    st.class(&format!("bundled_{}", perm_kind(p)));
    match load_order(&b.defs, &order) {
        Ok(l) => compare(&b.base, &l).or_else(|e| known_or(known, st, e, which)),
        Err(pn) => known_or(known, st, format!("[{}] loading a permutation panicked: {}", panic_signature(&pn), pn), which),
    }
}

fn known_or(known: &BTreeSet<String>, st: &mut Stats, e: String, example: &str) -> CaseResult {
    let sig = e.trim_start_matches('[').split(']').next().unwrap_or("").to_string();
    if known.contains(&sig) {
        st.known(&sig, example);
        Ok(())
    } else {
        Err(e)
    }
}

fn perm_kind(p: &Perm) -> &'static str {
    match p {
        Perm::Reverse => "reverse",
        Perm::Rotate(_) => "rotate",
        Perm::Stride(_) => "stride",
        Perm::Keys(_) => "shuffle",
        Perm::Files(..) => "files",
    }
}

fn perm_label(p: &Perm) -> String {
    match p {
        Perm::Keys(k) => format!("shuffle(keys hash {:x})", crate::engine::hash_of(k)),
        Perm::Files(k, a) => format!("files({}, assignment hash {:x})", k, crate::engine::hash_of(a)),
        other => format!("{:?}", other),
    }
}

// --- synthetic --------------------------------------------------------------

#[derive(Clone, Debug, Serialize, Deserialize)]
pub struct SynCase {
    pub db: SynDb,
    pub perms: Vec<Vec<u32>>,
}

pub fn check_syn(c: &SynCase, st: &mut Stats, known: &BTreeSet<String>) -> CaseResult {
    let text = c.db.text();
    let mut defs = vec![];
    let printed = capture_stdout(|| defs = gnu_units::parse_str(&text).defs);
    if !printed.trim().is_empty() {
        return Err(format!("harness: generated text has parse warnings: {}\n{}", printed, text));
    }
    let (defs, _removed) = dedupe(defs);
    let edges = dependency_edges(&defs);
    let n = defs.len();
    let ident: Vec<usize> = (0..n).collect();
    let base = match load_order(&defs, &ident) {
        Ok(b) => b,
        Err(p) => return known_or(known, st, format!("[{}] loading panicked: {}\n{}", panic_signature(&p), p, text), "synthetic"),
    };
    st.class(if base.problems.is_empty() { "synthetic_loads_clean" } else { "synthetic_with_reported_problems" });
    // the generator's own expectation: clean load, and known values
    if !base.problems.is_empty() {
        return Err(format!(
            "harness: a generated database was expected to load cleanly but reported {:?}\n{}",
            base.problems.iter().take(3).collect::<Vec<_>>(),
            text
        ));
    }
    // the loaded values are the ones the generator computed independently
    if let Err(e) = check_expected(&c.db, &defs) {
        return known_or(known, st, format!("{}\ndatabase:\n{}", e, text), "synthetic");
    }
    // reversed order always, plus the generated permutations
    let mut orders: Vec<Vec<usize>> = vec![(0..n).rev().collect()];
    for k in &c.perms {
        orders.push(order_from_keys(n, k));
    }
    for order in orders {
        st.eval();
        let inv = inversions(&order, &edges);
        if inv > 0 {
            st.nontrivial(&(crate::engine::hash_of(&text), crate::engine::hash_of(&order)));
            st.nt_sample(|| json!({"database": text, "order": order, "dependency_inversions": inv}));
        }
        match load_order(&defs, &order) {
            Ok(l) => {
                if let Err(e) = compare(&base, &l) {
                    let names: Vec<&str> = order.iter().map(|i| defs[*i].name.as_str()).collect();
                    return known_or(known, st, format!("{}\norder: {:?}\ndatabase:\n{}", e, names, text), "synthetic");
                }
            }
            Err(p) => {
                return known_or(known, st, format!("[{}] loading a permutation panicked: {}\n{}", panic_signature(&p), p, text), "synthetic")
            }
        }
    }
    Ok(())
}

/// load in the given order and compare every unit with the generator's exact value
pub fn check_expected(db: &SynDb, defs: &[DefEntry]) -> Result<(), String> {
    let list: Vec<DefEntry> = defs.iter().map(clone_entry).collect();
    let mut ctx = Context::new();
    let _ = ctx.load(Defs { defs: list });
    for (name, (q, dims)) in db.expected() {
        match ctx.lookup(&name) {
            Some(n) => {
                let got_d = crate::rinkx::dims_of(&n);
                let ok = match crate::rinkx::rational_of(&n.value) {
                    Some((a, b)) => crate::oracle::refarith::Q::new(a, b).eq_val(&q) && got_d == dims,
                    None => false,
                };
                if !ok {
                    let (en, ed) = q.reduced();
                    return Err(format!(
                        "[loaded-value-wrong] unit {} loaded as {} but its definition text means {}/{} {:?}",
                        name,
                        regdump::number_text(&n),
                        en,
                        ed,
                        dims
                    ));
                }
            }
            None => return Err(format!("[loaded-unit-missing] unit {} did not load", name)),
        }
    }
    Ok(())
}

// ---------------------------------------------------------------------------
// splitting across the files the CLI finds (./, the config directory, the bundled file)
// ---------------------------------------------------------------------------

/// user definitions extending the bundled database, split over the two user files of the
/// CLI's search path; `tape` drives names, references, placement and order
#[derive(Clone, Debug, Serialize, Deserialize)]
pub struct SplitCase {
    pub tape: Vec<u32>,
}

pub struct SplitPlan {
    /// (name, definition line, indices of the user units it refers to)
    pub units: Vec<(String, String, Vec<usize>)>,
    /// file per unit: 0 = ./definitions.units, 1 = <config>/rink/definitions.units
    pub place: Vec<u8>,
    /// order of the lines within the files (a permutation of 0..n)
    pub order: Vec<usize>,
}

/// `[k ]molar_mass of <formula>` with a generated formula, kept only if the tree under test answers it
/// as a query against the bundled database (a spelling that is also a unit name, or one the formula
/// reader refuses, is not a sound input for this phase: the caller keeps its fixed text then)
fn formula_text(t: &mut crate::gen::query::Tape) -> Option<String> {
    const ELEMENTS: [&str; 16] = ["H", "C", "N", "O", "Na", "Cl", "Fe", "S", "K", "Ca", "He", "Hg", "Si", "Mg", "Al", "Cu"];
    let k = 1 + t.pick(4);
    let mut f = String::new();
    for _ in 0..k {
        f.push_str(ELEMENTS[t.pick(ELEMENTS.len())]);
        match t.pick(10) {
            0..=2 => {}
            3..=5 => f.push_str(&format!("{}", 2 + t.pick(8))),
            _ => f.push_str(&format!("{}", 10 + t.pick(190))),
        }
    }
    let text = if t.chance(25) { format!("{} molar_mass of {}", 2 + t.pick(5), f) } else { format!("molar_mass of {}", f) };
    thread_local! {
        static CTX: Option<rink_core::Context> = crate::rinkx::try_new_ctx().ok();
    }
    let ok = CTX.with(|c| match c {
        Some(ctx) => matches!(crate::rinkx::eval_line(ctx, &text), crate::rinkx::Out::Reply(_)),
        None => false,
    });
    if ok {
        Some(text)
    } else {
        None
    }
}

pub fn split_plan(tape: &[u32]) -> SplitPlan {
    let mut t = crate::gen::query::Tape::new(tape);
    let n = 2 + t.pick(9);
    // short and long names of base units among them: a user unit may sort before `kg` / `m` / `s`
    // (`dam`, `dag`, `daN`: names through the prefix `da`, which has the prefix `d` as its own prefix)
    const BUNDLED: [&str; 19] = [
        "meter", "foot", "kg", "hour", "inch", "liter", "newton", "second", "kilogram", "kelvin", "m", "s", "candela", "mole", "ampere", "dam", "dag", "daN", "yoctometer",
    ];
    // capitals sort before every lower-case name of the bundled file
    let stem = ["zqv", "aqv", "kqv", "AAq", "Zqv"][t.pick(5)];
    let mut units: Vec<(String, String, Vec<usize>)> = vec![];
    for i in 0..n {
        let name = format!("{}{}x", stem, i);
        let mut text = format!("{}", 1 + t.pick(12));
        if t.chance(30) {
            text = format!("{}|{}", text, 1 + t.pick(7));
        }
        let mut refs = vec![];
        let nf = 1 + t.pick(3);
        for _ in 0..nf {
            // refer to an earlier user unit as often as possible: those references are the point
            let factor = if i > 0 && t.chance(65) {
                let j = t.pick(i);
                refs.push(j);
                let base = format!("{}{}x", stem, j);
                match t.pick(4) {
                    0 => format!("kilo{}", base),
                    1 => format!("{}s", base),
                    2 => format!("milli{}s", base),
                    _ => base,
                }
            } else {
                BUNDLED[t.pick(BUNDLED.len())].to_string()
            };
            let pw = [1i32, 1, 1, 2, -1, -2][t.pick(6)];
            if pw == 1 {
                text.push_str(&format!(" {}", factor));
            } else {
                text.push_str(&format!(" {}^{}", factor, pw));
            }
        }
        // now and then the whole definition is a property of a bundled substance, named by its
        // name, its symbol or a formula (`molar_mass of CO2`): a reference the loader has to order too
        if t.chance(15) {
            text = [
                "molar_mass of CO2",
                "molar_mass of NaCl",
                "molar_mass of He",
                "molar_mass of C2H5OH",
                "density of water",
                "molar_mass of Fe",
                "density of Hg",
                "3 molar_mass of CH4",
            ][t.pick(8)]
            .to_string();
            // more often than not a formula from a grammar instead: one to four element symbols, each
            // with no count, a one-digit or a several-digit count, the same element possibly twice
            // (`C12H22O11`, `CH3COOH`); the loader has to find the elements behind every such spelling
            if t.chance(60) {
                if let Some(f) = formula_text(&mut t) {
                    text = f;
                }
            }
            refs.clear();
        }
        units.push((name.clone(), format!("{} {}\n", name, text), refs));
    }
    let place: Vec<u8> = (0..n).map(|_| t.pick(2) as u8).collect();
    let keys: Vec<u32> = (0..n).map(|_| t.pick(64) as u32).collect();
    let order = order_from_keys(n, &keys);
    SplitPlan { units, place, order }
}

fn run_rink_with_files(cwd_file: &str, cfg_file: &str, queries: &[String]) -> Result<(bool, String, String), String> {
    let rink = verif_root().join("harness").join("target-rink").join("debug").join("rink");
    if !rink.exists() {
        return Err("[infrastructure] the rink binary is not built (./check --build)".into());
    }
    static SEQ: std::sync::atomic::AtomicU32 = std::sync::atomic::AtomicU32::new(0);
    let dir = std::env::temp_dir().join(format!("rv-c12-cli-{}-{}", std::process::id(), SEQ.fetch_add(1, std::sync::atomic::Ordering::Relaxed)));
    let cfg = dir.join("config").join("rink");
    let cwd = dir.join("cwd");
    let io = |e: std::io::Error| format!("[infrastructure] {}", e);
    std::fs::create_dir_all(&cfg).map_err(io)?;
    std::fs::create_dir_all(&cwd).map_err(io)?;
    std::fs::write(cfg.join("config.toml"), "[currency]\nenabled = false\n[colors]\nenabled = false\n").map_err(io)?;
    if !cwd_file.is_empty() {
        std::fs::write(cwd.join("definitions.units"), cwd_file).map_err(io)?;
    }
    if !cfg_file.is_empty() {
        std::fs::write(cfg.join("definitions.units"), cfg_file).map_err(io)?;
    }
    let input = dir.join("input.txt");
    std::fs::write(&input, queries.join("\n") + "\n").map_err(io)?;
    let out = std::process::Command::new("timeout")
        .arg("120")
        .arg(&rink)
        .arg("-f")
        .arg(&input)
        .current_dir(&cwd)
        .env("HOME", &dir)
        .env("XDG_CONFIG_HOME", dir.join("config"))
        .env("XDG_CACHE_HOME", dir.join("cache"))
        .env("NO_COLOR", "1")
        .output();
    let _ = std::fs::remove_dir_all(&dir);
    match out {
        Ok(o) => Ok((o.status.success(), String::from_utf8_lossy(&o.stdout).to_string(), String::from_utf8_lossy(&o.stderr).to_string())),
        Err(e) => Err(format!("[infrastructure] cannot run rink: {}", e)),
    }
}

/// the same user definitions, (a) all in the config-directory file in dependency order and
/// (b) split over ./definitions.units and the config-directory file in a generated order,
/// must give the real `rink` binary the same answers
pub fn check_split(c: &SplitCase, st: &mut Stats, known: &BTreeSet<String>) -> CaseResult {
    let plan = split_plan(&c.tape);
    let n = plan.units.len();
    let queries: Vec<String> = plan.units.iter().flat_map(|(name, _, _)| vec![name.clone(), format!("7 {}", name)]).collect();
    // names of the bundled database that have several prefix + unit readings, and a few that do not:
    // adding user definitions must not change what they mean
    let bundled_queries: Vec<String> = ["1 daA", "1 dat", "1 dau", "1 dasb", "1 yoctodecillion", "1 dam", "1 km", "1 hg", "3 foot", "1 mins", "1 pA", "1 PA"].iter().map(|s| s.to_string()).collect();
    let reference: String = plan.units.iter().map(|u| u.1.clone()).collect();
    let mut files = [String::new(), String::new()];
    for i in &plan.order {
        files[plan.place[*i] as usize].push_str(&plan.units[*i].1);
    }
    let crossing = (0..n).filter(|i| plan.units[*i].2.iter().any(|j| plan.place[*j] != plan.place[*i])).count();
    // references from the config-directory file into ./definitions.units and the other way round
    let cfg_to_cwd = (0..n).filter(|i| plan.place[*i] == 1 && plan.units[*i].2.iter().any(|j| plan.place[*j] == 0)).count();
    let cwd_to_cfg = (0..n).filter(|i| plan.place[*i] == 0 && plan.units[*i].2.iter().any(|j| plan.place[*j] == 1)).count();
    st.evals(2);
    st.class("cli_split");
    if plan.units.iter().any(|u| u.1.contains(" of ")) {
        st.class("cli_split_refers_to_substance_or_formula");
    }
    if plan.units.iter().any(|u| {
        u.1.split(" of ").nth(1).map_or(false, |f| {
            let b = f.trim().as_bytes();
            b.windows(2).any(|w| w[0].is_ascii_digit() && w[1].is_ascii_digit())
        })
    }) {
        st.class("cli_split_formula_with_several_digit_count");
    }
    if cfg_to_cwd > 0 {
        st.class("cli_split_config_file_refers_to_cwd_file");
    }
    if cwd_to_cfg > 0 {
        st.class("cli_split_cwd_file_refers_to_config_file");
    }
    {
        // what the bundled names mean with no user file at all (computed once per process)
        static BASE: std::sync::OnceLock<Result<String, String>> = std::sync::OnceLock::new();
        let base = BASE.get_or_init(|| run_rink_with_files("", "", &bundled_queries).map(|(_, out, _)| out));
        let base = base.clone()?;
        let (ok_x, out_x, err_x) = run_rink_with_files(&files[0], &files[1], &bundled_queries)?;
        st.evals(1);
        if ok_x && out_x != base {
            let diff: Vec<String> = base.lines().zip(out_x.lines()).zip(bundled_queries.iter()).filter(|((a, b), _)| a != b).map(|((a, b), q)| format!("`{}`: `{}` -> `{}`", q, a, b)).collect();
            return known_or(
                known,
                st,
                format!(
                    "[user-definitions-change-bundled-names] with these user files, names of the bundled database mean something else: {}\n./definitions.units:\n{}<config>/rink/definitions.units:\n{}",
                    diff.join("; "),
                    files[0],
                    files[1]
                ),
                "cli-split",
            );
        }
        let _ = err_x;
    }
    let (ok_a, out_a, err_a) = run_rink_with_files("", &reference, &queries)?;
    if !ok_a || out_a.contains("No such unit") || out_a.lines().count() != queries.len() {
        return known_or(
            known,
            st,
            format!(
                "[cli-user-definitions-rejected] user definitions in one file, in dependency order, were not all answered: status ok = {}, stdout `{}`, stderr `{}`\nfile:\n{}",
                ok_a,
                out_a.chars().take(300).collect::<String>(),
                err_a.chars().take(300).collect::<String>(),
                reference
            ),
            "cli-split",
        );
    }
    let (ok_b, out_b, err_b) = run_rink_with_files(&files[0], &files[1], &queries)?;
    if crossing > 0 {
        st.nontrivial(&(crate::engine::hash_of(&files[0]), crate::engine::hash_of(&files[1])));
        st.nt_sample(|| json!({"./definitions.units": files[0], "<config>/rink/definitions.units": files[1], "references_crossing_files": crossing}));
    }
    if !ok_b || out_b != out_a {
        return known_or(
            known,
            st,
            format!(
                "[split-across-files-differs] the same {} definitions answer differently when split over the CLI's two user files: status ok = {}; one file: `{}`; split: `{}` stderr `{}`\n./definitions.units:\n{}<config>/rink/definitions.units:\n{}",
                n,
                ok_b,
                out_a.chars().take(240).collect::<String>(),
                out_b.chars().take(240).collect::<String>(),
                err_b.chars().take(300).collect::<String>(),
                files[0],
                files[1]
            ),
            "cli-split",
        );
    }
    Ok(())
}

pub fn syn_strategy(max_units: usize) -> impl Strategy<Value = SynCase> {
    (db_strategy(max_units), proptest::collection::vec(proptest::collection::vec(0u32..64, 0..120), 3)).prop_map(|(db, perms)| SynCase { db, perms })
}

pub fn run(cx: &Cx) -> Report {
    let mut rep = Report::new(RULE);
    rep.assumptions = vec![
        "entries sharing (namespace, name) are reduced to the one that wins in the shipped order before permuting (the bundled file declares category `japanese` twice)".into(),
        "in the library phases splitting across files equals concatenation, which is what the CLI does with the files it finds (cli/src/config.rs); the cli-split phase checks that with the real binary and user files on its search path".into(),
        "the registry's public fields are the database; prefix order in the registry is part of the dump".into(),
    ];
    let known = cx.known.clone();
    crate::regress::run(cx, &mut rep, &replay);

    let configs: Vec<bool> = if cx.tier == Tier::Thorough { vec![false, true] } else { vec![false] };
    for with_currency in configs {
        let which: &'static str = if with_currency { "core+currency" } else { "core" };
        let n = match bundled(with_currency) {
            Ok(b) => {
                rep.stats.note(&format!("{}_entries", which), json!(b.defs.len()));
                rep.stats.note(&format!("{}_duplicates_removed", which), json!(b.removed));
                rep.stats.note(&format!("{}_dependency_edges", which), json!(b.edges.len()));
                b.defs.len()
            }
            Err(e) => {
                rep.violations.push(Violation {
                    phase: "bundled-original-order".into(),
                    case: json!({"bundled": which, "perm": Perm::Rotate(0)}),
                    detail: format!("[load-panicked] loading the bundled definitions in their shipped order failed: {}", e),
                });
                return rep;
            }
        };
        let k = known.clone();
        rep.absorb(par_proptest(
            cx,
            if with_currency { "bundled-currency" } else { "bundled-core" },
            cx.tier.pick(320, 3000),
            move || perm_strategy(n),
            move || bundled(with_currency).expect("bundled"),
            move |b, p, st| check_bundled(b, p, which, st, &k),
            move |p| json!({"bundled": which, "perm": p}),
        ));
        rep.mark(cx, which);
    }
    let k = known.clone();
    rep.absorb(par_proptest(
        cx,
        "synthetic",
        cx.tier.pick(6000, 150_000),
        || syn_strategy(60),
        || (),
        move |_, c, st| check_syn(c, st, &k),
        |c| json!({"syn": c}),
    ));
    rep.mark(cx, "synthetic");
    // the CLI's own way of splitting: user files on the search path next to the bundled file
    let k = known.clone();
    // every shrink step runs the binary twice
    let shrink_iters = MAX_SHRINK_ITERS.swap(80, std::sync::atomic::Ordering::Relaxed);
    rep.absorb(par_proptest(
        cx,
        "cli-split",
        cx.tier.pick(160, 4000),
        || proptest::collection::vec(any::<u32>(), 20..90).prop_map(|tape| SplitCase { tape }),
        || (),
        move |_, c, st| check_split(c, st, &k),
        |c| json!({"split": c}),
    ));
    MAX_SHRINK_ITERS.store(shrink_iters, std::sync::atomic::Ordering::Relaxed);
    rep.mark(cx, "cli-split");
    rep
}

pub fn replay(cx: &Cx, _phase: &str, case: &J, st: &mut Stats) -> CaseResult {
    if let Some(w) = case.get("bundled").and_then(|b| b.as_str()) {
        let with_currency = w == "core+currency";
        let b = bundled(with_currency)?;
        let p: Perm = serde_json::from_value(case["perm"].clone()).map_err(|e| format!("bad case: {}", e))?;
        return check_bundled(&b, &p, if with_currency { "core+currency" } else { "core" }, st, &cx.known);
    }
    if case.get("split").is_some() {
        let c: SplitCase = serde_json::from_value(case["split"].clone()).map_err(|e| format!("bad case: {}", e))?;
        return check_split(&c, st, &cx.known);
    }
    let c: SynCase = serde_json::from_value(case["syn"].clone()).map_err(|e| format!("bad case: {}", e))?;
    check_syn(&c, st, &cx.known)
}
