//! C12 — definition order does not matter.

use crate::engine::*;
use crate::gen::defs::*;
use crate::oracle::regdump;
use crate::props::c08::capture_stdout;
use proptest::prelude::*;
use rink_core::ast::{Def, DefEntry, Defs, Expr};
use rink_core::loader::gnu_units;
use rink_core::Context;
use serde_derive::{Deserialize, Serialize};
use serde_json::{json, Value as J};
use std::collections::{BTreeMap, BTreeSet};

pub const RULE: &str = "case = (definition list, permutation given as a vector of sort keys): the bundled definitions (quick: core; \
thorough: also core + currency.units + snapshot) under reversal, rotations, interleavings and seeded uniform shuffles, and generated \
databases (acyclic graphs of up to 60 units with forward, prefixed and plural references, prefixes, quantities, substances with const \
and ratio properties, docs, categories) under 4 permutations each. Oracle: the canonical exact registry dump and the set of reported \
problems are identical to those of the original order. Entries sharing (namespace, name) are reduced to the one that wins in the \
shipped order first (the statement's premise is uniquely named definitions). Non-trivial = distinct (database, permutation) that \
places at least one definition before something it depends on.";

fn clone_entry(e: &DefEntry) -> DefEntry {
    DefEntry {
        name: e.name.clone(),
        def: e.def.clone(),
        doc: e.doc.clone(),
        category: e.category.clone(),
    }
}

fn namespace(d: &Def) -> u8 {
    match d {
        Def::Prefix { .. } => 1,
        Def::Quantity { .. } => 2,
        Def::Category { .. } => 3,
        _ => 0,
    }
}

/// keep, for each (namespace, name), the entry that wins in the given order (the last one)
pub fn dedupe(defs: Vec<DefEntry>) -> (Vec<DefEntry>, usize) {
    let mut last: BTreeMap<(u8, String), usize> = BTreeMap::new();
    for (i, e) in defs.iter().enumerate() {
        last.insert((namespace(&e.def), e.name.clone()), i);
    }
    let keep: BTreeSet<usize> = last.values().cloned().collect();
    let n = defs.len();
    let out: Vec<DefEntry> = defs.into_iter().enumerate().filter(|(i, _)| keep.contains(i)).map(|(_, e)| e).collect();
    let removed = n - out.len();
    (out, removed)
}

fn names_in(e: &Expr, out: &mut Vec<String>) {
    match e {
        Expr::Unit { name } => out.push(name.clone()),
        Expr::Of { expr, .. } => names_in(expr, out),
        Expr::BinOp(b) => {
            names_in(&b.left, out);
            names_in(&b.right, out);
        }
        Expr::UnaryOp(u) => names_in(&u.expr, out),
        Expr::Mul { exprs } => exprs.iter().for_each(|x| names_in(x, out)),
        Expr::Call { args, .. } => args.iter().for_each(|x| names_in(x, out)),
        _ => {}
    }
}

/// (dependent index, dependency index) pairs by exact name
pub fn dependency_edges(defs: &[DefEntry]) -> Vec<(usize, usize)> {
    let mut by_name: BTreeMap<&str, usize> = BTreeMap::new();
    for (i, e) in defs.iter().enumerate() {
        by_name.insert(e.name.as_str(), i);
    }
    let mut edges = vec![];
    for (i, e) in defs.iter().enumerate() {
        let mut names = vec![];
        match &*e.def {
            Def::Prefix { expr, .. } | Def::Unit { expr } | Def::Quantity { expr } => names_in(&expr.0, &mut names),
            Def::Substance { properties, .. } => {
                for p in properties {
                    names_in(&p.input.0, &mut names);
                    names_in(&p.output.0, &mut names);
                }
            }
            _ => {}
        }
        for n in names {
            if let Some(j) = by_name.get(n.as_str()) {
                if *j != i {
                    edges.push((i, *j));
                }
            }
        }
    }
    edges
}

pub struct Loaded {
    pub dump: String,
    pub problems: BTreeSet<String>,
}

pub fn load_order(defs: &[DefEntry], order: &[usize]) -> Result<Loaded, String> {
    let list: Vec<DefEntry> = order.iter().map(|i| clone_entry(&defs[*i])).collect();
    let mut out = None;
    let r = catch(|| {
        let mut ctx = Context::new();
        let mut res = None;
        let _ = capture_noop(|| res = Some(ctx.load(Defs { defs: list })));
        (ctx, res.unwrap())
    });
    match r {
        Ok((ctx, res)) => {
            let problems: BTreeSet<String> = match res {
                Ok(()) => BTreeSet::new(),
                Err(e) => e.lines().skip(1).map(|l| l.trim().to_string()).collect(),
            };
            out = Some(Loaded {
                dump: regdump::dump(&ctx),
                problems,
            });
        }
        Err(p) => return Err(p),
    }
    Ok(out.unwrap())
}

fn capture_noop(f: impl FnOnce()) {
    f()
}

/// permutation from sort keys (stable): all-equal keys = identity
pub fn order_from_keys(n: usize, keys: &[u32]) -> Vec<usize> {
    let mut idx: Vec<usize> = (0..n).collect();
    idx.sort_by_key(|i| (keys.get(*i).cloned().unwrap_or(0), *i));
    idx
}

fn inversions(order: &[usize], edges: &[(usize, usize)]) -> usize {
    let mut pos = vec![0usize; order.len()];
    for (p, i) in order.iter().enumerate() {
        pos[*i] = p;
    }
    edges.iter().filter(|(a, b)| pos[*a] < pos[*b]).count()
}

fn compare(base: &Loaded, other: &Loaded) -> Result<(), String> {
    if base.problems != other.problems {
        let a: Vec<&String> = base.problems.difference(&other.problems).take(3).collect();
        let b: Vec<&String> = other.problems.difference(&base.problems).take(3).collect();
        return Err(format!(
            "[reported-problems-differ] original order only: {:?}; permuted order only: {:?}",
            a, b
        ));
    }
    if base.dump != other.dump {
        return Err(format!("[registry-differs] {}", regdump::diff(&base.dump, &other.dump, 4).join(" ; ")));
    }
    Ok(())
}

// --- bundled ---------------------------------------------------------------

pub struct Bundled {
    pub defs: Vec<DefEntry>,
    pub removed: usize,
    pub edges: Vec<(usize, usize)>,
    pub base: Loaded,
}

pub fn bundled(with_currency: bool) -> Result<Bundled, String> {
    let mut defs = vec![];
    let _ = capture_stdout(|| {
        defs = gnu_units::parse_str(rink_core::DEFAULT_FILE.unwrap_or("")).defs;
        if with_currency {
            defs.extend(gnu_units::parse_str(rink_core::CURRENCY_FILE.unwrap_or("")).defs);
        }
    });
    if with_currency {
        let live = std::fs::read_to_string("/repo/core/tests/currency.snapshot.json").map_err(|e| e.to_string())?;
        let extra: Vec<DefEntry> = serde_json::from_str(&live).map_err(|e| e.to_string())?;
        defs.extend(extra);
    }
    let (defs, removed) = dedupe(defs);
    let edges = dependency_edges(&defs);
    let order: Vec<usize> = (0..defs.len()).collect();
    let base = load_order(&defs, &order)?;
    Ok(Bundled {
        defs,
        removed,
        edges,
        base,
    })
}

#[derive(Clone, Debug, Serialize, Deserialize)]
pub enum Perm {
    Reverse,
    Rotate(u32),
    /// interleave: i -> (i * stride) mod n for a stride coprime to n
    Stride(u32),
    Keys(Vec<u32>),
    /// split into files by key % k, concatenated in key order (within-file order kept)
    Files(u8, Vec<u8>),
}

fn perm_order(n: usize, p: &Perm) -> Vec<usize> {
    match p {
        Perm::Reverse => (0..n).rev().collect(),
        Perm::Rotate(k) => (0..n).map(|i| (i + *k as usize) % n.max(1)).collect(),
        Perm::Stride(s) => {
            let mut s = (*s as usize % n.max(1)).max(1);
            while gcd(s, n) != 1 {
                s += 1;
            }
            (0..n).map(|i| (i * s) % n).collect()
        }
        Perm::Keys(k) => order_from_keys(n, k),
        Perm::Files(k, assign) => {
            let k = (*k).clamp(1, 3) as usize;
            let mut files: Vec<Vec<usize>> = vec![vec![]; k];
            for i in 0..n {
                files[assign.get(i).cloned().unwrap_or(0) as usize % k].push(i);
            }
            files.concat()
        }
    }
}

fn gcd(a: usize, b: usize) -> usize {
    if b == 0 {
        a
    } else {
        gcd(b, a % b)
    }
}

fn perm_strategy(n: usize) -> impl Strategy<Value = Perm> {
    prop_oneof![
        1 => Just(Perm::Reverse),
        2 => (1u32..n as u32).prop_map(Perm::Rotate),
        2 => (2u32..n as u32).prop_map(Perm::Stride),
        6 => proptest::collection::vec(any::<u32>(), n).prop_map(Perm::Keys),
        3 => (1u8..=3, proptest::collection::vec(0u8..3, n)).prop_map(|(k, a)| Perm::Files(k, a)),
    ]
}

fn check_bundled(b: &Bundled, p: &Perm, which: &str, st: &mut Stats, known: &BTreeSet<String>) -> CaseResult {
    let order = perm_order(b.defs.len(), p);
    st.eval();
    let inv = inversions(&order, &b.edges);
    let key = (which, crate::engine::hash_of(&order));
    if inv > 0 {
        st.nontrivial(&key);
        st.nt_sample(|| json!({"database": which, "permutation": perm_label(p), "dependency_inversions": inv}));
    }
    st.class(&format!("bundled_{}", perm_kind(p)));
    match load_order(&b.defs, &order) {
        Ok(l) => compare(&b.base, &l).or_else(|e| known_or(known, st, e, which)),
        Err(pn) => known_or(known, st, format!("[{}] loading a permutation panicked: {}", panic_signature(&pn), pn), which),
    }
}

fn known_or(known: &BTreeSet<String>, st: &mut Stats, e: String, example: &str) -> CaseResult {
    let sig = e.trim_start_matches('[').split(']').next().unwrap_or("").to_string();
    if known.contains(&sig) {
        st.known(&sig, example);
        Ok(())
    } else {
        Err(e)
    }
}

fn perm_kind(p: &Perm) -> &'static str {
    match p {
        Perm::Reverse => "reverse",
        Perm::Rotate(_) => "rotate",
        Perm::Stride(_) => "stride",
        Perm::Keys(_) => "shuffle",
        Perm::Files(..) => "files",
    }
}

fn perm_label(p: &Perm) -> String {
    match p {
        Perm::Keys(k) => format!("shuffle(keys hash {:x})", crate::engine::hash_of(k)),
        Perm::Files(k, a) => format!("files({}, assignment hash {:x})", k, crate::engine::hash_of(a)),
        other => format!("{:?}", other),
    }
}

// --- synthetic --------------------------------------------------------------

#[derive(Clone, Debug, Serialize, Deserialize)]
pub struct SynCase {
    pub db: SynDb,
    pub perms: Vec<Vec<u32>>,
}

pub fn check_syn(c: &SynCase, st: &mut Stats, known: &BTreeSet<String>) -> CaseResult {
    let text = c.db.text();
    let mut defs = vec![];
    let printed = capture_stdout(|| defs = gnu_units::parse_str(&text).defs);
    if !printed.trim().is_empty() {
        return Err(format!("harness: generated text has parse warnings: {}\n{}", printed, text));
    }
    let (defs, _removed) = dedupe(defs);
    let edges = dependency_edges(&defs);
    let n = defs.len();
    let ident: Vec<usize> = (0..n).collect();
    let base = match load_order(&defs, &ident) {
        Ok(b) => b,
        Err(p) => return known_or(known, st, format!("[{}] loading panicked: {}\n{}", panic_signature(&p), p, text), "synthetic"),
    };
    st.class(if base.problems.is_empty() { "synthetic_loads_clean" } else { "synthetic_with_reported_problems" });
    // the generator's own expectation: clean load, and known values
    if !base.problems.is_empty() {
        return Err(format!(
            "harness: a generated database was expected to load cleanly but reported {:?}\n{}",
            base.problems.iter().take(3).collect::<Vec<_>>(),
            text
        ));
    }
    // the loaded values are the ones the generator computed independently
    if let Err(e) = check_expected(&c.db, &defs) {
        return known_or(known, st, format!("{}\ndatabase:\n{}", e, text), "synthetic");
    }
    // reversed order always, plus the generated permutations
    let mut orders: Vec<Vec<usize>> = vec![(0..n).rev().collect()];
    for k in &c.perms {
        orders.push(order_from_keys(n, k));
    }
    for order in orders {
        st.eval();
        let inv = inversions(&order, &edges);
        if inv > 0 {
            st.nontrivial(&(crate::engine::hash_of(&text), crate::engine::hash_of(&order)));
            st.nt_sample(|| json!({"database": text, "order": order, "dependency_inversions": inv}));
        }
        match load_order(&defs, &order) {
            Ok(l) => {
                if let Err(e) = compare(&base, &l) {
                    let names: Vec<&str> = order.iter().map(|i| defs[*i].name.as_str()).collect();
                    return known_or(known, st, format!("{}\norder: {:?}\ndatabase:\n{}", e, names, text), "synthetic");
                }
            }
            Err(p) => {
                return known_or(known, st, format!("[{}] loading a permutation panicked: {}\n{}", panic_signature(&p), p, text), "synthetic")
            }
        }
    }
    Ok(())
}

/// load in the given order and compare every unit with the generator's exact value
pub fn check_expected(db: &SynDb, defs: &[DefEntry]) -> Result<(), String> {
    let list: Vec<DefEntry> = defs.iter().map(clone_entry).collect();
    let mut ctx = Context::new();
    let _ = ctx.load(Defs { defs: list });
    for (name, (q, dims)) in db.expected() {
        match ctx.lookup(&name) {
            Some(n) => {
                let got_d = crate::rinkx::dims_of(&n);
                let ok = match crate::rinkx::rational_of(&n.value) {
                    Some((a, b)) => crate::oracle::refarith::Q::new(a, b).eq_val(&q) && got_d == dims,
                    None => false,
                };
                if !ok {
                    let (en, ed) = q.reduced();
                    return Err(format!(
                        "[loaded-value-wrong] unit {} loaded as {} but its definition text means {}/{} {:?}",
                        name,
                        regdump::number_text(&n),
                        en,
                        ed,
                        dims
                    ));
                }
            }
            None => return Err(format!("[loaded-unit-missing] unit {} did not load", name)),
        }
    }
    Ok(())
}

pub fn syn_strategy(max_units: usize) -> impl Strategy<Value = SynCase> {
    (db_strategy(max_units), proptest::collection::vec(proptest::collection::vec(0u32..64, 0..120), 3)).prop_map(|(db, perms)| SynCase { db, perms })
}

pub fn run(cx: &Cx) -> Report {
    let mut rep = Report::new(RULE);
    rep.assumptions = vec![
        "entries sharing (namespace, name) are reduced to the one that wins in the shipped order before permuting (the bundled file declares category `japanese` twice)".into(),
        "splitting across files equals concatenation, which is what the CLI does with the files it finds (cli/src/config.rs)".into(),
        "the registry's public fields are the database; prefix order in the registry is part of the dump".into(),
    ];
    let known = cx.known.clone();
    crate::regress::run(cx, &mut rep, &replay);

    let configs: Vec<bool> = if cx.tier == Tier::Thorough { vec![false, true] } else { vec![false] };
    for with_currency in configs {
        let which: &'static str = if with_currency { "core+currency" } else { "core" };
        let n = match bundled(with_currency) {
            Ok(b) => {
                rep.stats.note(&format!("{}_entries", which), json!(b.defs.len()));
                rep.stats.note(&format!("{}_duplicates_removed", which), json!(b.removed));
                rep.stats.note(&format!("{}_dependency_edges", which), json!(b.edges.len()));
                b.defs.len()
            }
            Err(e) => {
                rep.violations.push(Violation {
                    phase: "bundled-original-order".into(),
                    case: json!({"bundled": which, "perm": Perm::Rotate(0)}),
                    detail: format!("[load-panicked] loading the bundled definitions in their shipped order failed: {}", e),
                });
                return rep;
            }
        };
        let k = known.clone();
        rep.absorb(par_proptest(
            cx,
            if with_currency { "bundled-currency" } else { "bundled-core" },
            cx.tier.pick(320, 3000),
            move || perm_strategy(n),
            move || bundled(with_currency).expect("bundled"),
            move |b, p, st| check_bundled(b, p, which, st, &k),
            move |p| json!({"bundled": which, "perm": p}),
        ));
        rep.mark(cx, which);
    }
    let k = known.clone();
    rep.absorb(par_proptest(
        cx,
        "synthetic",
        cx.tier.pick(6000, 150_000),
        || syn_strategy(60),
        || (),
        move |_, c, st| check_syn(c, st, &k),
        |c| json!({"syn": c}),
    ));
    rep.mark(cx, "synthetic");
    rep
}

pub fn replay(cx: &Cx, _phase: &str, case: &J, st: &mut Stats) -> CaseResult {
    if let Some(w) = case.get("bundled").and_then(|b| b.as_str()) {
        let with_currency = w == "core+currency";
        let b = bundled(with_currency)?;
        let p: Perm = serde_json::from_value(case["perm"].clone()).map_err(|e| format!("bad case: {}", e))?;
        return check_bundled(&b, &p, if with_currency { "core+currency" } else { "core" }, st, &cx.known);
    }
    let c: SynCase = serde_json::from_value(case["syn"].clone()).map_err(|e| format!("bad case: {}", e))?;
    check_syn(&c, st, &cx.known)
}
