//! C11 — printed expressions re-parse to the same expression.

use crate::engine::*;
use proptest::prelude::*;
use rink_core::ast::{DefEntry, Expr};
use rink_core::parsing::text_query::{parse_expr, Token, TokenIterator};
use serde_derive::{Deserialize, Serialize};
use serde_json::{json, Value as J};
use std::collections::BTreeSet;

pub const RULE: &str = "a skeleton (operator kinds and operand positions) is rendered with every sub-expression parenthesised and \
parsed by rink, which yields a parser-producible tree e with exactly that nesting; then parse_expr(e.to_string()) must equal e \
with the input consumed, also through serde_json of a DefEntry holding e. Exhaustive: every chain of nested (kind, operand slot) \
pairs to depth 3 (quick) / 4 (thorough) over positional leaves; random skeletons to depth 8 with several complex children. \
Non-trivial = distinct e containing a binary operator as a right child, or under a unary / of / suffix / juxtaposition node.";

#[derive(Clone, Debug, PartialEq, Eq, Serialize, Deserialize, Hash)]
pub enum Sk {
    Leaf(u8),
    Bin(u8, Box<Sk>, Box<Sk>),
    Mul(Vec<Sk>),
    Neg(Box<Sk>),
    Pos(Box<Sk>),
    Suffix(u8, Box<Sk>),
    Of(Box<Sk>),
    Call1(u8, Box<Sk>),
    Call2(u8, Box<Sk>, Box<Sk>),
}

pub const BIN_SYMS: [&str; 11] = ["+", "-", "/", "^", "=", "<<", ">>", "mod", "and", "or", "xor"];
pub const BIN_NAMES: [&str; 11] = ["Add", "Sub", "Frac", "Pow", "Equals", "ShiftL", "ShiftR", "Mod", "And", "Or", "Xor"];
pub const SUFFIXES: [&str; 6] = ["°C", "°F", "°Ré", "°Rø", "°De", "°N"];
pub const CALL1: [&str; 4] = ["sin", "sqrt", "ln", "atanh"];
pub const CALL2: [&str; 3] = ["hypot", "atan2", "log"];
/// leaf texts (each is checked alone first: a leaf that does not round-trip by
/// itself is outside the property's precondition and is not used)
pub const LEAVES: [&str; 20] = [
    "ua", "ub", "uc", "ud", "ue", "uf", "ug", "uh", "'q r'", "2", "0.5", "1e100", "%", "int foot",
    // numeric literals that do not print exactly (precondition filter must drop them)
    "9999999999999", "0.1234567891",
    // names and quotes only the quoted forms can produce
    "'it\\'s'", "\"a b\"", "\"mod\"", "'tab\\tq'",
];
/// leaves subject to the "numeric literals print exactly" precondition
fn is_numeric_leaf(i: usize) -> bool {
    LEAVES[i].chars().next().map(|c| c.is_ascii_digit()).unwrap_or(false)
}

impl Sk {
    fn kind(&self) -> String {
        match self {
            Sk::Leaf(_) => "Leaf".into(),
            Sk::Bin(o, _, _) => BIN_NAMES[*o as usize % 11].into(),
            Sk::Mul(v) => format!("Mul{}", v.len()),
            Sk::Neg(_) => "Neg".into(),
            Sk::Pos(_) => "Pos".into(),
            Sk::Suffix(_, _) => "Suffix".into(),
            Sk::Of(_) => "Of".into(),
            Sk::Call1(_, _) => "Call1".into(),
            Sk::Call2(_, _, _) => "Call2".into(),
        }
    }
    fn children(&self) -> Vec<&Sk> {
        match self {
            Sk::Leaf(_) => vec![],
            Sk::Bin(_, a, b) | Sk::Call2(_, a, b) => vec![a, b],
            Sk::Mul(v) => v.iter().collect(),
            Sk::Neg(a) | Sk::Pos(a) | Sk::Suffix(_, a) | Sk::Of(a) | Sk::Call1(_, a) => vec![a],
        }
    }
    /// fully parenthesised rendering
    pub fn render(&self) -> String {
        let p = |s: &Sk| format!("({})", s.render());
        match self {
            Sk::Leaf(i) => LEAVES[*i as usize % LEAVES.len()].to_string(),
            Sk::Bin(o, a, b) => format!("{} {} {}", p(a), BIN_SYMS[*o as usize % 11], p(b)),
            Sk::Mul(v) => v.iter().map(|x| p(x)).collect::<Vec<_>>().join(" "),
            Sk::Neg(a) => format!("-{}", p(a)),
            Sk::Pos(a) => format!("+{}", p(a)),
            Sk::Suffix(d, a) => format!("{} {}", p(a), SUFFIXES[*d as usize % 6]),
            Sk::Of(a) => format!("prop of {}", p(a)),
            Sk::Call1(f, a) => format!("{}({})", CALL1[*f as usize % CALL1.len()], p(a)),
            Sk::Call2(f, a, b) => format!("{}({}, {})", CALL2[*f as usize % CALL2.len()], p(a), p(b)),
        }
    }
    fn depth(&self) -> usize {
        1 + self.children().iter().map(|c| c.depth()).max().unwrap_or(0)
    }
    /// does the tree contain a binary operator as a right child, or under unary/of/suffix/mul
    fn nontrivial(&self) -> bool {
        let is_bin = |s: &Sk| matches!(s, Sk::Bin(..));
        let here = match self {
            Sk::Bin(_, _, b) => is_bin(b),
            Sk::Neg(a) | Sk::Pos(a) | Sk::Suffix(_, a) | Sk::Of(a) => is_bin(a),
            Sk::Mul(v) => v.iter().any(is_bin),
            _ => false,
        };
        here || self.children().iter().any(|c| c.nontrivial())
    }
}

pub fn parse_full(text: &str) -> (Expr, bool) {
    let mut iter = TokenIterator::new(text).peekable();
    let e = parse_expr(&mut iter);
    let eof = matches!(iter.next(), Some(Token::Eof));
    (e, eof)
}

fn has_error(e: &Expr) -> bool {
    match e {
        Expr::Error { .. } | Expr::Date { .. } => true,
        Expr::BinOp(b) => has_error(&b.left) || has_error(&b.right),
        Expr::UnaryOp(u) => has_error(&u.expr),
        Expr::Mul { exprs } => exprs.iter().any(has_error),
        Expr::Of { expr, .. } => has_error(expr),
        Expr::Call { args, .. } => args.iter().any(has_error),
        _ => false,
    }
}

/// the round-trip itself; Err(detail)
pub fn roundtrip(e: &Expr) -> Result<(), String> {
    let printed = catch(|| e.to_string()).map_err(|p| format!("printing panicked: {}", p))?;
    let (e2, eof) = catch(|| parse_full(&printed)).map_err(|p| format!("re-parsing `{}` panicked: {}", printed, p))?;
    if !eof {
        return Err(format!("printed as `{}`, which does not parse to the end (got `{}` and leftover input)", printed, e2));
    }
    if &e2 != e {
        return Err(format!(
            "printed as `{}`, which re-parses to a different tree (prints back as `{}`; fully grouped: {})",
            printed,
            e2,
            group(&e2)
        ));
    }
    // the structured form shown to users (DefReply.def_expr): its parts, joined by spaces,
    // must spell the same expression
    let reply = catch(|| rink_core::output::ExprReply::from(e)).map_err(|p| format!("ExprReply::from panicked: {}", p))?;
    if let Ok(j) = serde_json::to_value(&reply) {
        fn join(parts: &serde_json::Value, out: &mut Vec<String>) {
            for p in parts.as_array().cloned().unwrap_or_default() {
                match p["type"].as_str() {
                    Some("literal") => out.push(p["text"].as_str().unwrap_or("").to_string()),
                    Some("unit") => {
                        // a client writes a name that is not a plain identifier between double quotes
                        let name = p["name"].as_str().unwrap_or("").to_string();
                        let plain = matches!(catch(|| parse_full(&name)), Ok((Expr::Unit { name: ref n }, true)) if n == &name);
                        if plain {
                            out.push(name)
                        } else {
                            out.push(format!("\"{}\"", name.replace('\\', "\\\\").replace('"', "\\\"")))
                        }
                    }
                    Some("property") => {
                        out.push(format!("{} of", p["property"].as_str().unwrap_or("")));
                        join(&p["subject"], out);
                    }
                    _ => out.push("<error>".to_string()),
                }
            }
        }
        let mut toks = vec![];
        join(&j["exprs"], &mut toks);
        let text = toks.join(" ");
        let (e3, eof3) = catch(|| parse_full(&text)).map_err(|p| format!("re-parsing the structured form `{}` panicked: {}", text, p))?;
        if !eof3 || &e3 != e {
            return Err(format!(
                "structured form (ExprReply parts joined by spaces) `{}` re-parses to a different tree (`{}`; fully grouped: {})",
                text,
                e3,
                group(&e3)
            ));
        }
    }
    // same through the exchange format
    let entry = DefEntry::new_unit("x", None, None, e.clone());
    let js = serde_json::to_string(&entry).map_err(|x| format!("serialise: {}", x))?;
    let back: Result<DefEntry, _> = serde_json::from_str(&js);
    match back {
        Ok(d) => match &*d.def {
            rink_core::ast::Def::Unit { expr } => {
                if &expr.0 != e {
                    return Err(format!("DefEntry JSON {} deserialises to a different tree", js));
                }
            }
            _ => return Err("DefEntry changed kind through JSON".into()),
        },
        Err(x) => return Err(format!("DefEntry JSON {} does not deserialise: {}", js, x)),
    }
    Ok(())
}

/// explicit grouping for messages
fn group(e: &Expr) -> String {
    match e {
        Expr::BinOp(b) => format!("({} {} {})", group(&b.left), b.op.symbol().trim(), group(&b.right)),
        Expr::UnaryOp(u) => format!("[{:?} {}]", u.op, group(&u.expr)),
        Expr::Mul { exprs } => format!("{{{}}}", exprs.iter().map(group).collect::<Vec<_>>().join(" * ")),
        Expr::Of { property, expr } => format!("<{} of {}>", property, group(expr)),
        Expr::Call { func, args } => format!("{}({})", func.name(), args.iter().map(group).collect::<Vec<_>>().join(", ")),
        other => other.to_string(),
    }
}

pub struct Env {
    pub known: BTreeSet<String>,
    pub good_leaves: Vec<bool>,
}

pub fn mk_env(known: BTreeSet<String>) -> Env {
    // only numeric literals are subject to the precondition; any other leaf
    // that fails to round-trip is a violation in its own right
    let good_leaves = LEAVES
        .iter()
        .enumerate()
        .map(|(i, l)| {
            if !is_numeric_leaf(i) {
                return true;
            }
            let (e, eof) = parse_full(l);
            eof && !has_error(&e) && roundtrip(&e).is_ok()
        })
        .collect();
    Env { known, good_leaves }
}

/// signature = the innermost single (parent, slot, child) edge that fails on its own
fn signature(sk: &Sk) -> String {
    fn edges(s: &Sk, out: &mut Vec<Sk>) {
        let kids = s.children();
        for (i, c) in kids.iter().enumerate() {
            if !matches!(c, Sk::Leaf(_)) {
                // two-level skeleton: parent with leaf siblings and this child with leaf operands
                out.push(with_child(s, i, &flatten(c)));
            }
            edges(c, out);
        }
    }
    fn flatten(s: &Sk) -> Sk {
        // same node, children replaced by leaves
        let leaf = |i: u8| Box::new(Sk::Leaf(i));
        match s {
            Sk::Leaf(i) => Sk::Leaf(*i),
            Sk::Bin(o, _, _) => Sk::Bin(*o, leaf(2), leaf(3)),
            Sk::Mul(v) => Sk::Mul((0..v.len()).map(|i| Sk::Leaf(2 + i as u8)).collect()),
            Sk::Neg(_) => Sk::Neg(leaf(2)),
            Sk::Pos(_) => Sk::Pos(leaf(2)),
            Sk::Suffix(d, _) => Sk::Suffix(*d, leaf(2)),
            Sk::Of(_) => Sk::Of(leaf(2)),
            Sk::Call1(f, _) => Sk::Call1(*f, leaf(2)),
            Sk::Call2(f, _, _) => Sk::Call2(*f, leaf(2), leaf(3)),
        }
    }
    fn with_child(s: &Sk, slot: usize, child: &Sk) -> Sk {
        let pick = |i: usize| -> Box<Sk> {
            if i == slot {
                Box::new(child.clone())
            } else {
                Box::new(Sk::Leaf(i as u8))
            }
        };
        match s {
            Sk::Leaf(i) => Sk::Leaf(*i),
            Sk::Bin(o, _, _) => Sk::Bin(*o, pick(0), pick(1)),
            Sk::Mul(v) => Sk::Mul((0..v.len()).map(|i| *pick(i)).collect()),
            Sk::Neg(_) => Sk::Neg(pick(0)),
            Sk::Pos(_) => Sk::Pos(pick(0)),
            Sk::Suffix(d, _) => Sk::Suffix(*d, pick(0)),
            Sk::Of(_) => Sk::Of(pick(0)),
            Sk::Call1(f, _) => Sk::Call1(*f, pick(0)),
            Sk::Call2(f, _, _) => Sk::Call2(*f, pick(0), pick(1)),
        }
    }
    let mut es = vec![];
    edges(sk, &mut es);
    for two in es {
        let (e, eof) = parse_full(&two.render());
        if eof && !has_error(&e) && roundtrip(&e).is_err() {
            // name the edge
            let kids = two.children();
            for (i, c) in kids.iter().enumerate() {
                if !matches!(c, Sk::Leaf(_)) {
                    return format!("print-reparse:{}[{}]<-{}", two.kind(), i, c.kind());
                }
            }
        }
    }
    // a leaf that fails on its own?
    fn leaves(s: &Sk, out: &mut Vec<u8>) {
        match s {
            Sk::Leaf(i) => out.push(*i),
            _ => s.children().iter().for_each(|c| leaves(c, out)),
        }
    }
    let mut ls = vec![];
    leaves(sk, &mut ls);
    for i in ls {
        let l = LEAVES[i as usize % LEAVES.len()];
        let (e, eof) = parse_full(l);
        if eof && !has_error(&e) && roundtrip(&e).is_err() {
            return match &e {
                Expr::Quote { .. } => "print-reparse:leaf:quote-needs-escape".into(),
                Expr::Unit { .. } => "print-reparse:leaf:name-needs-quoting".into(),
                _ => "print-reparse:leaf:other".into(),
            };
        }
    }
    "print-reparse:no-single-edge".into()
}

pub fn check(env: &Env, sk: &Sk, st: &mut Stats) -> CaseResult {
    // leaves outside the precondition
    fn leaves_ok(s: &Sk, good: &[bool]) -> bool {
        match s {
            Sk::Leaf(i) => good[*i as usize % LEAVES.len()],
            _ => s.children().iter().all(|c| leaves_ok(c, good)),
        }
    }
    if !leaves_ok(sk, &env.good_leaves) {
        st.excluded("numeric literal does not print exactly (outside the precondition)");
        return Ok(());
    }
    // known finding F-27b: keep one witness (the bare leaf) and exclude the
    // leaf elsewhere by construction so that it cannot mask another failure
    fn has_leaf(s: &Sk, which: &[u8]) -> bool {
        match s {
            Sk::Leaf(i) => which.contains(&(*i % LEAVES.len() as u8)),
            _ => s.children().iter().any(|c| has_leaf(c, which)),
        }
    }
    if env.known.contains("print-reparse:leaf:name-needs-quoting")
        && !matches!(sk, Sk::Leaf(_))
        && has_leaf(sk, &[17, 18])
    {
        st.excluded("contains a name only a quoted identifier can produce (known finding F-27b)");
        return Ok(());
    }
    let text0 = sk.render();
    let (e, eof) = match catch(|| parse_full(&text0)) {
        Ok(x) => x,
        Err(p) => return Err(format!("[{}] parsing `{}` panicked: {}", panic_signature(&p), text0, p)),
    };
    if !eof || has_error(&e) {
        st.excluded("fully parenthesised skeleton not accepted by the parser");
        return Ok(());
    }
    st.eval();
    st.class(&format!("depth{}", sk.depth().min(9)));
    if sk.nontrivial() {
        st.nontrivial(&text0);
        st.nt_sample(|| json!({"skeleton": text0, "printed": e.to_string()}));
    } else {
        st.sample(|| json!({"skeleton": text0, "printed": e.to_string()}));
    }
    match roundtrip(&e) {
        Ok(()) => Ok(()),
        Err(detail) => {
            let sig = signature(sk);
            if env.known.contains(&sig) {
                st.known(&sig, &text0);
                Ok(())
            } else {
                Err(format!("[{}] `{}` {}", sig, text0, detail))
            }
        }
    }
}

// ---------------------------------------------------------------------------
// enumeration of chains
// ---------------------------------------------------------------------------

/// all (kind, slot) constructors: given the child for the slot and a leaf
/// counter for the siblings, build the node
fn constructors(all_suffixes: bool) -> Vec<Box<dyn Fn(Sk, &mut u8) -> Sk + Send + Sync>> {
    let mut v: Vec<Box<dyn Fn(Sk, &mut u8) -> Sk + Send + Sync>> = vec![];
    fn fresh(c: &mut u8) -> Box<Sk> {
        let l = Sk::Leaf(*c % 8);
        *c += 1;
        Box::new(l)
    }
    for op in 0..11u8 {
        v.push(Box::new(move |ch, c| Sk::Bin(op, Box::new(ch), fresh(c))));
        v.push(Box::new(move |ch, c| Sk::Bin(op, fresh(c), Box::new(ch))));
    }
    v.push(Box::new(|ch, c| Sk::Mul(vec![ch, *fresh(c)])));
    v.push(Box::new(|ch, c| Sk::Mul(vec![*fresh(c), ch])));
    v.push(Box::new(|ch, c| Sk::Mul(vec![*fresh(c), ch, *fresh(c)])));
    v.push(Box::new(|ch, _| Sk::Neg(Box::new(ch))));
    v.push(Box::new(|ch, _| Sk::Pos(Box::new(ch))));
    let ns = if all_suffixes { 6 } else { 2 };
    for d in 0..ns as u8 {
        v.push(Box::new(move |ch, _| Sk::Suffix(d, Box::new(ch))));
    }
    v.push(Box::new(|ch, _| Sk::Of(Box::new(ch))));
    v.push(Box::new(|ch, _| Sk::Call1(0, Box::new(ch))));
    v.push(Box::new(|ch, c| Sk::Call2(0, Box::new(ch), fresh(c))));
    v.push(Box::new(|ch, c| Sk::Call2(0, fresh(c), Box::new(ch))));
    v
}

fn chains(depth: usize, all_suffixes: bool) -> Vec<Sk> {
    let cons = constructors(all_suffixes);
    // innermost first
    let mut level: Vec<Sk> = (0..LEAVES.len() as u8).map(Sk::Leaf).collect();
    let mut all = level.clone();
    let mut cur: Vec<Sk> = vec![Sk::Leaf(0)];
    for _ in 0..depth {
        let mut next = vec![];
        for inner in &cur {
            for c in &cons {
                let mut counter = 1u8;
                next.push(c(inner.clone(), &mut counter));
            }
        }
        all.extend(next.iter().cloned());
        cur = next;
    }
    level.clear();
    all
}

// ---------------------------------------------------------------------------
// random skeletons
// ---------------------------------------------------------------------------

pub fn sk_strategy() -> impl Strategy<Value = Sk> {
    let leaf = (0u8..LEAVES.len() as u8).prop_map(Sk::Leaf);
    leaf.prop_recursive(8, 40, 3, |inner| {
        prop_oneof![
            10 => (0u8..11, inner.clone(), inner.clone()).prop_map(|(o, a, b)| Sk::Bin(o, Box::new(a), Box::new(b))),
            4 => proptest::collection::vec(inner.clone(), 2..=3).prop_map(Sk::Mul),
            2 => inner.clone().prop_map(|a| Sk::Neg(Box::new(a))),
            1 => inner.clone().prop_map(|a| Sk::Pos(Box::new(a))),
            2 => (0u8..6, inner.clone()).prop_map(|(d, a)| Sk::Suffix(d, Box::new(a))),
            2 => inner.clone().prop_map(|a| Sk::Of(Box::new(a))),
            1 => (0u8..4, inner.clone()).prop_map(|(f, a)| Sk::Call1(f, Box::new(a))),
            1 => (0u8..3, inner.clone(), inner.clone()).prop_map(|(f, a, b)| Sk::Call2(f, Box::new(a), Box::new(b))),
        ]
    })
}

pub fn run(cx: &Cx) -> Report {
    let mut rep = Report::new(RULE);
    rep.assumptions = vec![
        "only trees the parser can produce are checked (built by parsing a fully parenthesised rendering)".into(),
        "numeric leaves are used only if they round-trip on their own (the property's precondition)".into(),
        "date literals and error nodes are excluded as the statement says".into(),
    ];
    let known = cx.known.clone();
    crate::regress::run(cx, &mut rep, &replay);

    let depth = cx.tier.pick(3, 4);
    let items = chains(depth, cx.tier == Tier::Thorough);
    rep.stats.note("chain_depth", json!(depth));
    rep.stats.note("chains_enumerated", json!(items.len()));
    rep.exhaustive = true;
    let k = known.clone();
    rep.absorb(par_sweep(
        cx,
        "chains",
        items,
        move || mk_env(k.clone()),
        |env, sk, st| check(env, sk, st),
        |sk| json!({"sk": sk, "text": sk.render()}),
    ));
    rep.mark(cx, "chains");

    let k = known.clone();
    rep.absorb(par_proptest(
        cx,
        "random",
        cx.tier.pick(600_000, 8_000_000),
        sk_strategy,
        move || mk_env(k.clone()),
        |env, sk, st| check(env, sk, st),
        |sk| json!({"sk": sk, "text": sk.render()}),
    ));
    rep.mark(cx, "random");
    // the expressions that are actually shown and exchanged: every expression of the bundled
    // definition files, as the definitions parser produces them (a different producer than the
    // query parser: `in`, `to`, `%` are ordinary names there, `a - b - c` nests to the right)
    {
        fn consts_exact(e: &Expr) -> bool {
            match e {
                Expr::Const { .. } => matches!(catch(|| parse_full(&e.to_string())), Ok((ref back, true)) if back == e),
                Expr::BinOp(b) => consts_exact(&b.left) && consts_exact(&b.right),
                Expr::UnaryOp(u) => consts_exact(&u.expr),
                Expr::Mul { exprs } => exprs.iter().all(consts_exact),
                Expr::Call { args, .. } => args.iter().all(consts_exact),
                Expr::Of { expr, .. } => consts_exact(expr),
                _ => true,
            }
        }
        let mut items: Vec<(String, String, Expr)> = vec![];
        for (file, text) in [("definitions.units", rink_core::DEFAULT_FILE.unwrap_or("")), ("currency.units", rink_core::CURRENCY_FILE.unwrap_or(""))] {
            let mut parsed = vec![];
            let _ = crate::props::c08::capture_stdout(|| parsed = rink_core::loader::gnu_units::parse_str(text).defs);
            for entry in parsed {
                match &*entry.def {
                    rink_core::ast::Def::Unit { expr } | rink_core::ast::Def::Quantity { expr } | rink_core::ast::Def::Prefix { expr, .. } => {
                        items.push((file.to_string(), entry.name.clone(), expr.0.clone()));
                    }
                    rink_core::ast::Def::Substance { properties, .. } => {
                        for p in properties {
                            items.push((file.to_string(), format!("{}.{} (input)", entry.name, p.name), p.input.0.clone()));
                            items.push((file.to_string(), format!("{}.{} (output)", entry.name, p.name), p.output.0.clone()));
                        }
                    }
                    _ => {}
                }
            }
        }
        rep.stats.note("bundled_expressions", json!(items.len()));
        let k = known.clone();
        rep.absorb(par_sweep(
            cx,
            "bundled-definitions",
            items,
            move || k.clone(),
            |known, (file, name, e), st| {
                if has_error(e) {
                    st.excluded("definition with a parse error node");
                    return Ok(());
                }
                if !consts_exact(e) {
                    st.excluded("numeric literal does not print exactly (outside the precondition)");
                    return Ok(());
                }
                st.eval();
                st.class("bundled_definition_expression");
                st.nontrivial(&(file.as_str(), name.as_str()));
                match roundtrip(e) {
                    Ok(()) => Ok(()),
                    Err(d) => {
                        let sig = "print-reparse:bundled-definition";
                        if known.contains(sig) {
                            st.known(sig, name);
                            Ok(())
                        } else {
                            Err(format!("[{}] {} `{}`: {}", sig, file, name, d))
                        }
                    }
                }
            },
            |(file, name, e)| json!({"bundled": {"file": file, "name": name, "printed": e.to_string()}}),
        ));
        rep.mark(cx, "bundled-definitions");
    }
    rep
}

pub fn replay(cx: &Cx, _phase: &str, case: &J, st: &mut Stats) -> CaseResult {
    let env = mk_env(cx.known.clone());
    if let Some(t) = case.get("raw_text").and_then(|t| t.as_str()) {
        // a literal query text: parse, require clean parse, round-trip
        let (e, eof) = parse_full(t);
        if !eof || has_error(&e) {
            return Err(format!("witness `{}` does not parse cleanly", t));
        }
        st.eval();
        return roundtrip(&e).map_err(|d| {
            format!("[print-reparse:raw] `{}` {}", t, d)
        }).or_else(|d| {
            let sig = case.get("signature").and_then(|s| s.as_str()).unwrap_or("");
            if !sig.is_empty() && env.known.contains(sig) {
                st.known(sig, t);
                Ok(())
            } else {
                Err(d)
            }
        });
    }
    let sk: Sk = serde_json::from_value(case["sk"].clone()).map_err(|e| format!("bad case: {}", e))?;
    check(&env, &sk, st)
}
