//! C16 — substance properties scale linearly and invert; formulas.

use crate::engine::*;
use crate::gen::units::{dims_show, Dims};
use crate::oracle::refarith::Q;
use crate::rinkx::{self, Out};
use num_bigint::BigInt;
use proptest::prelude::*;
use rink_core::output::{QueryError, QueryReply};
use rink_core::types::Number;
use rink_core::Context;
use serde_derive::{Deserialize, Serialize};
use serde_json::{json, Value as J};
use std::collections::{BTreeMap, BTreeSet};
use std::sync::Arc;

pub const RULE: &str = "exhaustive over every substance x property x direction of the database (a name is used only if exactly one \
property of that substance carries it as input or output name) with generated rational amounts written in base units of the \
property's input (or output) dimensionality: `out of (a I S)` = output*(a/input) exactly and `in of (that S)` gives a back; amounts of \
another dimensionality must yield QueryError::Conformance; k*S and S/k scale every `p of` and every dimensionless-input property of \
the substance reply by k; generated formulas of 1..8 (symbol, count) pairs over all element symbols (counts absent, 1, 2, 10, \
2^16, 2^32-1) must give the exact count-weighted sum of the elements' molar masses; near-miss strings must not be treated as \
formulas. Non-trivial = distinct case with a not in {0, 1}, or a formula with >= 2 distinct symbols and a count > 1.";

#[derive(Clone, Debug, Serialize, Deserialize)]
pub enum Case {
    /// substance, property key, ask for output (true) or input (false), amount a = n/d, wrong-dimension variant
    Prop { sub: String, prop: String, forward: bool, a: (u64, u64), wrong_dims: bool },
    /// scaling: substance, k = n/d, divide instead of multiply
    Scale { sub: String, k: (u64, u64), divide: bool },
    Formula(Vec<(String, Option<u64>)>),
    NearMiss(String),
}

pub struct Env {
    pub ctx: Context,
    pub known: BTreeSet<String>,
}

pub fn mk_env(known: BTreeSet<String>) -> Env {
    Env {
        ctx: rinkx::new_ctx(),
        known,
    }
}

fn fail(env: &Env, st: &mut Stats, sig: &str, text: &str, detail: String) -> CaseResult {
    if env.known.contains(sig) {
        st.known(sig, text);
        Ok(())
    } else {
        Err(format!("[{}] `{}`: {}", sig, text, detail))
    }
}

fn nq(n: &Number) -> Option<(Q, Dims)> {
    rinkx::rational_of(&n.value).map(|(a, b)| (Q::new(a, b), rinkx::dims_of(n)))
}

/// "(a b1^e1 b2^e2)" with base units
fn amount_text(a: (u64, u64), dims: &Dims) -> String {
    let mut s = if a.1 == 1 { format!("{}", a.0) } else { format!("{}|{}", a.0, a.1) };
    for (b, e) in dims {
        s.push_str(&format!(" {}^{}", b, e));
    }
    format!("({})", s)
}

fn usable_word(w: &str) -> bool {
    crate::gen::units::unusable(w).is_none() && w != "of"
}

fn number_reply(out: Out) -> Result<Number, String> {
    match out {
        Out::Reply(QueryReply::Number(p)) => p.raw_value.ok_or("no raw value".into()),
        Out::Reply(QueryReply::Duration(d)) => d.raw.raw_value.clone().ok_or("no raw value".into()),
        other => Err(other.describe()),
    }
}

pub fn check(env: &Env, c: &Case, st: &mut Stats) -> CaseResult {
    match c {
        Case::Prop { sub, prop, forward, a, wrong_dims } => {
            let s = match env.ctx.registry.substances.get(sub) {
                Some(s) => s,
                None => return Ok(()),
            };
            let p = match s.properties.properties.get(prop) {
                Some(p) => p,
                None => return Ok(()),
            };
            // the names must identify the property unambiguously within the substance
            let count = |name: &str| s.properties.properties.values().filter(|q| q.input_name == name || q.output_name == name).count();
            let (ask, given_side, given_name) = if *forward {
                (&p.output_name, &p.input, &p.input_name)
            } else {
                (&p.input_name, &p.output, &p.output_name)
            };
            if count(ask) != 1 || count(given_name) != 1 {
                st.excluded("name carried by more than one property of the substance");
                return Ok(());
            }
            if !usable_word(ask) || !usable_word(sub) {
                st.excluded("property or substance name not usable bare in a query");
                return Ok(());
            }
            if env.ctx.lookup(sub).is_some() {
                st.excluded("substance name is also a unit name (the unit wins when the name is evaluated)");
                return Ok(());
            }
            if s.amount != Number::one() {
                st.excluded("name denotes an amount of a substance (a unit defined through a substance), not the substance itself");
                return Ok(());
            }
            let (inq, ind) = match nq(&p.input) {
                Some(x) => x,
                None => {
                    st.excluded("float-valued property");
                    return Ok(());
                }
            };
            let (outq, outd) = match nq(&p.output) {
                Some(x) => x,
                None => {
                    st.excluded("float-valued property");
                    return Ok(());
                }
            };
            let (gq, gd) = nq(given_side).unwrap();
            if gd.is_empty() {
                st.excluded("the given side is dimensionless (the amount would not select the property)");
                return Ok(());
            }
            let aq = Q::new(a.0.into(), a.1.into());
            st.eval();
            if *wrong_dims {
                // an amount of another dimensionality: either a stranger (given side x mol),
                // or - for an even denominator - the dimensionality of the side that is asked
                // for (`mass of (3 kg water)`: the amount names the wrong side of the property)
                let asked_dims = if *forward { outd.clone() } else { ind.clone() };
                let mut other = gd.clone();
                if a.1 % 2 == 0 && !asked_dims.is_empty() && asked_dims != gd {
                    other = asked_dims;
                    st.class("wrong_dimension_amount_is_asked_side");
                } else {
                    *other.entry("mol".into()).or_insert(0) += 1;
                    if other.get("mol") == Some(&0) {
                        other.insert("mol".into(), 2);
                    }
                }
                let a = *a;
                let text = format!("{} of {} {}", ask, amount_text(a, &other), sub);
                st.class("wrong_dimension_amount");
                st.nontrivial(&text);
                return match rinkx::eval_line(&env.ctx, &text) {
                    Out::Panic(pn) => fail(env, st, &panic_signature(&pn), &text, format!("panicked: {}", pn)),
                    Out::Error(QueryError::Conformance(_)) => Ok(()),
                    Out::Error(e) => fail(env, st, "wrong-dimension-not-conformance-error", &text, format!("refused with a different error: {}", e)),
                    Out::Reply(r) => fail(env, st, "wrong-dimension-amount-accepted", &text, format!("{}", r)),
                };
            }
            let text = format!("{} of {} {}", ask, amount_text(*a, &gd), sub);
            if a.0 != 0 && *a != (1, 1) {
                st.nontrivial(&text);
                st.nt_sample(|| json!(text));
            } else {
                st.sample(|| json!(text));
            }
            st.class(if *forward { "forward" } else { "inverse" });
            // expected: other_side * (a / given_side)
            let (oq, od) = if *forward { (outq.clone(), outd.clone()) } else { (inq.clone(), ind.clone()) };
            if aq.is_zero() {
                st.class("zero_amount");
            }
            let want = oq.mul(&aq).div(&gq).unwrap();
            let got = match number_reply(rinkx::eval_line(&env.ctx, &text)) {
                Ok(n) => n,
                Err(e) if e.starts_with("PANIC") => return fail(env, st, &panic_signature(&e[7..]), &text, e),
                Err(e) => return fail(env, st, "property-query-refused", &text, e),
            };
            let (gotq, gotd) = match nq(&got) {
                Some(x) => x,
                None => return fail(env, st, "property-float", &text, "float result".into()),
            };
            if gotd != od || !gotq.eq_val(&want) {
                let (wn, wd) = want.reduced();
                return fail(
                    env,
                    st,
                    "property-value-wrong",
                    &text,
                    format!("rink {} [{}], expected {}/{} [{}]", gotq.to_string(), dims_show(&gotd), wn, wd, dims_show(&od)),
                );
            }
            // inverse: feed the result back
            let (rn, rd) = gotq.reduced();
            let mut back_amount = format!("{}|{}", rn, rd);
            for (b, e) in &od {
                back_amount.push_str(&format!(" {}^{}", b, e));
            }
            if od.is_empty() {
                return Ok(()); // a dimensionless result does not select the property on the way back
            }
            let back = format!("{} of ({}) {}", given_name, back_amount, sub);
            st.eval();
            let b = match number_reply(rinkx::eval_line(&env.ctx, &back)) {
                Ok(n) => n,
                Err(e) if e.starts_with("PANIC") => return fail(env, st, &panic_signature(&e[7..]), &back, e),
                Err(e) => return fail(env, st, "inverse-query-refused", &back, e),
            };
            match nq(&b) {
                Some((bq, bd)) if bd == gd && bq.eq_val(&aq) => Ok(()),
                Some((bq, bd)) => fail(
                    env,
                    st,
                    "inverse-does-not-return-amount",
                    &back,
                    format!("gives {} [{}], the amount was {}/{} [{}]", bq.to_string(), dims_show(&bd), a.0, a.1, dims_show(&gd)),
                ),
                None => fail(env, st, "inverse-float", &back, "float".into()),
            }
        }
        Case::Scale { sub, k, divide } => {
            let s = match env.ctx.registry.substances.get(sub) {
                Some(s) => s.clone(),
                None => return Ok(()),
            };
            if !usable_word(sub) || k.0 == 0 {
                st.excluded("not usable / zero factor");
                return Ok(());
            }
            if env.ctx.lookup(sub).is_some() {
                st.excluded("substance name is also a unit name (the unit wins when the name is evaluated)");
                return Ok(());
            }
            if s.amount != Number::one() {
                st.excluded("name denotes an amount of a substance (a unit defined through a substance), not the substance itself");
                return Ok(());
            }
            let kq = if *divide { Q::new(k.1.into(), k.0.into()) } else { Q::new(k.0.into(), k.1.into()) };
            let ktext = if k.1 == 1 { format!("{}", k.0) } else { format!("({}|{})", k.0, k.1) };
            let scaled = if *divide { format!("{} / {}", sub, ktext) } else { format!("{} {}", ktext, sub) };
            st.class("scaling");
            // p of (k S) = k * p of S
            for (key, p) in &s.properties.properties {
                if !usable_word(key) {
                    continue;
                }
                let (inq, _) = match nq(&p.input) {
                    Some(x) => x,
                    None => continue,
                };
                let (outq, outd) = match nq(&p.output) {
                    Some(x) => x,
                    None => continue,
                };
                let text = format!("{} of ({})", key, scaled);
                st.eval();
                st.nontrivial(&text);
                let want = outq.mul(&kq).div(&inq).unwrap();
                let got = match number_reply(rinkx::eval_line(&env.ctx, &text)) {
                    Ok(n) => n,
                    Err(e) if e.starts_with("PANIC") => return fail(env, st, &panic_signature(&e[7..]), &text, e),
                    Err(e) => return fail(env, st, "scaled-property-refused", &text, e),
                };
                match nq(&got) {
                    Some((gq, gd)) => {
                        let wd: Dims = crate::gen::units::dims_mul(&outd, &rinkx::dims_of(&p.input), -1);
                        if gd != wd || !gq.eq_val(&want) {
                            return fail(
                                env,
                                st,
                                "scaling-not-linear",
                                &text,
                                format!("rink {} [{}], expected k * property = {} [{}]", gq.to_string(), dims_show(&gd), want.to_string(), dims_show(&wd)),
                            );
                        }
                    }
                    None => return fail(env, st, "scaled-float", &text, "float".into()),
                }
            }
            // the substance reply: properties with a dimensionless input scale by k
            st.eval();
            match rinkx::eval_line(&env.ctx, &scaled) {
                Out::Panic(pn) => fail(env, st, &panic_signature(&pn), &scaled, format!("panicked: {}", pn)),
                Out::Reply(QueryReply::Substance(r)) => {
                    for pr in &r.properties {
                        if let Some(p) = s.properties.properties.get(&pr.name) {
                            if let (Some((inq, ind)), Some((outq, _))) = (nq(&p.input), nq(&p.output)) {
                                if !ind.is_empty() {
                                    continue;
                                }
                                let want = outq.mul(&kq).div(&inq).unwrap();
                                match pr.value.raw_value.as_ref().and_then(nq) {
                                    Some((g, _)) if g.eq_val(&want) => {}
                                    Some((g, _)) => {
                                        return fail(
                                            env,
                                            st,
                                            "reply-property-not-scaled",
                                            &scaled,
                                            format!("property {} shows {}, expected {}", pr.name, g.to_string(), want.to_string()),
                                        )
                                    }
                                    None => {}
                                }
                            }
                        }
                    }
                    Ok(())
                }
                other => fail(env, st, "scaled-substance-reply-missing", &scaled, other.describe()),
            }
        }
        Case::Formula(parts) => {
            let mut text = String::new();
            let mut want = Q::small(0);
            let mut distinct = BTreeSet::new();
            let mut has_count = false;
            for (sym, cnt) in parts {
                let name = match env.ctx.registry.substance_symbols.get(sym) {
                    Some(n) => n,
                    None => return Ok(()),
                };
                let el = match env.ctx.registry.substances.get(name) {
                    Some(e) => e,
                    None => return Ok(()),
                };
                let mm = match el.properties.properties.get("molar_mass") {
                    Some(p) => match (nq(&p.output), nq(&p.input)) {
                        (Some((o, _)), Some((i, _))) => o.div(&i).unwrap(),
                        _ => return Ok(()),
                    },
                    None => {
                        st.excluded("element without molar_mass");
                        return Ok(());
                    }
                };
                text.push_str(sym);
                let n = match cnt {
                    Some(n) => {
                        text.push_str(&n.to_string());
                        if *n > 1 {
                            has_count = true;
                        }
                        *n
                    }
                    None => 1,
                };
                want = want.add(&mm.mul(&Q::int(BigInt::from(n))));
                distinct.insert(sym.clone());
            }
            // a text that is itself a unit, substance or symbol is legitimately not a formula
            if env.ctx.lookup(&text).is_some() || env.ctx.registry.substances.contains_key(&text) || env.ctx.registry.substance_symbols.contains_key(&text) {
                st.excluded("the text is itself a unit, substance or symbol");
                return Ok(());
            }
            if !rinkx::lexer_safe(&text) {
                st.excluded("formula text is not one identifier");
                return Ok(());
            }
            st.eval();
            st.class("formula");
            if distinct.len() >= 2 && has_count {
                st.nontrivial(&text);
                st.nt_sample(|| json!(text));
            }
            let q = format!("molar_mass of {}", text);
            let got = match number_reply(rinkx::eval_line(&env.ctx, &q)) {
                Ok(n) => n,
                Err(e) if e.starts_with("PANIC") => return fail(env, st, &panic_signature(&e[7..]), &q, e),
                Err(e) => return fail(env, st, "formula-not-recognised", &q, e),
            };
            match nq(&got) {
                Some((g, d)) => {
                    let mut wd = Dims::new();
                    wd.insert("kg".into(), 1);
                    wd.insert("mol".into(), -1);
                    if d != wd || !g.eq_val(&want) {
                        return fail(env, st, "formula-molar-mass-wrong", &q, format!("rink {} [{}], sum of elements {}", g.to_string(), dims_show(&d), want.to_string()));
                    }
                }
                None => return fail(env, st, "formula-float", &q, "float".into()),
            }
            // and the bare formula is a substance named by its text
            match rinkx::eval_line(&env.ctx, &text) {
                Out::Reply(QueryReply::Substance(s)) if s.name == text => Ok(()),
                Out::Panic(pn) => fail(env, st, &panic_signature(&pn), &text, format!("panicked: {}", pn)),
                other => fail(env, st, "formula-reply-not-a-substance", &text, other.describe()),
            }
        }
        Case::NearMiss(text) => {
            if env.ctx.lookup(text).is_some() || env.ctx.registry.substances.contains_key(text) || env.ctx.registry.substance_symbols.contains_key(text) {
                st.excluded("the text is itself a unit, substance or symbol");
                return Ok(());
            }
            st.eval();
            st.class("near_miss");
            st.nontrivial(text);
            match rinkx::eval_line(&env.ctx, text) {
                Out::Panic(pn) => fail(env, st, &panic_signature(&pn), text, format!("panicked: {}", pn)),
                Out::Reply(QueryReply::Substance(s)) if &s.name == text => fail(
                    env,
                    st,
                    "near-miss-treated-as-formula",
                    text,
                    format!("text that is not a well-formed formula of known symbols was treated as one: {}", QueryReply::Substance(s)),
                ),
                _ => Ok(()),
            }
        }
    }
}

// ---------------------------------------------------------------------------

fn amount() -> impl Strategy<Value = (u64, u64)> {
    prop_oneof![
        1 => Just((1u64, 1u64)),
        1 => Just((0u64, 1u64)),
        4 => (2u64..1000, Just(1u64)),
        3 => (1u64..1000, 2u64..1000),
        1 => (1u64..10, Just(1_000_000_007u64)),
        1 => (1_000_000_000_000u64..2_000_000_000_000, Just(1u64)),
    ]
}

pub struct Tables {
    pub props: Vec<(String, String)>,
    pub subs: Vec<String>,
    pub symbols: Vec<String>,
}

pub fn tables(ctx: &Context) -> Tables {
    let mut props = vec![];
    let mut subs = vec![];
    for (name, s) in &ctx.registry.substances {
        subs.push(name.clone());
        for key in s.properties.properties.keys() {
            props.push((name.clone(), key.clone()));
        }
    }
    Tables {
        props,
        subs,
        symbols: ctx.registry.substance_symbols.keys().cloned().collect(),
    }
}

fn random_cases(t: Arc<Tables>) -> impl Strategy<Value = Case> {
    let t1 = t.clone();
    let t2 = t.clone();
    let t3 = t.clone();
    let t4 = t.clone();
    let counts = prop_oneof![
        3 => Just(None),
        1 => Just(Some(1u64)),
        3 => (2u64..12).prop_map(Some),
        1 => proptest::sample::select(vec![Some(10u64), Some(65536), Some(4294967295)]),
    ];
    prop_oneof![
        5 => (any::<prop::sample::Index>(), any::<bool>(), amount(), proptest::bool::weighted(0.15)).prop_map(move |(i, forward, a, wrong_dims)| {
            let (sub, prop) = t1.props[i.index(t1.props.len())].clone();
            Case::Prop { sub, prop, forward, a, wrong_dims }
        }),
        1 => (any::<prop::sample::Index>(), amount(), any::<bool>()).prop_map(move |(i, k, divide)| Case::Scale { sub: t2.subs[i.index(t2.subs.len())].clone(), k, divide }),
        3 => proptest::collection::vec((any::<prop::sample::Index>(), counts), 1..=8).prop_map(move |v| {
            Case::Formula(v.into_iter().map(|(i, c)| (t3.symbols[i.index(t3.symbols.len())].clone(), c)).collect())
        }),
        1 => (proptest::collection::vec(any::<prop::sample::Index>(), 1..=3), 0u8..8).prop_map(move |(v, kind)| {
            let syms: Vec<String> = v.iter().map(|i| t4.symbols[i.index(t4.symbols.len())].clone()).collect();
            let base = syms.join("");
            Case::NearMiss(match kind {
                0 => base.to_lowercase(),
                1 => format!("{}Xx2", base),
                2 => format!("{}4294967296", base),
                3 => format!("{}_2", base),
                4 => format!("2{}", base),
                5 => format!("{}99999999999999999999", base),
                6 => format!("{}q", base),
                _ => format!("Zz{}", base),
            })
        }),
    ]
}

const STANDARD_SYMBOLS: [&str; 118] = [
    "H", "He", "Li", "Be", "B", "C", "N", "O", "F", "Ne", "Na", "Mg", "Al", "Si", "P", "S", "Cl", "Ar", "K", "Ca", "Sc", "Ti", "V", "Cr", "Mn", "Fe",
    "Co", "Ni", "Cu", "Zn", "Ga", "Ge", "As", "Se", "Br", "Kr", "Rb", "Sr", "Y", "Zr", "Nb", "Mo", "Tc", "Ru", "Rh", "Pd", "Ag", "Cd", "In", "Sn",
    "Sb", "Te", "I", "Xe", "Cs", "Ba", "La", "Ce", "Pr", "Nd", "Pm", "Sm", "Eu", "Gd", "Tb", "Dy", "Ho", "Er", "Tm", "Yb", "Lu", "Hf", "Ta", "W",
    "Re", "Os", "Ir", "Pt", "Au", "Hg", "Tl", "Pb", "Bi", "Po", "At", "Rn", "Fr", "Ra", "Ac", "Th", "Pa", "U", "Np", "Pu", "Am", "Cm", "Bk", "Cf",
    "Es", "Fm", "Md", "No", "Lr", "Rf", "Db", "Sg", "Bh", "Hs", "Mt", "Ds", "Rg", "Cn", "Nh", "Fl", "Mc", "Lv", "Ts", "Og",
];

/// a symbol that names a substance with an atomic number must be the standard symbol of the
/// element with that number (so that a formula means the compound a chemist reads it as);
/// symbols of non-elements (Me, Et, Ac, Ph) are not judged
pub fn check_symbol(ctx: &Context, sym: &str, known: &BTreeSet<String>, st: &mut Stats) -> CaseResult {
    let name = match ctx.registry.substance_symbols.get(sym) {
        Some(n) => n,
        None => return Ok(()),
    };
    let sub = match ctx.registry.substances.get(name) {
        Some(s) => s,
        None => return Ok(()),
    };
    let z = sub.properties.properties.get("atomic_number").and_then(|p| p.output.value.to_int());
    let z = match z {
        Some(z) if z >= 1 && z <= 118 => z as usize,
        _ => {
            st.class("symbol_of_a_non_element (not judged)");
            return Ok(());
        }
    };
    st.eval();
    st.class("symbol_checked_against_periodic_table");
    // hydrogen's isotopes have symbols of their own
    let isotope = z == 1 && (sym == "D" || sym == "T");
    if STANDARD_SYMBOLS[z - 1] != sym && !isotope {
        let sig = "symbol-names-another-element";
        if known.contains(sig) {
            st.known(sig, sym);
            return Ok(());
        }
        return Err(format!(
            "[{}] the symbol {} names {} (atomic number {}), whose symbol is {}; {} is the symbol of element {}: a formula with {} is read as another compound",
            sig,
            sym,
            name,
            z,
            STANDARD_SYMBOLS[z - 1],
            sym,
            STANDARD_SYMBOLS.iter().position(|s| *s == sym).map(|i| (i + 1).to_string()).unwrap_or_else(|| "no".into()),
            sym
        ));
    }
    Ok(())
}

pub fn run(cx: &Cx) -> Report {
    let mut rep = Report::new(RULE);
    rep.exhaustive = true;
    rep.assumptions = vec![
        "property values (input, output, names) are read from the registry and trusted as the database content; the linear law above them is recomputed with own rationals".into(),
        "ratio properties (density) are not scaled in the substance reply for `2 water` (only `density of (2 water)` is): the reply clause is asserted for properties with a dimensionless input".into(),
        "a zero amount gives zero of the other side (output*(0/input)); it cannot be fed back, so the inverse direction is skipped for it".into(),
    ];
    let ctx = rinkx::new_ctx();
    let t = Arc::new(tables(&ctx));
    drop(ctx);
    rep.stats.note("substances", json!(t.subs.len()));
    rep.stats.note("substance_properties", json!(t.props.len()));
    rep.stats.note("symbols", json!(t.symbols.len()));
    let known = cx.known.clone();
    crate::regress::run(cx, &mut rep, &replay);
    // exhaustive: every substance x property x direction with two amounts, plus scaling of every substance
    let mut items = vec![];
    for (i, (sub, prop)) in t.props.iter().enumerate() {
        for forward in [true, false] {
            items.push(Case::Prop { sub: sub.clone(), prop: prop.clone(), forward, a: (3 + i as u64 % 7, 1), wrong_dims: false });
            items.push(Case::Prop { sub: sub.clone(), prop: prop.clone(), forward, a: (5, 3 + i as u64 % 11), wrong_dims: false });
            items.push(Case::Prop { sub: sub.clone(), prop: prop.clone(), forward, a: (2, 1), wrong_dims: true });
            items.push(Case::Prop { sub: sub.clone(), prop: prop.clone(), forward, a: (3, 2), wrong_dims: true });
            items.push(Case::Prop { sub: sub.clone(), prop: prop.clone(), forward, a: (0, 1), wrong_dims: false });
            items.push(Case::Prop { sub: sub.clone(), prop: prop.clone(), forward, a: (0, 1), wrong_dims: true });
        }
    }
    for (i, sub) in t.subs.iter().enumerate() {
        items.push(Case::Scale { sub: sub.clone(), k: (2 + i as u64 % 5, 1), divide: false });
        items.push(Case::Scale { sub: sub.clone(), k: (3, 2 + i as u64 % 3), divide: true });
    }
    for s in &t.symbols {
        items.push(Case::Formula(vec![(s.clone(), None)]));
        items.push(Case::Formula(vec![(s.clone(), Some(4294967295))]));
        items.push(Case::NearMiss(format!("{}4294967296", s)));
    }
    // the symbol table against the periodic table
    {
        let ctx = rinkx::new_ctx();
        let mut st = Stats::new();
        let syms: Vec<String> = ctx.registry.substance_symbols.keys().cloned().collect();
        for sym in syms {
            if let Err(detail) = check_symbol(&ctx, &sym, &known, &mut st) {
                rep.violations.push(Violation {
                    phase: "symbols".into(),
                    case: json!({"symbol": sym}),
                    detail,
                });
            }
        }
        rep.stats.merge(st);
    }
    rep.stats.note("exhaustive_cases", json!(items.len()));
    let k = known.clone();
    rep.absorb(par_sweep(
        cx,
        "exhaustive",
        items,
        move || mk_env(k.clone()),
        |env, c, st| check(env, c, st),
        |c| serde_json::to_value(c).unwrap(),
    ));
    rep.mark(cx, "exhaustive");
    let k = known.clone();
    let t2 = t.clone();
    rep.absorb(par_proptest(
        cx,
        "random",
        cx.tier.pick(400_000, 4_000_000),
        move || random_cases(t2.clone()),
        move || mk_env(k.clone()),
        |env, c, st| check(env, c, st),
        |c| serde_json::to_value(c).unwrap(),
    ));
    rep.mark(cx, "random");
    let _ = BTreeMap::<u8, u8>::new();
    rep
}

pub fn replay(cx: &Cx, _phase: &str, case: &J, st: &mut Stats) -> CaseResult {
    let env = mk_env(cx.known.clone());
    if let Some(sym) = case.get("symbol").and_then(|s| s.as_str()) {
        return check_symbol(&env.ctx, sym, &cx.known, st);
    }
    let c: Case = serde_json::from_value(case.clone()).map_err(|e| format!("bad case: {}", e))?;
    check(&env, &c, st)
}
