//! C09 — unit lists and duration breakdowns decompose without loss.

use crate::engine::*;
use crate::gen::units::*;
use crate::oracle::refarith::Q;
use crate::rinkx::{self, Out};
use proptest::prelude::*;
use rink_core::output::{NumberParts, QueryReply};
use rink_core::Context;
use serde_derive::{Deserialize, Serialize};
use serde_json::{json, Value as J};
use std::collections::BTreeSet;
use std::sync::Arc;

pub const RULE: &str = "case = (rational r in several notations and signs, unit u0, ordered list of 2..6 units) rendered as \
`r u0 -> u1; ...; un`, lists drawn from one dimensionality class (every class with >= 2 positive-valued usable units) in random, \
ascending or descending order with repeats allowed; a sixth of the cases put a stranger in the list or take the value from \
another class (must be refused); time-valued plain expressions exercise the automatic year/week/day/hour/minute/second breakdown. \
Oracle: sum(part_i * u_i) = v exactly, all parts but the last integers, non-zero parts share v's sign, |remainder_i| < u_i, \
last remainder zero, recomputed with own rationals. Non-trivial = distinct case with v negative, or an order that is not \
descending, or a repeated unit, or a non-integer last part.";

#[derive(Clone, Debug, Serialize, Deserialize, PartialEq, Eq, Hash)]
pub struct R {
    pub text: String,
    pub num: String,
    pub den: String,
}

#[derive(Clone, Debug, Serialize, Deserialize)]
pub struct Case {
    pub r: R,
    pub u0: String,
    /// None = automatic duration breakdown of a time value
    pub list: Option<Vec<String>>,
    pub separator: String,
}

impl Case {
    pub fn text(&self) -> String {
        match &self.list {
            Some(l) => format!("{} {} -> {}", self.r.text, self.u0, l.join(&self.separator)),
            None => format!("{} {}", self.r.text, self.u0),
        }
    }
}

pub struct Env {
    pub ctx: Context,
    pub known: BTreeSet<String>,
}

fn fail(env: &Env, st: &mut Stats, sig: &str, text: &str, detail: String) -> CaseResult {
    if env.known.contains(sig) {
        st.known(sig, text);
        Ok(())
    } else {
        Err(format!("[{}] `{}`: {}", sig, text, detail))
    }
}

fn unit_q(ctx: &Context, name: &str) -> Result<(Q, Dims), &'static str> {
    if unusable(name).is_some() {
        return Err("name not usable bare in a query");
    }
    let n = ctx.lookup(name).ok_or("name does not resolve")?;
    let (a, b) = rinkx::rational_of(&n.value).ok_or("float-valued unit")?;
    let q = Q::new(a, b);
    if q.signum() <= 0 {
        return Err("unit with a non-positive value (the sign and exact-sum laws cannot both hold)");
    }
    Ok((q, rinkx::dims_of(&n)))
}

fn part_of(p: &NumberParts) -> Option<Q> {
    let raw = p.raw_value.as_ref()?;
    let (a, b) = rinkx::rational_of(&raw.value)?;
    Some(Q::new(a, b))
}

/// the decomposition laws
fn check_parts(v: &Q, units: &[Q], parts: &[Q]) -> Result<bool, (String, String)> {
    if parts.len() != units.len() {
        return Err(("part-count".into(), format!("{} parts for {} units", parts.len(), units.len())));
    }
    let n = units.len();
    let mut rem = v.clone();
    let vs = v.signum();
    let mut last_nonint = false;
    for i in 0..n {
        let p = &parts[i];
        if i < n - 1 && p.as_integer().is_none() {
            return Err((
                "non-integer-inner-part".into(),
                format!("part {} = {} is not an integer", i, p.to_string()),
            ));
        }
        if i == n - 1 && p.as_integer().is_none() {
            last_nonint = true;
        }
        if !p.is_zero() && p.signum() != vs {
            return Err((
                "part-sign".into(),
                format!("part {} = {} does not share the value's sign", i, p.to_string()),
            ));
        }
        rem = rem.sub(&p.mul(&units[i]));
        if i < n - 1 {
            if !rem.abs().lt(&units[i]) {
                return Err((
                    "remainder-not-smaller-than-unit".into(),
                    format!("after part {} the remainder {} is not smaller than the unit", i, rem.to_string()),
                ));
            }
            if !rem.is_zero() && rem.signum() != vs {
                return Err(("remainder-sign".into(), format!("remainder after part {} changes sign", i)));
            }
        }
    }
    if !rem.is_zero() {
        let (a, b) = rem.reduced();
        return Err((
            "sum-not-exact".into(),
            format!("sum of parts differs from the value by {}/{}", a, b),
        ));
    }
    Ok(last_nonint)
}

pub fn check(env: &Env, case: &Case, st: &mut Stats) -> CaseResult {
    let text = case.text();
    let r = Q::new(
        crate::oracle::refarith::parse_dec(&case.r.num).ok_or("bad r")?,
        crate::oracle::refarith::parse_dec(&case.r.den).ok_or("bad r")?,
    );
    let (u0v, u0d) = match unit_q(&env.ctx, &case.u0) {
        Ok(x) => x,
        Err(why) => {
            st.excluded(why);
            return Ok(());
        }
    };
    let v = r.mul(&u0v);
    match &case.list {
        Some(list) => {
            let mut units = vec![];
            let mut conform = true;
            for n in list {
                match unit_q(&env.ctx, n) {
                    Ok((q, d)) => {
                        if d != u0d {
                            conform = false;
                        }
                        units.push(q);
                    }
                    Err(why) => {
                        st.excluded(why);
                        return Ok(());
                    }
                }
            }
            st.eval();
            let out = rinkx::eval_line(&env.ctx, &text);
            if !conform {
                st.class("must_refuse");
                st.nontrivial(&text);
                return match out {
                    Out::Panic(p) => fail(env, st, &panic_signature(&p), &text, format!("panicked: {}", p)),
                    Out::Error(_) => Ok(()),
                    Out::Reply(r) => fail(
                        env,
                        st,
                        "nonconformable-list-accepted",
                        &text,
                        format!("a list with a non-conformable member or value was answered: {}", r),
                    ),
                };
            }
            st.class("must_decompose");
            let descending = units.windows(2).all(|w| w[1].lt(&w[0]));
            let repeated = {
                let mut s = BTreeSet::new();
                !list.iter().all(|n| s.insert(n.clone()))
            };
            match out {
                Out::Panic(p) => fail(env, st, &panic_signature(&p), &text, format!("panicked: {}", p)),
                Out::Error(e) => fail(env, st, "conformable-list-refused", &text, format!("refused: {}", e)),
                Out::Reply(QueryReply::UnitList(ul)) => {
                    let parts: Option<Vec<Q>> = ul.list.iter().map(part_of).collect();
                    let parts = match parts {
                        Some(p) => p,
                        None => return fail(env, st, "list-part-not-rational", &text, "a part has no rational raw value".into()),
                    };
                    match check_parts(&v, &units, &parts) {
                        Ok(last_nonint) => {
                            if v.signum() < 0 || !descending || repeated || last_nonint {
                                st.nontrivial(&text);
                                st.nt_sample(|| json!(text));
                            } else {
                                st.sample(|| json!(text));
                            }
                            if v.signum() < 0 {
                                st.class("negative_value");
                            }
                            if !descending {
                                st.class("order_not_descending");
                            }
                            if repeated {
                                st.class("repeated_unit");
                            }
                            Ok(())
                        }
                        Err((sig, d)) => fail(env, st, &sig, &text, d),
                    }
                }
                Out::Reply(other) => fail(env, st, "unexpected-reply-kind", &text, format!("{}", other)),
            }
        }
        None => {
            // automatic breakdown for time values
            let mut sdim = Dims::new();
            sdim.insert("s".into(), 1);
            if u0d != sdim {
                st.excluded("not a time unit");
                return Ok(());
            }
            st.eval();
            st.class("duration_breakdown");
            let names = ["year", "week", "day", "hour", "minute", "second"];
            let units: Vec<Q> = names.iter().map(|n| unit_q(&env.ctx, n).map(|x| x.0)).collect::<Result<_, _>>().map_err(|e| e.to_string())?;
            match rinkx::eval_line(&env.ctx, &text) {
                Out::Panic(p) => fail(env, st, &panic_signature(&p), &text, format!("panicked: {}", p)),
                Out::Reply(QueryReply::Duration(d)) => {
                    let ps = [&d.years, &d.weeks, &d.days, &d.hours, &d.minutes, &d.seconds];
                    let parts: Option<Vec<Q>> = ps.iter().map(|p| part_of(p)).collect();
                    let parts = match parts {
                        Some(p) => p,
                        None => return fail(env, st, "duration-part-not-rational", &text, "a part has no rational raw value".into()),
                    };
                    if d.months.exact_value.as_deref() != Some("0") {
                        return fail(env, st, "months-not-zero", &text, format!("months = {:?}", d.months.exact_value));
                    }
                    // the raw value must be the value itself
                    match d.raw.raw_value.as_ref().and_then(|r| rinkx::rational_of(&r.value)) {
                        Some((a, b)) if Q::new(a.clone(), b.clone()).eq_val(&v) => {}
                        other => return fail(env, st, "duration-raw-wrong", &text, format!("raw = {:?}", other)),
                    }
                    match check_parts(&v, &units, &parts) {
                        Ok(last_nonint) => {
                            if v.signum() < 0 || last_nonint {
                                st.nontrivial(&text);
                                st.nt_sample(|| json!(text));
                            }
                            Ok(())
                        }
                        Err((sig, dd)) => fail(env, st, &format!("duration-{}", sig), &text, dd),
                    }
                }
                other => fail(env, st, "duration-reply-missing", &text, other.describe()),
            }
        }
    }
}

// ---------------------------------------------------------------------------

fn r_from(neg: bool, n: u128, d: u128, style: u8) -> R {
    // style 0: n|d (or n), 1: decimal if d is a power of ten
    let mut text = String::new();
    if neg {
        text.push('-');
    }
    let is_pow10 = {
        let mut x = d;
        while x % 10 == 0 && x > 1 {
            x /= 10;
        }
        x == 1
    };
    if d == 1 {
        text.push_str(&n.to_string());
    } else if style == 1 && is_pow10 {
        let k = d.to_string().len() - 1;
        let s = format!("{:0>width$}", n, width = k + 1);
        let (i, f) = s.split_at(s.len() - k);
        text.push_str(&format!("{}.{}", i, f));
    } else {
        text.push_str(&format!("{}|{}", n, d));
    }
    R {
        text,
        num: if neg { format!("-{}", n) } else { n.to_string() },
        den: d.to_string(),
    }
}

pub fn r_strategy() -> impl Strategy<Value = R> {
    prop_oneof![
        1 => Just(r_from(false, 0, 1, 0)),
        3 => (any::<bool>(), 1u128..5000).prop_map(|(s, n)| r_from(s, n, 1, 0)),
        3 => (any::<bool>(), 1u128..1_000_000, proptest::sample::select(vec![10u128, 100, 1000, 1_000_000])).prop_map(|(s, n, d)| r_from(s, n, d, 1)),
        3 => (any::<bool>(), 1u128..100_000, 2u128..1000).prop_map(|(s, n, d)| r_from(s, n, d, 0)),
        1 => (any::<bool>(), 1u128..10).prop_map(|(s, n)| r_from(s, n, 1_000_000_007, 0)),
        1 => (any::<bool>(), 0u128..1000).prop_map(|(s, n)| r_from(s, 10u128.pow(30) + n, 1, 0)),
        1 => (any::<bool>(), 1u128..1000, 1u128..1000).prop_map(|(s, n, d)| r_from(s, 10u128.pow(24) * n + 1, d * 7, 0)),
    ]
}

/// classes usable for lists: >= 2 positive rational-valued units
fn list_classes(pool: &UnitPool) -> Vec<Vec<usize>> {
    pool.classes
        .iter()
        .map(|cl| {
            cl.iter()
                .cloned()
                .filter(|i| pool.units[*i].val.as_ref().map(|q| q.signum() > 0).unwrap_or(false))
                .collect::<Vec<_>>()
        })
        .filter(|cl| cl.len() >= 2)
        .collect()
}

pub fn case_strategy(pool: Arc<UnitPool>) -> impl Strategy<Value = Case> {
    let classes = Arc::new(list_classes(&pool));
    let ncl = classes.len();
    let p1 = pool.clone();
    let c1 = classes.clone();
    let lists = (
        prop_oneof![3 => 0usize..ncl.min(10), 2 => 0usize..ncl],
        proptest::collection::vec(any::<prop::sample::Index>(), 2..=6),
        any::<prop::sample::Index>(),
        0u8..3,
        r_strategy(),
        proptest::option::weighted(0.17, (0usize..ncl, any::<prop::sample::Index>(), any::<bool>())),
        proptest::sample::select(vec!["; ", ", ", ";", " ; "]),
        // spellings: a prefix in front and / or a plural `s` behind a list member (`ms;us`, `feet`-like forms)
        proptest::collection::vec((proptest::option::weighted(0.25, any::<prop::sample::Index>()), proptest::bool::weighted(0.15)), 6),
    )
        .prop_map(move |(c, ms, u0, order, r, stranger, sep, decos)| {
            let cl = &c1[c];
            let mut idx: Vec<usize> = ms.iter().map(|m| cl[m.index(cl.len())]).collect();
            match order {
                1 => idx.sort_by(|a, b| {
                    let (x, y) = (p1.units[*a].val.as_ref().unwrap(), p1.units[*b].val.as_ref().unwrap());
                    if y.lt(x) {
                        std::cmp::Ordering::Less
                    } else if x.lt(y) {
                        std::cmp::Ordering::Greater
                    } else {
                        std::cmp::Ordering::Equal
                    }
                }),
                2 => idx.sort_by(|a, b| {
                    let (x, y) = (p1.units[*a].val.as_ref().unwrap(), p1.units[*b].val.as_ref().unwrap());
                    if x.lt(y) {
                        std::cmp::Ordering::Less
                    } else if y.lt(x) {
                        std::cmp::Ordering::Greater
                    } else {
                        std::cmp::Ordering::Equal
                    }
                }),
                _ => {}
            }
            let mut names: Vec<String> = idx
                .iter()
                .enumerate()
                .map(|(k, i)| {
                    let (pre, plural) = &decos[k % decos.len()];
                    crate::props::c03::decorated(&p1, *i, pre.as_ref().map(|x| x.index(p1.prefixes.len())), *plural)
                })
                .collect();
            let mut u0n = p1.units[cl[u0.index(cl.len())]].name.clone();
            if let Some((sc, sm, in_value)) = stranger {
                let scl = &c1[sc];
                let sname = p1.units[scl[sm.index(scl.len())]].name.clone();
                if in_value {
                    u0n = sname;
                } else {
                    let pos = sm.index(names.len());
                    names[pos] = sname;
                }
            }
            Case {
                r,
                u0: u0n,
                list: Some(names),
                separator: sep.to_string(),
            }
        });
    let durations = (
        r_strategy(),
        proptest::sample::select(vec![
            "s", "second", "ms", "ns", "minute", "hour", "day", "week", "year", "fortnight", "century", "month", "siderealday", "microsecond",
        ]),
    )
        .prop_map(|(r, u)| Case {
            r,
            u0: u.to_string(),
            list: None,
            separator: String::new(),
        });
    prop_oneof![6 => lists, 1 => durations]
}

/// a time value that is a float (a root, a transcendental function): the breakdown must obey
/// the same laws up to float rounding
#[derive(Clone, Debug, Serialize, Deserialize)]
pub struct FloatDuration {
    pub k: u32,
    pub form: u8,
    pub neg: bool,
}

impl FloatDuration {
    pub fn text(&self) -> String {
        let s = if self.neg { "-" } else { "" };
        // forms 5..: whole multiples of units whose length in seconds is not a dyadic number, so that
        // the float quotient value / unit is rounded while the value is (nearly) an exact multiple
        let k = self.k % 20_000 + 1;
        match self.form % 10 {
            0 => format!("{}sqrt({} s^2)", s, self.k),
            1 => format!("{}({} s^2)^(1|2)", s, self.k),
            2 => format!("{}{} exp(0) s", s, self.k),
            3 => format!("{}hypot({} s, 0 s)", s, self.k),
            4 => format!("{}{} sqrt(2) hour", s, self.k),
            5 => format!("{}sqrt({}^2) year", s, k),
            6 => format!("{}{} exp(0) year", s, k),
            7 => format!("{}sqrt({}^2) week + {}sqrt(9) day", s, k, s),
            8 => format!("{}hypot({} year, 0 year)", s, k),
            _ => format!("{}{} exp(0) siderealday", s, k),
        }
    }
    fn multiple(&self) -> Option<(f64, &'static str)> {
        let k = (self.k % 20_000 + 1) as f64;
        match self.form % 10 {
            5 | 6 | 8 => Some((k, "year")),
            9 => Some((k, "siderealday")),
            _ => None,
        }
    }
    /// the value in seconds; `units` gives the length of the named units
    pub fn value(&self, unit: &dyn Fn(&str) -> f64) -> f64 {
        let sg = if self.neg { -1.0 } else { 1.0 };
        let k = (self.k % 20_000 + 1) as f64;
        sg * match self.form % 10 {
            0 | 1 => (self.k as f64).sqrt(),
            2 | 3 => self.k as f64,
            4 => self.k as f64 * 2f64.sqrt() * 3600.0,
            7 => k * unit("week") + 3.0 * unit("day"),
            _ => k * self.multiple().map(|(_, u)| unit(u)).unwrap_or(1.0),
        }
    }
}

pub fn check_float_duration(env: &Env, c: &FloatDuration, st: &mut Stats) -> CaseResult {
    let text = c.text();
    let ctx = &env.ctx;
    let v = c.value(&|n: &str| ctx.lookup(n).map(|u| u.value.to_f64()).unwrap_or(f64::NAN));
    st.eval();
    st.class("float_duration_breakdown");
    if c.form % 10 >= 5 {
        st.class("float_duration_whole_multiple_of_a_non_dyadic_unit");
    }
    let names = ["year", "week", "day", "hour", "minute", "second"];
    let mut units = vec![];
    for n in names {
        match env.ctx.lookup(n) {
            Some(u) => units.push(u.value.to_f64()),
            None => return Ok(()),
        }
    }
    match rinkx::eval_line(&env.ctx, &text) {
        Out::Panic(p) => fail(env, st, &panic_signature(&p), &text, format!("panicked: {}", p)),
        Out::Reply(QueryReply::Duration(d)) => {
            let ps = [&d.years, &d.weeks, &d.days, &d.hours, &d.minutes, &d.seconds];
            let mut parts = vec![];
            for p in ps.iter() {
                match p.raw_value.as_ref() {
                    Some(r) => parts.push(r.value.to_f64()),
                    None => return fail(env, st, "duration-part-missing", &text, "a part has no raw value".into()),
                }
            }
            st.nontrivial(&text);
            st.nt_sample(|| json!(format!("{} => {}", text, QueryReply::Duration(d.clone()))));
            let tol = 1e-6 * v.abs().max(1.0);
            let mut sum = 0.0;
            for i in 0..6 {
                if i < 5 && parts[i].fract() != 0.0 {
                    return fail(env, st, "float-duration-non-integer-inner-part", &text, format!("the {} part is {} ({})", names[i], parts[i], QueryReply::Duration(d.clone())));
                }
                if parts[i] != 0.0 && (parts[i] < 0.0) != (v < 0.0) {
                    return fail(env, st, "float-duration-part-sign", &text, format!("the {} part {} does not share the value's sign", names[i], parts[i]));
                }
                sum += parts[i] * units[i];
            }
            if (sum - v).abs() > tol {
                return fail(
                    env,
                    st,
                    "float-duration-sum-wrong",
                    &text,
                    format!("the parts add up to {} s, the value is {} s ({})", sum, v, QueryReply::Duration(d.clone())),
                );
            }
            Ok(())
        }
        Out::Reply(QueryReply::Number(_)) | Out::Error(_) => {
            st.excluded("not a duration reply");
            Ok(())
        }
        other => fail(env, st, "float-duration-reply-missing", &text, other.describe()),
    }
}

/// a float value that is (nearly) a whole multiple of a list's first unit, for lists whose units are
/// not dyadic multiples of each other in SI (foot = 0.3048 m): the float quotient is rounded
#[derive(Clone, Debug, Serialize, Deserialize)]
pub struct FloatList {
    pub k: u32,
    pub which: u8,
    pub form: u8,
    pub neg: bool,
}

const FLOAT_LISTS: [(&str, &[&str]); 7] = [
    ("foot", &["foot", "inch"]),
    ("foot", &["yard", "foot", "inch"]),
    ("mile", &["mile", "yard", "foot", "inch"]),
    ("lb", &["stone", "lb", "oz"]),
    ("degree", &["degree", "arcmin", "arcsec"]),
    ("hour", &["day", "hour", "minute", "second"]),
    ("furlong", &["mile", "furlong", "chain"]),
];

impl FloatList {
    fn k(&self) -> f64 {
        (self.k % 5000 + 1) as f64
    }
    pub fn text(&self) -> String {
        let (u0, list) = FLOAT_LISTS[self.which as usize % FLOAT_LISTS.len()];
        let k = self.k() as u64;
        let s = if self.neg { "-" } else { "" };
        let val = match self.form % 4 {
            0 => format!("{}sqrt({}^2) {}", s, k, u0),
            1 => format!("{}{} exp(0) {}", s, k, u0),
            2 => format!("{}hypot({} {}, 0 {})", s, k, u0, u0),
            _ => format!("{}({}^2)^(1|2) {}", s, k, u0),
        };
        format!("{} -> {}", val, list.join(";"))
    }
}

pub fn check_float_list(env: &Env, c: &FloatList, st: &mut Stats) -> CaseResult {
    let text = c.text();
    let (u0, list) = FLOAT_LISTS[c.which as usize % FLOAT_LISTS.len()];
    let val_of = |n: &str| env.ctx.lookup(n).map(|u| u.value.to_f64());
    let u0v = match val_of(u0) {
        Some(v) => v,
        None => return Ok(()),
    };
    let mut units = vec![];
    for n in list {
        match val_of(n) {
            Some(u) => units.push(u),
            None => return Ok(()),
        }
    }
    let v = if c.neg { -1.0 } else { 1.0 } * c.k() * u0v;
    st.eval();
    st.class("float_list");
    match rinkx::eval_line(&env.ctx, &text) {
        Out::Panic(p) => fail(env, st, &panic_signature(&p), &text, format!("panicked: {}", p)),
        Out::Reply(QueryReply::UnitList(ul)) => {
            let mut parts = vec![];
            for p in ul.list.iter() {
                match p.raw_value.as_ref() {
                    Some(r) => parts.push(r.value.to_f64()),
                    None => return fail(env, st, "list-part-missing", &text, "a part has no raw value".into()),
                }
            }
            if parts.len() != units.len() {
                return fail(env, st, "list-length", &text, format!("{} parts for {} units", parts.len(), units.len()));
            }
            st.nontrivial(&text);
            st.nt_sample(|| json!(format!("{} => {}", text, QueryReply::UnitList(ul.clone()))));
            let tol = 1e-9 * v.abs().max(units[units.len() - 1]);
            let mut sum = 0.0;
            let n = parts.len();
            for i in 0..n {
                if i + 1 < n && parts[i].fract() != 0.0 {
                    return fail(env, st, "float-list-non-integer-inner-part", &text, format!("part {} is {} ({})", list[i], parts[i], QueryReply::UnitList(ul.clone())));
                }
                if parts[i].abs() * units[i] > tol && (parts[i] < 0.0) != (v < 0.0) {
                    return fail(env, st, "float-list-part-sign", &text, format!("part {} = {} does not share the value's sign", list[i], parts[i]));
                }
                sum += parts[i] * units[i];
            }
            if (sum - v).abs() > tol {
                return fail(
                    env,
                    st,
                    "float-list-sum-wrong",
                    &text,
                    format!("the parts add up to {} (SI), the value is {} ({})", sum, v, QueryReply::UnitList(ul.clone())),
                );
            }
            Ok(())
        }
        Out::Error(_) => {
            st.excluded("float list refused");
            Ok(())
        }
        other => fail(env, st, "float-list-reply-missing", &text, other.describe()),
    }
}

pub fn mk_env(known: BTreeSet<String>) -> Env {
    Env {
        ctx: rinkx::new_ctx(),
        known,
    }
}

pub fn run(cx: &Cx) -> Report {
    let mut rep = Report::new(RULE);
    rep.assumptions = vec![
        "units with a negative value (delisle_absolute, the wire gauges g00..g0000000) are excluded from lists: with them the sign law and the exact-sum law cannot both hold".into(),
        "float-valued units are excluded".into(),
        "integer division truncates toward zero, so negative values give negative parts (the statement's 'all parts share v's sign')".into(),
    ];
    let ctx = rinkx::new_ctx();
    let pool = Arc::new(build(&ctx));
    drop(ctx);
    let lc = list_classes(&pool);
    rep.stats.note("list_classes", json!(lc.len()));
    rep.stats.note(
        "units_excluded_non_positive_or_float",
        json!(pool.units.iter().filter(|u| !u.val.as_ref().map(|q| q.signum() > 0).unwrap_or(false)).map(|u| u.name.clone()).collect::<Vec<_>>()),
    );
    let known = cx.known.clone();
    crate::regress::run(cx, &mut rep, &replay);
    let k = known.clone();
    let p = pool.clone();
    rep.absorb(par_proptest(
        cx,
        "random",
        cx.tier.pick(100_000, 3_000_000),
        move || case_strategy(p.clone()),
        move || mk_env(k.clone()),
        |env, c, st| check(env, c, st),
        |c| json!({"case": c, "text": c.text()}),
    ));
    rep.mark(cx, "random");
    let k = known.clone();
    rep.absorb(par_proptest(
        cx,
        "float-durations",
        cx.tier.pick(5_000, 100_000),
        || (1u32..5_000_000, 0u8..10, any::<bool>()).prop_map(|(k, form, neg)| FloatDuration { k, form, neg }),
        move || mk_env(k.clone()),
        |env, c, st| check_float_duration(env, c, st),
        |c| json!({"float_duration": c, "text": c.text()}),
    ));
    rep.mark(cx, "float-durations");
    let k = known.clone();
    rep.absorb(par_proptest(
        cx,
        "float-lists",
        cx.tier.pick(5_000, 100_000),
        || (any::<u32>(), 0u8..7, 0u8..4, any::<bool>()).prop_map(|(k, which, form, neg)| FloatList { k, which, form, neg }),
        move || mk_env(k.clone()),
        |env, c, st| check_float_list(env, c, st),
        |c| json!({"float_list": c, "text": c.text()}),
    ));
    rep.mark(cx, "float-lists");
    let dec = rep.stats.classes.get("must_decompose").cloned().unwrap_or(0);
    let refu = rep.stats.classes.get("must_refuse").cloned().unwrap_or(0);
    if rep.violations.is_empty() && (dec == 0 || refu == 0) {
        rep.inconclusive = Some(format!("vacuous: decomposed {} refused {}", dec, refu));
    }
    rep
}

pub fn replay(cx: &Cx, _phase: &str, case: &J, st: &mut Stats) -> CaseResult {
    let env = mk_env(cx.known.clone());
    if case.get("float_list").is_some() {
        let c: FloatList = serde_json::from_value(case["float_list"].clone()).map_err(|e| format!("bad case: {}", e))?;
        return check_float_list(&env, &c, st);
    }
    if case.get("float_duration").is_some() {
        let c: FloatDuration = serde_json::from_value(case["float_duration"].clone()).map_err(|e| format!("bad case: {}", e))?;
        return check_float_duration(&env, &c, st);
    }
    let c: Case = serde_json::from_value(case["case"].clone()).map_err(|e| format!("bad case: {}", e))?;
    check(&env, &c, st)
}
