//! C04 — totality: no input can crash, abort or hang evaluation.

use crate::engine::*;
use crate::gen::query::*;
use crate::oracle::cost::{classify, Cost};
use crate::rinkx;
use crate::worker::{Outcome, Supervised};
use proptest::prelude::*;
use rink_core::Context;
use serde_json::{json, Value as J};
use std::cell::RefCell;
use std::collections::BTreeSet;
use std::time::Duration;

pub const RULE: &str = "case = a history of 20..120 input lines (<= 500 chars each) evaluated in order on one long-lived context in a \
supervised worker process (8 MiB main-thread stack, 3 GiB address space, 20 s budget per input, re-run alone with 60 s before a \
hang counts) with rink_core::eval and save_previous_result on; every line is produced from a proptest tape by one of five \
strategies: query grammar (every construct of parse_query/parse_term), token soup, mutation of the corpus (query strings of the \
repo's tests and manual, definition right-hand sides), aimed shapes (deep nesting, edge exponents, digits/base edges, NaN/inf into \
every operator, zero operands, ...), raw Unicode. For each cheap input (static classifier): eval, to_string, span tree and JSON \
must all return; a sentinel query every 10th position must keep its answer. Non-trivial = distinct input that gets past the first \
token (parses to something other than a bare error) or reaches the evaluator.";

pub struct Env {
    pub ctx: Context,
    pub dict: Dict,
    pub sup: RefCell<Supervised>,
    pub known: BTreeSet<String>,
    /// set when the failure being shrunk is an overrun (only then do overruns count while shrinking)
    pub hang_mode: std::cell::Cell<bool>,
}

pub fn mk_env(known: BTreeSet<String>) -> Env {
    let ctx = rinkx::new_ctx();
    let dict = Dict::build(&ctx);
    Env {
        ctx,
        dict,
        sup: RefCell::new(Supervised::new(vec![json!({"cmd": "new_ctx"})])),
        known,
        hang_mode: std::cell::Cell::new(false),
    }
}

#[derive(Clone, Debug)]
pub struct Item {
    pub kind: u8,
    pub tape: Vec<u32>,
    pub raw: String,
}

pub fn render(d: &Dict, it: &Item) -> String {
    let mut t = Tape::new(&it.tape);
    let s = match it.kind {
        0 => query(&mut t, d),
        1 => soup(&mut t, d),
        2 => mutate(&mut t, d),
        3 => shape(&mut t, d),
        _ => it.raw.clone(),
    };
    // one chat message: no more than 500 characters, single line
    s.replace('\r', " ").chars().take(500).collect()
}

const KIND_NAMES: [&str; 5] = ["grammar", "soup", "mutation", "shape", "raw"];
pub const SENTINEL: &str = "3 foot -> m";
pub const SENTINEL_ANSWER: &str = "0.9144 meter (length)";

fn signature_of(o: &Outcome) -> String {
    match o {
        Outcome::Panic(p) => panic_signature(p),
        Outcome::Died(w) => format!("died:{}", w),
        Outcome::Timeout(_) => "hang".into(),
        Outcome::Reply(_) => "reply".into(),
    }
}

/// run a history given as rendered lines (kinds only for statistics)
pub fn run_history(env: &Env, lines: &[(u8, String)], st: &mut Stats) -> CaseResult {
    let mut sup = env.sup.borrow_mut();
    let shrinking = st.frozen;
    let budget = Duration::from_secs(if shrinking { 6 } else { 20 });
    let mut ans_bits: (u64, u64) = (1, 1);
    // each history starts on a fresh context so that it is self-contained (replayable)
    match sup.call(&json!({"cmd": "new_ctx"}), Duration::from_secs(60)).map_err(|e| format!("worker: {}", e))? {
        Outcome::Reply(_) => {}
        other => return Err(format!("[infrastructure] cannot create a context in the worker: {:?}", other)),
    }
    for (i, (kind, line)) in lines.iter().enumerate() {
        if i % 10 == 9 {
            match sup.call(&json!({"cmd": "eval", "line": SENTINEL, "save_prev": false}), budget).map_err(|e| format!("worker: {}", e))? {
                Outcome::Reply(v) => {
                    if v["text"].as_str() != Some(SENTINEL_ANSWER) {
                        return Err(format!(
                            "[context-damaged] after {:?} the sentinel `{}` answers `{}`",
                            lines[..i].iter().rev().take(3).map(|l| l.1.clone()).collect::<Vec<_>>(),
                            SENTINEL,
                            v["text"]
                        ));
                    }
                    st.class("sentinel_ok");
                }
                other => return Err(format!("[{}] the sentinel query failed: {:?}", signature_of(&other), other)),
            }
        }
        let cls = classify(&env.ctx, line, ans_bits);
        if let Cost::Expensive(why) = cls.cost {
            st.excluded(&format!("expensive: {}", why));
            continue;
        }
        st.eval();
        st.class(&format!("strategy_{}", KIND_NAMES[*kind as usize % 5]));
        let cmd = json!({"cmd": "eval", "line": line, "save_prev": true});
        if cls.may_overrun {
            // a huge exponent on a value of magnitude one: only the dimension exponents get large.
            // Such inputs used to be given one second and allowed to overrun, because choosing an SI
            // prefix for `meter^1073741824` took rink minutes; since that was repaired (the prefix
            // loop is skipped for exponents beyond 1000) they answer at once and are judged like
            // every other input.
            st.class("huge_exponent_on_unit_magnitude");
        }
        let mut out = sup.call(&cmd, budget).map_err(|e| format!("worker: {}", e))?;
        if let (Outcome::Timeout(_), false) = (&out, shrinking) {
            // re-run alone on an idle worker with a generous budget before it counts
            let again = sup.call_alone(&cmd, Duration::from_secs(60)).map_err(|e| format!("worker: {}", e))?;
            match again {
                Outcome::Timeout(_) => out = again,
                Outcome::Reply(v) => {
                    st.class("slow_in_history_but_fine_alone");
                    out = Outcome::Reply(v);
                }
                other => out = other,
            }
            ans_bits = (1, 1);
        }
        if let Outcome::Timeout(_) = &out {
            if shrinking && !env.hang_mode.get() {
                // shorter budget while shrinking some other failure: an overrun here proves nothing
                ans_bits = (1, 1);
                continue;
            }
            if !shrinking {
                env.hang_mode.set(true);
            }
        }
        match out {
            Outcome::Reply(v) => {
                if let Some(a) = v["ans_bits"].as_array() {
                    ans_bits = (a[0].as_u64().unwrap_or(1), a[1].as_u64().unwrap_or(1));
                }
                let variant = v["variant"].as_str().unwrap_or("?");
                st.class(&format!("reply_{}_{}", v["kind"].as_str().unwrap_or("?"), variant));
                let reached_evaluator = v["kind"].as_str() == Some("reply")
                    || variant != "Generic"
                    || !v["text"].as_str().unwrap_or("").starts_with("Expected");
                if cls.parsed_ok || reached_evaluator {
                    st.nontrivial(line.as_str());
                    st.nt_sample(|| json!({"input": line, "output": v["text"]}));
                } else {
                    st.sample(|| json!({"input": line, "output": v["text"]}));
                }
            }
            other => {
                ans_bits = (1, 1);
                let sig = signature_of(&other);
                st.class("outcome_not_a_reply");
                if env.known.contains(&sig) {
                    st.known(&sig, line);
                    continue;
                }
                let what = match &other {
                    Outcome::Panic(p) => format!("panicked: {}", p),
                    Outcome::Died(w) => format!("killed the process: {}", w),
                    Outcome::Timeout(t) => format!("did not finish within the budget ({:.0} s, confirmed alone with 60 s)", t),
                    _ => unreachable!(),
                };
                return Err(format!("[{}] input `{}` {}", sig, line, what));
            }
        }
    }
    Ok(())
}

/// one input that is allowed to take long (one second is given) but not to crash
pub fn run_edge(env: &Env, line: &String, st: &mut Stats) -> CaseResult {
    st.eval();
    st.class("expensive_edge_input");
    let mut sup = env.sup.borrow_mut();
    match sup.call(&json!({"cmd": "eval", "line": line, "save_prev": false}), Duration::from_secs(1)).map_err(|e| format!("worker: {}", e))? {
        Outcome::Reply(_) => {
            st.nontrivial(line.as_str());
            Ok(())
        }
        Outcome::Timeout(_) => {
            st.class("expensive_edge_overran (allowed to take long)");
            Ok(())
        }
        other => {
            let sig = signature_of(&other);
            if env.known.contains(&sig) {
                st.known(&sig, line);
                return Ok(());
            }
            // memory exhaustion while building an astronomically large number is the
            // sandbox's business (the statement says so); a panic is not
            if let Outcome::Died(w) = &other {
                if w.contains("SIGABRT") || w.contains("SIGKILL") {
                    st.class("expensive_edge_ran_out_of_memory (allowed)");
                    return Ok(());
                }
            }
            Err(format!("[{}] input `{}` {:?}", sig, line, other))
        }
    }
}

fn item_strategy() -> impl Strategy<Value = Item> {
    let tape = proptest::collection::vec(any::<u32>(), 0..60);
    prop_oneof![
        5 => tape.clone().prop_map(|t| Item { kind: 0, tape: t, raw: String::new() }),
        2 => tape.clone().prop_map(|t| Item { kind: 1, tape: t, raw: String::new() }),
        3 => tape.clone().prop_map(|t| Item { kind: 2, tape: t, raw: String::new() }),
        2 => tape.prop_map(|t| Item { kind: 3, tape: t, raw: String::new() }),
        1 => "\\PC{0,80}".prop_map(|s| Item { kind: 4, tape: vec![], raw: s }),
        1 => proptest::collection::vec(any::<u8>(), 0..120).prop_map(|b| Item { kind: 4, tape: vec![], raw: String::from_utf8_lossy(&b).to_string() }),
    ]
}

pub fn history_strategy() -> impl Strategy<Value = Vec<Item>> {
    proptest::collection::vec(item_strategy(), 20..120)
}

pub fn run(cx: &Cx) -> Report {
    let mut rep = Report::new(RULE);
    rep.assumptions = vec![
        "inputs are classed cheap/expensive by a static bound on result size (literal exponents <= 5000, digits <= 10000, every intermediate value <= 2^15 bits, requested digits x bits of the value <= 10^7); expensive inputs are skipped and counted, never run".into(),
        "absence of crashes is only searched for, never established".into(),
        "the worker's main thread has an 8 MiB stack like an interactive rink; a panic is caught in the worker, a signal death or a confirmed overrun is observed by the supervisor".into(),
    ];
    let known = cx.known.clone();
    crate::regress::run(cx, &mut rep, &replay);
    rep.mark(cx, "regress");
    // finding F-11 (repaired): `factorize` searched an exponential space and recursed as deep as the
    // exponent. Operands of every complexity now have to be answered (with factorizations or with
    // an error) inside the ordinary budget: a fixed ladder of them, each on a worker
    {
        let mut ladder: Vec<String> = vec![];
        for q in ["J^2", "W^2", "V^2", "energy", "power", "kg^2 m^4 / s^6", "N m^3", "kg m^2 / s^3 A^2", "kg^3 m^3 s^-3 A^3 K^3", "kg^2 m^2 s^-2 A^2 K^2 mol^2", "kg^4 m^4 s^-4 A^4 K^4 mol^4 cd^4 bit^4"] {
            ladder.push(format!("factorize {}", q));
        }
        for n in [2, 5, 9, 10, 12, 20, 30, 33, 34, 60, 99, 100, 101, 1000, 100000] {
            ladder.push(format!("factorize m^{}", n));
            ladder.push(format!("factorize s^-{}", n));
            ladder.push(format!("factorize (kg m / s)^{}", n));
        }
        ladder.push("factorize (((((m^49)^73)^127)^337)^92737)^649657".to_string());
        ladder.push("factorize ((m^-2147483647)^2147483647) m^-2147483647".to_string());
        let k = known.clone();
        rep.absorb(par_sweep(
            cx,
            "factorize-ladder",
            ladder,
            move || mk_env(k.clone()),
            |env, line, st| run_history(env, &[(0u8, line.clone())], st),
            |line| json!({"lines": [line]}),
        ));
        rep.mark(cx, "factorize-ladder");
    }
    let k = known.clone();
    MAX_SHRINK_ITERS.store(250, std::sync::atomic::Ordering::Relaxed);
    let histories = cx.tier.pick(2400u64, 40_000);
    rep.absorb(par_proptest(
        cx,
        "histories",
        histories,
        history_strategy,
        move || mk_env(k.clone()),
        |env, items, st| {
            let lines: Vec<(u8, String)> = items.iter().map(|it| (it.kind, render(&env.dict, it))).collect();
            run_history(env, &lines, st)
        },
        |items| {
            // render with a dictionary of our own so that the replay file holds plain text
            let ctx = rinkx::new_ctx();
            let d = Dict::build(&ctx);
            json!({"lines": items.iter().map(|it| render(&d, it)).collect::<Vec<_>>()})
        },
    ));
    rep.mark(cx, "histories");
    // inputs whose result is astronomically large or small may take long, but must not crash
    // either: a fixed alphabet of extreme literals, exponents, shift counts and digit counts, each
    // given one second on a worker; an overrun is tolerated, a panic or a dead process is not
    {
        let mut edge: Vec<String> = vec![];
        let exps = ["2147483647", "2147483648", "-2147483647", "-2147483648", "-2147483649", "4294967295", "4294967296", "-4294967296", "9223372036854775807", "-9223372036854775808", "99999999999999999999", "5001", "-5001"];
        for e in exps {
            edge.push(format!("1e{}", e));
            edge.push(format!("1.5E{}", e));
            edge.push(format!("3ee{}", e));
            edge.push(format!("2^{}", e));
            edge.push(format!("1|3^{}", e));
            edge.push(format!("10 << {}", e));
            edge.push(format!("10 >> {}", e));
            edge.push(format!("1 m -> 1e{} m", e));
            edge.push(format!("0.{}1", "0".repeat(40)) + &format!("e{}", e));
        }
        for d in ["10001", "65536", "2147483647", "2147483648", "4294967295", "18446744073709551615", "18446744073709551616"] {
            edge.push(format!("1|7 -> digits {}", d));
            edge.push(format!("pi -> digits {} hex", d));
        }
        let k = known.clone();
        rep.absorb(par_sweep(
            cx,
            "expensive-edges",
            edge,
            move || mk_env(k.clone()),
            |env, line, st| run_edge(env, line, st),
            |line| json!({"edge": line}),
        ));
        rep.mark(cx, "expensive-edges");
    }
    // thorough tier: what the libFuzzer campaign (started by ./check) saved is replayed here
    // through the supervised worker; only what reproduces is reported
    if cx.tier == Tier::Thorough {
        let (lines, summary) = crate::props::c04::fuzz_artifacts("query");
        rep.stats.note("fuzz_campaign", json!(summary));
        rep.stats.note("fuzz_artifacts_replayed", json!(lines.len()));
        let k = known.clone();
        rep.absorb(par_sweep(
            cx,
            "fuzz-artifacts",
            lines,
            move || mk_env(k.clone()),
            |env, line, st| run_history(env, &[(4u8, line.clone())], st),
            |line| json!({"lines": [line]}),
        ));
        rep.mark(cx, "fuzz-artifacts");
    }
    if cx.tier == Tier::Thorough {
        // end to end: generated cheap lines through the real `rink -f <file>`, a sentinel after each
        let k = known.clone();
        rep.absorb(par_proptest(
            cx,
            "cli-file-mode",
            32,
            || proptest::collection::vec(item_strategy(), 150..300),
            move || mk_env(k.clone()),
            |env, items, st| {
                let lines: Vec<String> = items
                    .iter()
                    .map(|it| render(&env.dict, it))
                    .filter(|l| !l.contains('\n') && matches!(classify(&env.ctx, l, (1, 1)).cost, Cost::Cheap) && !crate::oracle::cost::uses_ans(l))
                    .collect();
                run_cli(&lines, st)
            },
            |items| {
                let ctx = rinkx::new_ctx();
                let d = Dict::build(&ctx);
                json!({"cli_lines": items.iter().map(|it| render(&d, it)).collect::<Vec<_>>()})
            },
        ));
        rep.mark(cx, "cli");
    }
    if rep.violations.is_empty() && rep.stats.evaluations < 1000 {
        rep.inconclusive = Some("almost nothing was evaluated".into());
    }
    rep
}

pub fn replay(cx: &Cx, _phase: &str, case: &J, st: &mut Stats) -> CaseResult {
    let env = mk_env(cx.known.clone());
    if let Some(cl) = case.get("cli_lines").and_then(|l| l.as_array()) {
        let lines: Vec<String> = cl
            .iter()
            .map(|l| l.as_str().unwrap_or("").to_string())
            .filter(|l| !l.contains('\n') && matches!(classify(&env.ctx, l, (1, 1)).cost, Cost::Cheap) && !crate::oracle::cost::uses_ans(l))
            .collect();
        return run_cli(&lines, st);
    }
    if let Some(e) = case.get("edge").and_then(|e| e.as_str()) {
        return run_edge(&env, &e.to_string(), st);
    }
    let lines: Vec<(u8, String)> = case["lines"]
        .as_array()
        .ok_or("bad case")?
        .iter()
        .map(|l| (4u8, l.as_str().unwrap_or("").to_string()))
        .collect();
    run_history(&env, &lines, st)
}

/// inputs saved by a libFuzzer campaign (crash-*, timeout-*, oom-*) as text lines, and its last status line
pub fn fuzz_artifacts(target: &str) -> (Vec<String>, String) {
    let fz = verif_root().join("harness").join("fuzz");
    let summary = std::fs::read_to_string(fz.join(format!("last-{}.txt", target))).unwrap_or_else(|_| "no campaign ran".into());
    let mut out = vec![];
    if let Ok(rd) = std::fs::read_dir(fz.join("artifacts").join(target)) {
        let mut files: Vec<_> = rd.filter_map(|e| e.ok()).map(|e| e.path()).collect();
        files.sort();
        for f in files.into_iter().take(200) {
            if let Ok(bytes) = std::fs::read(&f) {
                let text = String::from_utf8_lossy(&bytes);
                out.push(text.replace('\r', " ").replace('\n', " ").chars().take(500).collect());
            }
        }
    }
    (out, summary.trim().to_string())
}

/// pipe lines through the real binary: exit status 0 and every sentinel answered
pub fn run_cli(lines: &[String], st: &mut Stats) -> CaseResult {
    use std::io::Write;
    let rink = verif_root().join("harness").join("target-rink").join("debug").join("rink");
    if !rink.exists() {
        st.excluded("rink binary not built");
        return Ok(());
    }
    static SEQ: std::sync::atomic::AtomicU32 = std::sync::atomic::AtomicU32::new(0);
    let dir = std::env::temp_dir().join(format!("rv-c04-cli-{}-{}", std::process::id(), SEQ.fetch_add(1, std::sync::atomic::Ordering::Relaxed)));
    let cfg = dir.join("config").join("rink");
    std::fs::create_dir_all(&cfg).map_err(|e| format!("[infrastructure] {}", e))?;
    std::fs::write(cfg.join("config.toml"), "[currency]\nenabled = false\n[colors]\nenabled = false\n").map_err(|e| format!("[infrastructure] {}", e))?;
    let input = dir.join("input.txt");
    {
        let mut f = std::fs::File::create(&input).map_err(|e| format!("[infrastructure] {}", e))?;
        for l in lines {
            let _ = writeln!(f, "{}", l);
            let _ = writeln!(f, "{}", SENTINEL);
        }
    }
    let out = std::process::Command::new("timeout")
        .arg("600")
        .arg(&rink)
        .arg("-f")
        .arg(&input)
        .env("HOME", &dir)
        .env("XDG_CONFIG_HOME", dir.join("config"))
        .env("XDG_CACHE_HOME", dir.join("cache"))
        .env("NO_COLOR", "1")
        .output();
    let res = match out {
        Ok(o) => {
            st.evals(lines.len() as u64);
            st.class("cli_batches");
            let text = String::from_utf8_lossy(&o.stdout);
            let answered = text.lines().filter(|l| *l == SENTINEL_ANSWER).count();
            if !o.status.success() {
                // find the line it died on: the number of sentinel answers tells how far it got
                let culprit = lines.get(answered).cloned().unwrap_or_default();
                Err(format!(
                    "[cli-died] `rink -f` ended with {:?} after answering {} of {} sentinels; next input was `{}`; stderr: {}",
                    o.status,
                    answered,
                    lines.len(),
                    culprit,
                    String::from_utf8_lossy(&o.stderr).chars().take(300).collect::<String>()
                ))
            } else if answered != lines.len() {
                Err(format!("[cli-lost-lines] {} sentinels answered for {} input lines", answered, lines.len()))
            } else {
                Ok(())
            }
        }
        Err(e) => Err(format!("[infrastructure] cannot run rink: {}", e)),
    };
    let _ = std::fs::remove_dir_all(&dir);
    res
}
