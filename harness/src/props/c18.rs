//! C18 — stub (to be implemented).
use crate::engine::*;
use serde_json::Value as J;

pub fn run(_cx: &Cx) -> Report {
    let mut rep = Report::new("not implemented");
    rep.inconclusive = Some("not implemented".into());
    rep
}

pub fn replay(_cx: &Cx, _phase: &str, _case: &J, _st: &mut Stats) -> CaseResult {
    Err("not implemented".into())
}
