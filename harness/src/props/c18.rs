//! C18 — sandbox: one reply per request, recovery after any failure.
//!
//! Every scenario (a sequence of requests with gaps) is executed in a fresh
//! `rv-sbx drive` process (one `Sandbox` per process is all async-ctrlc allows),
//! `cx.threads` of them in parallel. The driver prints one JSON line per
//! `Sandbox::execute` call; `judge` compares line i with what request i alone
//! determines.

use crate::engine::*;
use proptest::prelude::*;
use serde_derive::{Deserialize, Serialize};
use serde_json::{json, Value as J};
use std::cell::Cell;
use std::collections::BTreeSet;
use std::io::{Read, Write};
use std::path::{Path, PathBuf};
use std::time::{Duration, Instant};

pub const RULE: &str = "case = one sequence of requests (kind, parameters, gap before it) sent through one Sandbox \
in a fresh driver process; kinds = {normal (add / short sleep / small allocation), panic, overrun of the time limit, \
allocation beyond the memory limit, child exit, large payload}. Exhaustive phase = every sequence of the stated \
lengths over the 6 kinds with canonical parameters and gap 0; random phase = sequences of length 4..6 with random \
parameters and gaps in {0, 50, 300} ms. Non-trivial = distinct sequence that contains a fault (panic, overrun, \
over-limit allocation, exit) which is not the last request, i.e. at least one request has to be served after a failure.";

pub const LIMIT_BYTES: u64 = 50 << 20;
pub const TIMEOUT_MS: u64 = 1000;
/// largest payload (each way) used by the generators
pub const LARGE_MAX: u64 = 4 << 20;
pub const SIG_F20: &str = "request-after-panic-not-served";

// ---------------------------------------------------------------------------
// Types shared with the `rv-sbx` binary
// ---------------------------------------------------------------------------

#[derive(Serialize, Deserialize, Clone, Debug, PartialEq, Eq, Hash)]
pub enum Kind {
    Add { a: i64, b: i64 },
    Panic { msg: String },
    Sleep { ms: u64 },
    Alloc { bytes: u64 },
    Exit { code: i32 },
    Large { n: u64 },
    /// answers normally, then the child exits by itself `ms` later: it dies while idle, between requests
    ExitLater { ms: u64 },
}

#[derive(Serialize, Deserialize, Clone, Debug, PartialEq, Eq, Hash)]
pub struct Req {
    pub id: u64,
    pub kind: Kind,
}

#[derive(Serialize, Deserialize, Clone, Debug, PartialEq, Eq, Hash)]
pub struct Step {
    pub req: Req,
    pub gap_ms: u64,
}

#[derive(Serialize, Deserialize, Clone, Debug, PartialEq, Eq, Hash)]
pub struct Scenario {
    pub limit_bytes: u64,
    pub timeout_ms: u64,
    pub steps: Vec<Step>,
}

/// `Service::Config`
#[derive(Serialize, Deserialize, Clone, Debug)]
pub struct SvcConfig {
    pub limit_bytes: u64,
    pub timeout_ms: u64,
}

/// `Service::Req` (bincode over the pipe)
#[derive(Serialize, Deserialize, Clone, Debug)]
pub struct WireReq {
    pub id: u64,
    pub kind: Kind,
    pub payload: Vec<u8>,
}

/// `Service::Res`
#[derive(Serialize, Deserialize, Clone, Debug)]
pub struct WireRes {
    pub echo_id: u64,
    pub pid: u32,
    pub born_ns: u64,
    pub value: u64,
    pub payload: Vec<u8>,
}

/// One line of driver output = what one `execute` call returned.
#[derive(Serialize, Deserialize, Clone, Debug)]
pub struct Obs {
    pub i: usize,
    /// "ok" | "panic" | "timeout" | "crashed" | "other:<Display>" | "no-reply"
    pub outcome: String,
    pub detail: Option<String>,
    pub value: Option<u64>,
    pub echo_id: Option<u64>,
    pub child_pid: Option<u32>,
    pub born_ns: Option<u64>,
    pub resp_len: Option<u64>,
    pub resp_sum: Option<u64>,
    pub memory_used: Option<u64>,
    pub elapsed_ms: u64,
}

pub fn fnv64(bytes: &[u8]) -> u64 {
    let mut h: u64 = 0xcbf29ce484222325;
    for b in bytes {
        h ^= *b as u64;
        h = h.wrapping_mul(0x100000001b3);
    }
    h
}

/// payload of a Large request: a function of (id, n) only
pub fn payload_for(id: u64, n: u64) -> Vec<u8> {
    let mut v = Vec::with_capacity(n as usize);
    let mut x = id.wrapping_mul(0x9E3779B97F4A7C15) ^ n;
    for i in 0..n {
        x ^= x << 13;
        x ^= x >> 7;
        x ^= x << 17;
        v.push((x as u8) ^ (i as u8));
    }
    v
}

// ---------------------------------------------------------------------------
// What request i alone determines
// ---------------------------------------------------------------------------

#[derive(Clone, Debug, PartialEq)]
pub enum Expect {
    Ok { value: u64, resp_len: u64, resp_sum: u64 },
    Panic { msg: String },
    Timeout,
    Crashed,
}

impl Expect {
    fn name(&self) -> &'static str {
        match self {
            Expect::Ok { .. } => "ok",
            Expect::Panic { .. } => "panic",
            Expect::Timeout => "timeout",
            Expect::Crashed => "crashed",
        }
    }
}

/// Err = the request is too close to a limit to have a load-independent answer.
pub fn expect(req: &Req, sc: &Scenario) -> Result<Expect, String> {
    let empty = fnv64(&[]);
    Ok(match &req.kind {
        Kind::Add { a, b } => Expect::Ok {
            value: a.wrapping_add(*b) as u64,
            resp_len: 0,
            resp_sum: empty,
        },
        Kind::Panic { msg } => Expect::Panic { msg: msg.clone() },
        Kind::Sleep { ms } => {
            if *ms * 4 <= sc.timeout_ms {
                Expect::Ok {
                    value: *ms,
                    resp_len: 0,
                    resp_sum: empty,
                }
            } else if *ms >= sc.timeout_ms * 3 {
                Expect::Timeout
            } else {
                return Err(format!("Sleep {} ms is too close to the {} ms limit", ms, sc.timeout_ms));
            }
        }
        Kind::Alloc { bytes } => {
            if *bytes * 8 <= sc.limit_bytes {
                Expect::Ok {
                    value: *bytes,
                    resp_len: 0,
                    resp_sum: empty,
                }
            } else if *bytes >= sc.limit_bytes.saturating_mul(4) && *bytes <= (1 << 40) {
                Expect::Crashed
            } else {
                return Err(format!("Alloc {} is too close to the {} byte limit", bytes, sc.limit_bytes));
            }
        }
        Kind::Exit { .. } => Expect::Crashed,
        Kind::ExitLater { ms } => Expect::Ok {
            value: *ms,
            resp_len: 0,
            resp_sum: empty,
        },
        // a payload far beyond the child's memory limit: the child cannot even read the request
        Kind::Large { n } if *n >= sc.limit_bytes.saturating_mul(2) && *n <= (1 << 29) => Expect::Crashed,
        Kind::Large { n } => {
            if *n * 12 > sc.limit_bytes {
                return Err(format!("Large {} is too close to the {} byte limit", n, sc.limit_bytes));
            }
            let p = payload_for(req.id, *n);
            let sum = fnv64(&p);
            let mut back = p;
            back.reverse();
            Expect::Ok {
                value: sum,
                resp_len: *n,
                resp_sum: fnv64(&back),
            }
        }
    })
}

/// class of a request for the evidence: normal | panic | overrun | overalloc | exit | large
pub fn class_of(req: &Req, sc: &Scenario) -> &'static str {
    match (&req.kind, expect(req, sc)) {
        (Kind::Panic { .. }, _) => "panic",
        (Kind::Exit { .. }, _) => "exit",
        (Kind::ExitLater { .. }, _) => "exit-while-idle",
        (Kind::Large { .. }, Ok(Expect::Crashed)) => "overlarge",
        (Kind::Large { .. }, _) => "large",
        (Kind::Sleep { .. }, Ok(Expect::Timeout)) => "overrun",
        (Kind::Alloc { .. }, Ok(Expect::Crashed)) => "overalloc",
        _ => "normal",
    }
}

fn is_fault(class: &str) -> bool {
    matches!(class, "panic" | "overrun" | "overalloc" | "exit" | "overlarge" | "exit-while-idle")
}

/// cost of a request for the wall-clock budget of the driver (ms)
fn cost_ms(req: &Req, sc: &Scenario) -> u64 {
    match &req.kind {
        Kind::Sleep { ms } => (*ms).min(sc.timeout_ms),
        _ => 0,
    }
}

// ---------------------------------------------------------------------------
// Oracle
// ---------------------------------------------------------------------------

#[derive(Clone, Debug, PartialEq)]
pub enum Verdict {
    Pass,
    /// (signature, detail, may be caused by machine load => re-run before reporting)
    Violation(String, String, bool),
    Inconclusive(String),
}

#[derive(Clone, Debug)]
pub struct Judged {
    pub verdict: Verdict,
    /// known findings met: (signature, example)
    pub known: Vec<(String, String)>,
    pub restarts: u64,
    pub reused: u64,
    pub served_after_fault: u64,
    /// ok replies directly after a timeout / crash (necessarily from a new child)
    pub served_after_kill: u64,
    /// F-20, shape 1: one request lost (Crashed), child restarted afterwards
    pub lost_then_recovered: u64,
    /// F-20, shape 2: the parent task ended; every later request lost
    pub sandbox_dead: bool,
    /// requests answered Err(Crashed) because the child had exited while idle
    pub lost_to_idle_death: u64,
}

fn short(s: &str) -> String {
    let s: String = s.chars().filter(|c| !c.is_control() || *c == ' ').collect();
    if s.chars().count() > 300 {
        let head: String = s.chars().take(300).collect();
        format!("{}…", head)
    } else {
        s
    }
}

fn describe(sc: &Scenario) -> String {
    let parts: Vec<String> = sc
        .steps
        .iter()
        .map(|s| {
            let k = match &s.req.kind {
                Kind::Add { .. } => "Add".to_string(),
                Kind::Panic { .. } => "Panic".to_string(),
                Kind::Sleep { ms } => format!("Sleep({}ms)", ms),
                Kind::Alloc { bytes } => format!("Alloc({})", bytes),
                Kind::Exit { code } => format!("Exit({})", code),
                Kind::Large { n } => format!("Large({})", n),
                Kind::ExitLater { ms } => format!("ExitLater({}ms)", ms),
            };
            if s.gap_ms > 0 {
                format!("+{}ms {}", s.gap_ms, k)
            } else {
                k
            }
        })
        .collect();
    parts.join(", ")
}

/// Compare one observation with the expectation; Some((sig, why)) on mismatch.
fn mismatch(exp: &Expect, req: &Req, o: &Obs, sc: &Scenario) -> Option<(String, String)> {
    let got = if o.outcome.starts_with("other:") { "other" } else { o.outcome.as_str() };
    match exp {
        Expect::Ok { value, resp_len, resp_sum } => {
            if o.outcome != "ok" {
                return Some((
                    format!("ok-expected-got-{}", got),
                    format!("expected its own result, got `{}` {}", o.outcome, short(o.detail.as_deref().unwrap_or(""))),
                ));
            }
            if o.echo_id != Some(req.id) {
                return Some((
                    "stale-reply".into(),
                    format!("reply carries id {:?}, the request's id is {} (a reply of another request was delivered)", o.echo_id, req.id),
                ));
            }
            if o.value != Some(*value) {
                return Some(("wrong-value".into(), format!("value {:?}, expected {}", o.value, value)));
            }
            if o.resp_len != Some(*resp_len) || o.resp_sum != Some(*resp_sum) {
                return Some((
                    "wrong-payload".into(),
                    format!("payload len/sum {:?}/{:?}, expected {}/{}", o.resp_len, o.resp_sum, resp_len, resp_sum),
                ));
            }
            None
        }
        Expect::Panic { msg } => {
            if o.outcome != "panic" {
                return Some((
                    format!("panic-expected-got-{}", got),
                    format!("expected Err(Panic), got `{}` {}", o.outcome, short(o.detail.as_deref().unwrap_or(""))),
                ));
            }
            if !o.detail.as_deref().unwrap_or("").contains(msg.as_str()) {
                return Some((
                    "panic-message-lost".into(),
                    format!("panic report does not contain `{}`: {}", msg, short(o.detail.as_deref().unwrap_or(""))),
                ));
            }
            None
        }
        Expect::Timeout => {
            if o.outcome != "timeout" {
                return Some((
                    format!("timeout-expected-got-{}", got),
                    format!("expected Err(Timeout), got `{}` {}", o.outcome, short(o.detail.as_deref().unwrap_or(""))),
                ));
            }
            if o.elapsed_ms < sc.timeout_ms {
                return Some((
                    "timeout-too-early".into(),
                    format!("Timeout reported after {} ms, the limit is {} ms", o.elapsed_ms, sc.timeout_ms),
                ));
            }
            None
        }
        Expect::Crashed => {
            if o.outcome != "crashed" {
                return Some((
                    format!("crashed-expected-got-{}", got),
                    format!("expected Err(Crashed), got `{}` {}", o.outcome, short(o.detail.as_deref().unwrap_or(""))),
                ));
            }
            None
        }
    }
}

/// `complete` = the driver ended by itself (all output is there).
pub fn judge(sc: &Scenario, obs: &[Obs], complete: bool, known: &BTreeSet<String>) -> Judged {
    let mut j = Judged {
        verdict: Verdict::Pass,
        known: vec![],
        restarts: 0,
        reused: 0,
        served_after_fault: 0,
        served_after_kill: 0,
        lost_then_recovered: 0,
        sandbox_dead: false,
        lost_to_idle_death: 0,
    };
    let text = describe(sc);
    // F-20 bookkeeping: the previous request was answered Err(Panic) (so its child has exited)
    let mut prev_panicked = false;
    // F-20 took the parent's task down on the write: nothing can be served any more
    let mut task_dead = false;
    let mut last_inc: Option<(u32, u64)> = None;
    let mut must_restart: Option<usize> = None;
    let mut fault_seen = false;
    // the child that answered an ExitLater request is going to exit by itself: until a request is
    // seen to be lost to that (Err(Crashed)) or another child answers, the next request may find it gone
    let mut doomed: Option<(u32, u64)> = None;
    for (i, step) in sc.steps.iter().enumerate() {
        let o = match obs.get(i) {
            Some(o) => o,
            None => {
                j.verdict = if complete {
                    Verdict::Violation(
                        "missing-reply".into(),
                        format!("[{}] request #{} got no result line although the driver ended normally", text, i),
                        false,
                    )
                } else {
                    Verdict::Inconclusive(format!("driver stopped by the watchdog after {} of {} replies", obs.len(), sc.steps.len()))
                };
                return j;
            }
        };
        if o.i != i {
            j.verdict = Verdict::Violation("reply-order".into(), format!("[{}] line {} carries index {}", text, i, o.i), false);
            return j;
        }
        let exp = match expect(&step.req, sc) {
            Ok(e) => e,
            Err(why) => {
                j.verdict = Verdict::Inconclusive(format!("scenario not judgeable: {}", why));
                return j;
            }
        };
        let after_panic = prev_panicked;
        prev_panicked = o.outcome == "panic";
        if doomed.is_some() && o.outcome == "crashed" {
            // its own result or an error naming what happened to it: the child was gone
            doomed = None;
            fault_seen = true;
            must_restart = Some(i);
            j.lost_to_idle_death += 1;
            continue;
        }
        if doomed.is_some() && o.outcome == "ok" && doomed != Some((o.child_pid.unwrap_or(0), o.born_ns.unwrap_or(0))) {
            doomed = None;
        }
        if doomed.is_some() && o.outcome != "ok" {
            // a fault of this request's own making ends the doomed child as well
            doomed = None;
        }
        if let (Kind::ExitLater { .. }, "crashed") = (&step.req.kind, o.outcome.as_str()) {
            // the exit overtook the reply (both are a few microseconds of work): the child died
            // during this request, and that is what it was told
            fault_seen = true;
            must_restart = Some(i);
            continue;
        }
        if let (Kind::ExitLater { .. }, "ok") = (&step.req.kind, o.outcome.as_str()) {
            doomed = Some((o.child_pid.unwrap_or(0), o.born_ns.unwrap_or(0)));
            fault_seen = true;
        }
        match mismatch(&exp, &step.req, o, sc) {
            None => {
                if o.outcome == "ok" {
                    let inc = (o.child_pid.unwrap_or(0), o.born_ns.unwrap_or(0));
                    if let Some(prev) = last_inc {
                        if prev == inc {
                            j.reused += 1;
                            if let Some(f) = must_restart {
                                j.verdict = Verdict::Violation(
                                    "no-restart-after-fault".into(),
                                    format!(
                                        "[{}] request #{} was served by the same child (pid {}) that served before request #{} timed out / crashed",
                                        text, i, inc.0, f
                                    ),
                                    false,
                                );
                                return j;
                            }
                        } else {
                            j.restarts += 1;
                        }
                    }
                    last_inc = Some(inc);
                    if must_restart.is_some() {
                        j.served_after_kill += 1;
                    }
                    must_restart = None;
                    if fault_seen {
                        j.served_after_fault += 1;
                    }
                } else {
                    fault_seen = true;
                    if o.outcome == "timeout" || o.outcome == "crashed" {
                        must_restart = Some(i);
                    }
                }
            }
            Some((sig, why)) => {
                // F-20: the child exits after reporting a panic but the parent keeps it. The next
                // request is either answered Err(Crashed) (the write still went through; the child is
                // then restarted), or the write fails, the parent's task ends (`?`) and this and every
                // later execute() fails on the closed channels.
                let chan = o.outcome.starts_with("other:")
                    && (o.outcome.contains("closed channel") || o.outcome.contains("Failed to send"));
                let lost = o.outcome == "crashed" || chan || o.outcome == "no-reply";
                if (after_panic && lost) || (task_dead && chan) {
                    let detail = format!(
                        "[{}] request #{} (expected {}) follows a request answered Err(Panic) and got `{}`{}",
                        text,
                        i,
                        exp.name(),
                        short(&o.outcome),
                        if task_dead { " (the parent task already ended on the write to the dead child)" } else { "" }
                    );
                    if known.contains(SIG_F20) {
                        if !task_dead {
                            j.known.push((SIG_F20.to_string(), text.clone()));
                        }
                        fault_seen = true;
                        if chan {
                            if !task_dead {
                                j.sandbox_dead = true;
                            }
                            task_dead = true;
                        } else if o.outcome == "crashed" {
                            j.lost_then_recovered += 1;
                            must_restart = Some(i);
                        } else {
                            // no-reply: the driver stops after it
                            return j;
                        }
                        continue;
                    }
                    j.verdict = Verdict::Violation(SIG_F20.into(), detail, false);
                    return j;
                }
                let loadish = (matches!(exp, Expect::Ok { .. }) && o.outcome == "timeout") || o.outcome == "no-reply";
                j.verdict = Verdict::Violation(
                    sig,
                    format!("[{}] request #{} ({:?}): {}", text, i, step.req.kind_name(), why),
                    loadish,
                );
                return j;
            }
        }
    }
    if obs.len() > sc.steps.len() {
        j.verdict = Verdict::Violation(
            "extra-reply".into(),
            format!("[{}] {} result lines for {} requests", text, obs.len(), sc.steps.len()),
            false,
        );
    }
    j
}

impl Req {
    fn kind_name(&self) -> &'static str {
        match self.kind {
            Kind::Add { .. } => "Add",
            Kind::Panic { .. } => "Panic",
            Kind::Sleep { .. } => "Sleep",
            Kind::Alloc { .. } => "Alloc",
            Kind::Exit { .. } => "Exit",
            Kind::Large { .. } => "Large",
            Kind::ExitLater { .. } => "ExitLater",
        }
    }
}

// ---------------------------------------------------------------------------
// Running one scenario in a driver process
// ---------------------------------------------------------------------------

pub struct DriverRun {
    pub obs: Vec<Obs>,
    /// the driver ended by itself with exit code 0
    pub complete: bool,
    /// None = fine; Some = infrastructure trouble (spawn failed, bad exit code, garbage output)
    pub trouble: Option<String>,
    /// the driver process itself died (exit code 101 / signal) although nobody killed it
    pub died: Option<String>,
    pub stderr_tail: String,
    pub wall_ms: u64,
}

pub fn sbx_path() -> Result<PathBuf, String> {
    let exe = std::env::current_exe().map_err(|e| format!("current_exe: {}", e))?;
    let dir = exe.parent().ok_or("current_exe has no parent")?;
    let p = dir.join("rv-sbx");
    if p.is_file() {
        Ok(p)
    } else {
        Err(format!("{} not found (build the harness: it must sit next to rv)", p.display()))
    }
}

pub fn budget(sc: &Scenario) -> Duration {
    let mut ms = 60_000u64;
    for s in &sc.steps {
        ms += s.gap_ms + cost_ms(&s.req, sc);
    }
    Duration::from_millis(ms)
}

pub fn run_driver(sbx: &Path, sc: &Scenario) -> DriverRun {
    use std::os::unix::process::CommandExt;
    use std::process::{Command, Stdio};
    let t0 = Instant::now();
    let mut run = DriverRun {
        obs: vec![],
        complete: false,
        trouble: None,
        died: None,
        stderr_tail: String::new(),
        wall_ms: 0,
    };
    let mut cmd = Command::new(sbx);
    cmd.arg("drive")
        .env("RUST_BACKTRACE", "0")
        .env_remove("RUST_LIB_BACKTRACE")
        .stdin(Stdio::piped())
        .stdout(Stdio::piped())
        .stderr(Stdio::piped())
        .process_group(0);
    let mut child = match cmd.spawn() {
        Ok(c) => c,
        Err(e) => {
            run.trouble = Some(format!("cannot start {}: {}", sbx.display(), e));
            return run;
        }
    };
    let pid = child.id() as libc::pid_t;
    {
        let mut stdin = child.stdin.take().unwrap();
        let _ = stdin.write_all(serde_json::to_string(sc).unwrap().as_bytes());
    }
    let mut stdout = child.stdout.take().unwrap();
    let mut stderr = child.stderr.take().unwrap();
    let (tx, rx) = std::sync::mpsc::channel::<Vec<u8>>();
    let h_out = std::thread::spawn(move || {
        let mut buf = vec![];
        let _ = stdout.read_to_end(&mut buf);
        let _ = tx.send(buf);
    });
    let h_err = std::thread::spawn(move || {
        // keep the last 8 KiB, drain everything
        let mut keep: Vec<u8> = vec![];
        let mut buf = [0u8; 4096];
        loop {
            match stderr.read(&mut buf) {
                Ok(0) | Err(_) => break,
                Ok(n) => {
                    keep.extend_from_slice(&buf[..n]);
                    if keep.len() > 16384 {
                        let cut = keep.len() - 8192;
                        keep.drain(..cut);
                    }
                }
            }
        }
        keep
    });
    // stdout reaches EOF exactly when the driver is gone (its children get their own pipes)
    let (bytes, in_time) = match rx.recv_timeout(budget(sc)) {
        Ok(b) => (b, true),
        Err(_) => (vec![], false),
    };
    let mut self_ended = false;
    if in_time {
        // wait (without reaping, so the pid stays reserved) until it is really gone
        let until = Instant::now() + Duration::from_secs(10);
        loop {
            let mut info: libc::siginfo_t = unsafe { std::mem::zeroed() };
            let rc = unsafe { libc::waitid(libc::P_PID, pid as libc::id_t, &mut info, libc::WEXITED | libc::WNOHANG | libc::WNOWAIT) };
            let gone = rc == 0 && unsafe { info.si_pid() } == pid;
            if gone || rc != 0 {
                self_ended = true;
                break;
            }
            if Instant::now() > until {
                break;
            }
            std::thread::sleep(Duration::from_millis(1));
        }
    }
    // remove whatever is left of the driver and its sandbox children
    unsafe {
        libc::kill(-pid, libc::SIGKILL);
    }
    let status = child.wait();
    let bytes = if in_time { bytes } else { rx.recv().unwrap_or_default() };
    let _ = h_out.join();
    let err = h_err.join().unwrap_or_default();
    run.stderr_tail = String::from_utf8_lossy(&err).to_string();
    for line in String::from_utf8_lossy(&bytes).lines() {
        if line.trim().is_empty() {
            continue;
        }
        match serde_json::from_str::<Obs>(line) {
            Ok(o) => run.obs.push(o),
            Err(e) => {
                run.trouble = Some(format!("unparsable driver output `{}`: {}", short(line), e));
                break;
            }
        }
    }
    if self_ended {
        match status {
            Ok(st) => {
                use std::os::unix::process::ExitStatusExt;
                match (st.code(), st.signal()) {
                    (Some(0), _) => run.complete = true,
                    (Some(c), _) if c == 3 || c == 4 || c == 5 => {
                        run.trouble = Some(format!("driver setup failed (exit {}): {}", c, short(&run.stderr_tail)));
                    }
                    (c, s) => {
                        run.died = Some(format!(
                            "driver process ended with code {:?} signal {:?}; stderr: {}",
                            c,
                            s,
                            short(&run.stderr_tail)
                        ));
                    }
                }
            }
            Err(e) => run.trouble = Some(format!("wait: {}", e)),
        }
    }
    run.wall_ms = t0.elapsed().as_millis() as u64;
    run
}

// ---------------------------------------------------------------------------
// Checking one scenario (with re-runs for load-sensitive observations)
// ---------------------------------------------------------------------------

pub struct Env {
    pub sbx: PathBuf,
    pub known: BTreeSet<String>,
    /// process runs still allowed while proptest shrinks a failure
    pub shrink_budget: Cell<u32>,
}

pub fn mk_env(known: BTreeSet<String>, sbx: PathBuf) -> Env {
    Env {
        sbx,
        known,
        shrink_budget: Cell::new(48),
    }
}

/// A private copy of `rv-sbx` for the duration of one run: the sandbox respawns children from
/// the driver's own executable, so a concurrent `cargo build` replacing target/release/rv-sbx
/// would make respawns fail (observed) for reasons unrelated to the code under test.
pub struct PrivateSbx {
    pub path: PathBuf,
}

impl PrivateSbx {
    pub fn new() -> Result<PrivateSbx, String> {
        let src = sbx_path()?;
        static SEQ: std::sync::atomic::AtomicU32 = std::sync::atomic::AtomicU32::new(0);
        let n = SEQ.fetch_add(1, std::sync::atomic::Ordering::Relaxed);
        let dir = std::env::temp_dir().join(format!("rv-c18-{}-{}", std::process::id(), n));
        std::fs::create_dir_all(&dir).map_err(|e| format!("cannot create {}: {}", dir.display(), e))?;
        let path = dir.join("rv-sbx");
        std::fs::copy(&src, &path).map_err(|e| format!("cannot copy {} to {}: {}", src.display(), path.display(), e))?;
        Ok(PrivateSbx { path })
    }
}

impl Drop for PrivateSbx {
    fn drop(&mut self) {
        let _ = std::fs::remove_file(&self.path);
        if let Some(d) = self.path.parent() {
            let _ = std::fs::remove_dir(d);
        }
    }
}

const ATTEMPTS: usize = 3;

fn fail(sig: &str, detail: &str) -> CaseResult {
    Err(format!("[{}] {}", sig, detail))
}

pub fn check_scenario(env: &Env, sc: &Scenario, st: &mut Stats) -> CaseResult {
    if st.frozen {
        // proptest is shrinking: every candidate costs a process and up to seconds
        let left = env.shrink_budget.get();
        if left == 0 {
            return Ok(());
        }
        env.shrink_budget.set(left - 1);
    }
    let key = serde_json::to_string(sc).unwrap();
    // judgeable at all?
    for s in &sc.steps {
        if let Err(why) = expect(&s.req, sc) {
            st.excluded(&format!("not run: {}", why.split(" is ").next().unwrap_or("request").split(' ').next().unwrap_or("request")));
            return Ok(());
        }
    }
    st.eval();
    let classes: Vec<&'static str> = sc.steps.iter().map(|s| class_of(&s.req, sc)).collect();
    let n = classes.len();
    let mut nontrivial = false;
    for (i, c) in classes.iter().enumerate() {
        st.class(&format!("{}_at_pos{}", c, i));
        if is_fault(c) && i + 1 < n {
            nontrivial = true;
            st.class(&format!("{}_followed_by_requests", c));
        }
    }
    st.class(&format!("sequence_len_{}", n));
    if sc.steps.iter().any(|s| s.gap_ms > 0) {
        st.class("has_nonzero_gap");
    }
    if nontrivial {
        st.nontrivial(&key);
        st.nt_sample(|| json!(describe(sc)));
    } else {
        st.sample(|| json!(describe(sc)));
    }

    let mut loadish: Vec<(String, String)> = vec![];
    let mut last_reason = String::new();
    for _attempt in 0..ATTEMPTS {
        let run = run_driver(&env.sbx, sc);
        if let Some(t) = &run.trouble {
            last_reason = t.clone();
            st.class("attempt_infrastructure_trouble");
            continue;
        }
        let j = judge(sc, &run.obs, run.complete, &env.known);
        // a violation pinned by the lines we have outranks the way the driver ended
        match &j.verdict {
            Verdict::Violation(sig, detail, false) => return fail(sig, detail),
            Verdict::Violation(sig, detail, true) => {
                st.class("attempt_load_sensitive_deviation");
                loadish.push((sig.clone(), detail.clone()));
                last_reason = format!("[{}] {}", sig, detail);
                continue;
            }
            Verdict::Inconclusive(why) => {
                if let Some(d) = &run.died {
                    // the process hosting the Sandbox died by itself: nothing after that got a reply
                    return fail("driver-died", &format!("[{}] after {} replies: {}", describe(sc), run.obs.len(), d));
                }
                last_reason = why.clone();
                st.class("attempt_watchdog");
                continue;
            }
            Verdict::Pass => {
                if let Some(d) = &run.died {
                    return fail("driver-died", &format!("[{}] after {} replies: {}", describe(sc), run.obs.len(), d));
                }
                if !run.complete {
                    last_reason = "driver stopped by the watchdog".into();
                    st.class("attempt_watchdog");
                    continue;
                }
                if !loadish.is_empty() {
                    st.class("load_sensitive_deviation_not_reproduced");
                }
                for (sig, ex) in &j.known {
                    st.known(sig, ex);
                    st.class(&format!("known_{}", sig));
                }
                st.class_n("f20_one_request_lost_then_child_restarted", j.lost_then_recovered);
                if j.sandbox_dead {
                    st.class("f20_parent_task_ended_all_later_requests_lost");
                }
                st.class_n("restarts_observed_by_pid_change", j.restarts);
                st.class_n("first_request_served_after_timeout_or_crash", j.served_after_kill);
                st.class_n("same_child_served_consecutive_requests", j.reused);
                st.class_n("requests_served_after_a_fault", j.served_after_fault);
                return Ok(());
            }
        }
    }
    if loadish.len() == ATTEMPTS && loadish.iter().all(|(s, _)| *s == loadish[0].0) {
        // the same deviation in every run of the scenario: not noise
        return fail(&loadish[0].0, &format!("{} (reproduced in {} consecutive runs)", loadish[0].1, ATTEMPTS));
    }
    st.class("scenarios_inconclusive");
    st.note("inconclusive_example", json!(format!("{}: {}", describe(sc), short(&last_reason))));
    Ok(())
}

// ---------------------------------------------------------------------------
// Generators
// ---------------------------------------------------------------------------

#[derive(Clone, Copy, Debug, PartialEq, Eq)]
pub enum Sym {
    Normal,
    Panic,
    Overrun,
    OverAlloc,
    Exit,
    Large,
}

pub const SYMS: [Sym; 6] = [Sym::Normal, Sym::Panic, Sym::Overrun, Sym::OverAlloc, Sym::Exit, Sym::Large];

/// canonical request for a symbol at position i
pub fn canon(sym: Sym, i: usize) -> Req {
    let id = 7001 + 13 * i as u64;
    let kind = match sym {
        Sym::Normal => Kind::Add { a: 40 + i as i64, b: 2 },
        Sym::Panic => Kind::Panic { msg: format!("boom-{}", id) },
        Sym::Overrun => Kind::Sleep { ms: 3 * TIMEOUT_MS },
        Sym::OverAlloc => Kind::Alloc { bytes: 4 * LIMIT_BYTES },
        Sym::Exit => Kind::Exit { code: 3 },
        Sym::Large => Kind::Large { n: 1 << 20 },
    };
    Req { id, kind }
}

pub fn scenario_of(syms: &[Sym]) -> Scenario {
    Scenario {
        limit_bytes: LIMIT_BYTES,
        timeout_ms: TIMEOUT_MS,
        steps: syms
            .iter()
            .enumerate()
            .map(|(i, s)| Step { req: canon(*s, i), gap_ms: 0 })
            .collect(),
    }
}

/// all sequences of exactly `len` symbols
fn all_of_len(len: usize) -> Vec<Vec<Sym>> {
    let mut out: Vec<Vec<Sym>> = vec![vec![]];
    for _ in 0..len {
        let mut next = vec![];
        for p in &out {
            for s in SYMS {
                let mut q = p.clone();
                q.push(s);
                next.push(q);
            }
        }
        out = next;
    }
    out
}

/// (scenarios, exhaustive up to length). Measured: the 258 sequences of length <= 3 take
/// ~15 s on 16 threads, so both tiers enumerate them all.
pub fn enumerate(_tier: Tier) -> (Vec<Scenario>, usize) {
    let mut seqs: Vec<Vec<Sym>> = vec![];
    for len in 1..=3 {
        seqs.extend(all_of_len(len));
    }
    (seqs.iter().map(|s| scenario_of(s)).collect(), 3)
}

fn kind_strategy() -> impl Strategy<Value = Kind> {
    let msgs = prop::sample::select(vec!["boom", "kaboom: index out of range", "called `Option::unwrap()` on a `None` value"]);
    prop_oneof![
        3 => (any::<i64>(), any::<i64>()).prop_map(|(a, b)| Kind::Add { a, b }),
        1 => (0u64..=50).prop_map(|ms| Kind::Sleep { ms }),
        1 => (0u64..=(1 << 20)).prop_map(|bytes| Kind::Alloc { bytes }),
        2 => prop_oneof![0u64..=4096, 0u64..=LARGE_MAX].prop_map(|n| Kind::Large { n }),
        2 => msgs.prop_map(|m| Kind::Panic { msg: m.to_string() }),
        2 => (3 * TIMEOUT_MS..=3 * TIMEOUT_MS + 500).prop_map(|ms| Kind::Sleep { ms }),
        2 => prop_oneof![Just(4 * LIMIT_BYTES), 4 * LIMIT_BYTES..=(1u64 << 34)].prop_map(|bytes| Kind::Alloc { bytes }),
        2 => prop::sample::select(vec![3, 0, 1, 101, 255]).prop_map(|code| Kind::Exit { code }),
        2 => prop::sample::select(vec![5u64, 10, 40, 120]).prop_map(|ms| Kind::ExitLater { ms }),
        1 => prop::sample::select(vec![2 * LIMIT_BYTES, 4 * LIMIT_BYTES]).prop_map(|n| Kind::Large { n }),
    ]
}

pub fn scenario_strategy(min: usize, max: usize) -> impl Strategy<Value = Scenario> {
    let step = (kind_strategy(), prop::sample::select(vec![0u64, 50, 300]), any::<u32>());
    prop::collection::vec(step, min..=max).prop_map(|v| Scenario {
        limit_bytes: LIMIT_BYTES,
        timeout_ms: TIMEOUT_MS,
        steps: v
            .into_iter()
            .enumerate()
            .map(|(i, (kind, gap_ms, salt))| {
                // distinct ids within the scenario by construction
                let id = ((salt as u64) << 8) | i as u64;
                let kind = match kind {
                    Kind::Panic { msg } => Kind::Panic { msg: format!("{} #{}", msg, id) },
                    k => k,
                };
                Step { req: Req { id, kind }, gap_ms }
            })
            .collect(),
    })
}

// ---------------------------------------------------------------------------

pub fn run(cx: &Cx) -> Report {
    let mut rep = Report::new(RULE);
    rep.level = "fault_enumeration";
    rep.assumptions = vec![
        format!("test service: memory limit {} MiB, time limit {} ms; requests stay far from both limits (Sleep <= limit/4 or >= 3x limit; Alloc <= limit/8 or >= 4x limit; Large <= {} MiB each way)", LIMIT_BYTES >> 20, TIMEOUT_MS, LARGE_MAX >> 20),
        "an over-limit allocation is refused by rink_sandbox::Alloc (null) and Rust's handle_alloc_error aborts the child: expected reply Err(Crashed)".into(),
        "a child incarnation is identified by (pid, creation time in ns), so pid reuse cannot hide a restart".into(),
        "a request expected to succeed that is answered Err(Timeout), or an execute() without any reply within 30 s, is reported only if it reproduces in 3 consecutive runs of the same scenario (machine load can legitimately cause the former)".into(),
        "one Sandbox per driver process (async-ctrlc permits a single CtrlC); the interrupt path (Ctrl-C) is not exercised here".into(),
    ];
    let private = match PrivateSbx::new() {
        Ok(p) => p,
        Err(e) => {
            rep.inconclusive = Some(e);
            return rep;
        }
    };
    let sbx = private.path.clone();
    rep.stats.note("driver", json!(format!("private copy of {}", sbx_path().map(|p| p.display().to_string()).unwrap_or_default())));
    let known = cx.known.clone();

    crate::regress::run(cx, &mut rep, &replay);
    rep.mark(cx, "regress");

    // phase 1: enumeration
    let (items, full_len) = enumerate(cx.tier);
    let n_items = items.len();
    let k1 = known.clone();
    let sbx1 = sbx.clone();
    rep.absorb(par_sweep(
        cx,
        "exhaustive",
        items,
        move || mk_env(k1.clone(), sbx1.clone()),
        |env, sc, st| check_scenario(env, sc, st),
        |sc| serde_json::to_value(sc).unwrap(),
    ));
    rep.mark(cx, "exhaustive");
    rep.stats.note("enumerated_sequences", json!(n_items));
    rep.stats.note(
        "enumeration",
        json!("all 6 + 36 + 216 sequences of length 1..3 over the 6 kinds, canonical parameters, gap 0"),
    );
    rep.stats.note("exhaustive_up_to_length", json!(full_len));
    rep.exhaustive = true;
    let inconcl_exh = rep.stats.classes.get("scenarios_inconclusive").copied().unwrap_or(0);

    // phase 1b: the two ways a child can be gone before a request reaches it - it exited while idle
    // (ExitLater, with the next request sent before and after the exit), or it cannot take the
    // request in (a payload of twice its memory limit) - in every position of short sequences
    {
        let mut items: Vec<Scenario> = vec![];
        let kinds: [(u8, u64); 5] = [(0, 0), (1, 5), (1, 40), (2, 0), (3, 0)];
        let mut seqs: Vec<Vec<(u8, u64)>> = vec![vec![]];
        for len in 1..=3 {
            let mut next = vec![];
            for p in seqs.iter().filter(|p| p.len() == len - 1) {
                for k in kinds {
                    let mut q = p.clone();
                    q.push(k);
                    next.push(q);
                }
            }
            seqs.extend(next);
        }
        for q in seqs.into_iter().filter(|q| q.len() >= 2 && q[..q.len() - 1].iter().any(|k| k.0 == 1 || k.0 == 2)) {
            for gap in [0u64, 150] {
                items.push(Scenario {
                    limit_bytes: LIMIT_BYTES,
                    timeout_ms: TIMEOUT_MS,
                    steps: q
                        .iter()
                        .enumerate()
                        .map(|(i, (k, ms))| {
                            let id = 9001 + 17 * i as u64;
                            let kind = match k {
                                0 => Kind::Add { a: 30 + i as i64, b: 3 },
                                1 => Kind::ExitLater { ms: *ms },
                                2 => Kind::Large { n: 2 * LIMIT_BYTES },
                                _ => Kind::Panic { msg: format!("boom-{}", id) },
                            };
                            Step { req: Req { id, kind }, gap_ms: if i == 0 { 0 } else { gap } }
                        })
                        .collect(),
                });
            }
        }
        rep.stats.note("gone_before_request_sequences", json!(items.len()));
        let k1 = known.clone();
        let sbx1 = sbx.clone();
        rep.absorb(par_sweep(
            cx,
            "gone-before-request",
            items,
            move || mk_env(k1.clone(), sbx1.clone()),
            |env, sc, st| check_scenario(env, sc, st),
            |sc| serde_json::to_value(sc).unwrap(),
        ));
        rep.mark(cx, "gone-before-request");
    }

    // phase 2: random sequences with gaps
    let cases = cx.tier.pick(96u64, 3000);
    let k2 = known.clone();
    let sbx2 = sbx.clone();
    let (lo, hi) = cx.tier.pick((4usize, 5usize), (4, 6));
    rep.absorb(par_proptest(
        cx,
        "random",
        cases,
        move || scenario_strategy(lo, hi),
        move || mk_env(k2.clone(), sbx2.clone()),
        |env, sc, st| check_scenario(env, sc, st),
        |sc| serde_json::to_value(sc).unwrap(),
    ));
    rep.mark(cx, "random");
    rep.stats.note("random_sequences_requested", json!(cases));

    let inconcl = rep.stats.classes.get("scenarios_inconclusive").copied().unwrap_or(0);
    if inconcl_exh > 0 {
        rep.exhaustive = false;
        rep.inconclusive = Some(format!(
            "{} enumerated scenario(s) could not be judged after {} attempts (watchdog / infrastructure): {}",
            inconcl_exh,
            ATTEMPTS,
            rep.stats.notes.get("inconclusive_example").map(|j| j.to_string()).unwrap_or_default()
        ));
    } else if inconcl * 50 > rep.stats.evaluations.max(1) {
        rep.inconclusive = Some(format!("{} of {} scenarios inconclusive (> 2%)", inconcl, rep.stats.evaluations));
    }
    if rep.stats.nontrivial.is_empty() && rep.violations.is_empty() {
        rep.inconclusive = Some("no scenario with a fault followed by further requests was run".into());
    }
    rep
}

pub fn replay(cx: &Cx, _phase: &str, case: &J, st: &mut Stats) -> CaseResult {
    let sc: Scenario = serde_json::from_value(case.clone()).map_err(|e| format!("bad case: {}", e))?;
    let private = match PrivateSbx::new() {
        Ok(p) => p,
        Err(e) => {
            println!("INCONCLUSIVE property=C18 {}", e);
            std::process::exit(2);
        }
    };
    let env = mk_env(cx.known.clone(), private.path.clone());
    let r = check_scenario(&env, &sc, st);
    drop(private);
    if r.is_ok() && (st.classes.contains_key("scenarios_inconclusive") || !st.excluded.is_empty()) {
        println!(
            "INCONCLUSIVE property=C18 replayed scenario could not be judged: {} {:?}",
            st.notes.get("inconclusive_example").map(|j| j.to_string()).unwrap_or_default(),
            st.excluded.keys().collect::<Vec<_>>()
        );
        std::process::exit(2);
    }
    r
}
