//! C15 — queries are pure; only `ans` carries state between them.

use crate::engine::*;
use crate::oracle::regdump;
use crate::rinkx;
use proptest::prelude::*;
use rink_core::output::{QueryError, QueryReply};
use rink_core::parsing::text_query::{parse_query, TokenIterator};
use rink_core::types::{BaseUnit, Number, Numeric};
use rink_core::Context;
use serde_derive::{Deserialize, Serialize};
use serde_json::{json, Value as J};
use std::cell::RefCell;
use std::collections::BTreeSet;

pub const RULE: &str = "case = (flag on/off, initial previous answer unset or preset, history of 5..40 queries) over the classes plain \
number / dimensioned / time-valued expression, uses of ans ANS _ (alone and inside expressions and conversions), conversions, \
definition lookups, units for, factorize, search, substances, date literals, syntax errors, unknown units, conformance errors, \
division by zero. Every step through rink_core::eval on one long-lived context; oracle: (a) a reference model of `ans`, \
(b) each reply (as JSON) equals the reply of the same query through eval_query on a pristine context given the model's previous \
answer, once per history also on a newly loaded context, (c) afterwards the exact registry dump and the settings are unchanged. \
Non-trivial = distinct history with an `ans` use after a failing query, or after a non-Number reply that follows a Number reply.";

#[derive(Clone, Debug, Serialize, Deserialize)]
pub struct Case {
    pub flag: bool,
    pub preset: Option<(i64, String)>,
    pub queries: Vec<String>,
    pub fresh_at: usize,
}

pub struct Env {
    pub hist: RefCell<Context>,
    pub pristine: RefCell<Context>,
    pub dump0: String,
    pub known: BTreeSet<String>,
}

pub fn mk_env(known: BTreeSet<String>) -> Env {
    let hist = rinkx::new_ctx();
    let pristine = rinkx::new_ctx();
    let dump0 = regdump::dump(&hist);
    Env {
        hist: RefCell::new(hist),
        pristine: RefCell::new(pristine),
        dump0,
        known,
    }
}

fn to_json(r: &Result<QueryReply, QueryError>) -> J {
    match r {
        Ok(v) => json!({"ok": serde_json::to_value(v).unwrap_or(J::Null)}),
        Err(e) => json!({"err": serde_json::to_value(e).unwrap_or(J::Null)}),
    }
}

fn eval_ref(ctx: &Context, q: &str) -> Result<Result<QueryReply, QueryError>, String> {
    catch(|| {
        let mut iter = TokenIterator::new(q.trim()).peekable();
        let query = parse_query(&mut iter);
        ctx.eval_query(&query)
    })
}

/// the class of a query, read off its words alone (the lexer's tokens, nothing of the parser or the
/// evaluator whose replies are being judged): a line that starts with a command word is a command
/// whatever follows (`search 5`), a line with an arrow is a conversion even when nothing follows the
/// arrow (`5 m ->`); everything else is a plain expression
pub fn is_plain_expression(q: &str) -> bool {
    use rink_core::parsing::text_query::Token;
    let mut it = TokenIterator::new(q.trim());
    let mut first = true;
    loop {
        match it.next() {
            Some(Token::Eof) | None => return true,
            Some(Token::Ident(s)) if first && (s == "search" || s == "factorize" || s == "units") => return false,
            Some(Token::DashArrow) => return false,
            _ => {}
        }
        first = false;
    }
}

fn uses_ans(q: &str) -> bool {
    let mut it = TokenIterator::new(q);
    loop {
        match it.next() {
            Some(rink_core::parsing::text_query::Token::Eof) | None => return false,
            Some(rink_core::parsing::text_query::Token::Ident(s)) if s == "ans" || s == "ANS" || s == "_" => return true,
            _ => {}
        }
    }
}

fn fail(env: &Env, st: &mut Stats, sig: &str, example: &str, detail: String) -> CaseResult {
    if env.known.contains(sig) {
        st.known(sig, example);
        Ok(())
    } else {
        Err(format!("[{}] {}", sig, detail))
    }
}

pub fn check(env: &Env, c: &Case, st: &mut Stats) -> CaseResult {
    let mut hist = env.hist.borrow_mut();
    let mut pristine = env.pristine.borrow_mut();
    let initial: Option<Number> = c
        .preset
        .as_ref()
        .map(|(v, u)| Number::new_unit(Numeric::from(*v), BaseUnit::new(u)));
    hist.previous_result = initial.clone();
    hist.save_previous_result = c.flag;
    let humanize0 = hist.use_humanize;
    let mut model: Option<Number> = initial.clone();
    let mut last_failed = false;
    let mut seen_number = false;
    let mut nonnumber_after_number = false;
    let mut nontrivial = false;
    let mut fresh: Option<Context> = None;
    for (i, q) in c.queries.iter().enumerate() {
        st.eval();
        let ans_use = uses_ans(q);
        if ans_use && (last_failed || nonnumber_after_number) {
            nontrivial = true;
        }
        let got = match catch(|| rink_core::eval(&mut hist, q)) {
            Ok(r) => r,
            Err(p) => {
                // the context may be left in any state: rebuild it for the next case
                *hist = rinkx::new_ctx();
                return fail(env, st, &panic_signature(&p), q, format!("`{}` panicked: {}", q, p));
            }
        };
        pristine.previous_result = model.clone();
        let want = match eval_ref(&pristine, q) {
            Ok(r) => r,
            Err(p) => return fail(env, st, &panic_signature(&p), q, format!("`{}` panicked on the pristine context: {}", q, p)),
        };
        let (gj, wj) = (to_json(&got), to_json(&want));
        if gj != wj {
            return fail(
                env,
                st,
                "reply-depends-on-history",
                q,
                format!(
                    "step {} `{}` after {:?}: long-lived context answered {} but a pristine context with the same previous answer answers {}",
                    i,
                    q,
                    &c.queries[..i],
                    short(&gj),
                    short(&wj)
                ),
            );
        }
        if i == c.fresh_at {
            // the same comparison against a context loaded just now
            let f = fresh.get_or_insert_with(rinkx::new_ctx);
            f.previous_result = model.clone();
            if let Ok(w2) = eval_ref(f, q) {
                if to_json(&w2) != gj {
                    return fail(
                        env,
                        st,
                        "reply-differs-from-newly-loaded-context",
                        q,
                        format!("step {} `{}`: {} vs newly loaded {}", i, q, short(&gj), short(&to_json(&w2))),
                    );
                }
            }
            st.class("compared_with_newly_loaded_context");
        }
        // `ans`, `ANS` and `_` on their own denote exactly the model's previous answer
        let bare = q.trim();
        if bare == "ans" || bare == "ANS" || bare == "_" {
            st.class("bare_ans_query");
            match (&model, &got) {
                (Some(m), Ok(QueryReply::Number(p))) if p.raw_value.as_ref() == Some(m) => {}
                (Some(m), Ok(QueryReply::Duration(d))) if d.raw.raw_value.as_ref() == Some(m) => {}
                (None, Err(_)) => {}
                (m, g) => {
                    return fail(
                        env,
                        st,
                        "ans-does-not-denote-previous-answer",
                        q,
                        format!("step {} `{}` after {:?}: the previous answer is {:?} but the reply is {}", i, q, &c.queries[..i], m, short(&to_json(g))),
                    );
                }
            }
        }
        // reference model of `ans`: only a *plain expression* may set it - a conversion, a
        // command or a definition lookup leaves it alone whatever form its reply takes. The
        // class of the query is read off its words (see is_plain_expression), not off rink's parse.
        let plain = is_plain_expression(q);
        if !plain {
            st.class("step_not_a_plain_expression");
        }
        match &got {
            Ok(QueryReply::Number(_)) | Ok(QueryReply::Duration(_)) if !plain => {
                st.class("numeric_reply_to_a_conversion_or_command");
                if seen_number {
                    nonnumber_after_number = true;
                }
                last_failed = false;
            }
            Ok(QueryReply::Number(p)) => {
                st.class("step_number");
                if c.flag {
                    if let Some(raw) = &p.raw_value {
                        model = Some(raw.clone());
                    }
                }
                seen_number = true;
                nonnumber_after_number = false;
                last_failed = false;
            }
            Ok(QueryReply::Duration(d)) => {
                // a time-valued plain expression is a numeric result of a plain expression
                st.class("step_duration");
                if c.flag {
                    if let Some(raw) = &d.raw.raw_value {
                        model = Some(raw.clone());
                    }
                }
                seen_number = true;
                nonnumber_after_number = false;
                last_failed = false;
            }
            Ok(_) => {
                st.class("step_other_reply");
                if seen_number {
                    nonnumber_after_number = true;
                }
                last_failed = false;
            }
            Err(_) => {
                st.class("step_error");
                last_failed = true;
            }
        }
        if ans_use {
            st.class("ans_use");
        }
        if hist.previous_result != model {
            let sig = if matches!(got, Ok(QueryReply::Duration(_))) {
                "ans-not-updated-by-duration-result"
            } else {
                "ans-differs-from-model"
            };
            let detail = format!(
                "after step {} `{}` (history {:?}, flag {}): previous_result = {:?}, the model says {:?}",
                i,
                q,
                &c.queries[..i],
                c.flag,
                hist.previous_result,
                model
            );
            if env.known.contains(sig) {
                st.known(sig, q);
                model = hist.previous_result.clone(); // follow the implementation from here
            } else {
                return Err(format!("[{}] {}", sig, detail));
            }
        }
    }
    if !c.flag && hist.previous_result != initial {
        return fail(env, st, "ans-set-while-feature-off", "", format!("history {:?} changed previous_result with the feature off", c.queries));
    }
    if hist.use_humanize != humanize0 || hist.save_previous_result != c.flag {
        return fail(env, st, "settings-changed", "", format!("history {:?} changed the settings", c.queries));
    }
    let d = regdump::dump(&hist);
    if d != env.dump0 {
        let diff = regdump::diff(&env.dump0, &d, 3).join(" ; ");
        *hist = rinkx::new_ctx();
        return fail(env, st, "registry-changed", "", format!("history {:?} changed the database: {}", c.queries, diff));
    }
    if nontrivial {
        st.nontrivial(&(c.flag, &c.queries, &c.preset));
        st.nt_sample(|| json!({"flag": c.flag, "preset": c.preset, "queries": c.queries}));
    } else {
        st.sample(|| json!({"flag": c.flag, "preset": c.preset, "queries": c.queries}));
    }
    Ok(())
}

fn short(j: &J) -> String {
    let s = j.to_string();
    if s.len() > 300 {
        format!("{}…", s.chars().take(300).collect::<String>())
    } else {
        s
    }
}

// ---------------------------------------------------------------------------

fn query_strategy() -> impl Strategy<Value = String> {
    let n = || 1u32..50;
    prop_oneof![
        // plain numbers
        3 => (n(), n()).prop_map(|(a, b)| format!("{} + {}", a, b)),
        1 => (n(), 1u32..5).prop_map(|(a, b)| format!("{}^{}", a, b)),
        1 => (n(), n()).prop_map(|(a, b)| format!("{}|{}", a, b)),
        // dimensioned
        3 => (n(), proptest::sample::select(vec!["m", "ft", "kg", "W", "mph", "liter", "N m", "kg m / s^2", "byte"])).prop_map(|(a, u)| format!("{} {}", a, u)),
        1 => (n(), n()).prop_map(|(a, b)| format!("{} ft + {} inch", a, b)),
        // time-valued
        2 => (n(), n()).prop_map(|(a, b)| format!("{} hours + {} min", a, b)),
        1 => n().prop_map(|a| format!("{} s", a)),
        // uses of the previous answer
        4 => proptest::sample::select(vec!["ans", "ANS", "_", "ans * 2", "ans + ans", "_ / 3", "ans -> m", "ans m", "-ans", "ans^2", "ans -> digits 3", "2 ans + 1", "ans mod 7", "sqrt(ans)", "ans -> ft;inch", "ans s"]).prop_map(|s| s.to_string()),
        // conversions
        3 => (n(), proptest::sample::select(vec!["ft -> m", "km -> mile", "°C -> °F", "hour -> hour;min;sec", " -> digits 5", " -> hex", " -> base 10", " -> base 16", " -> base 2", " -> bin", " -> oct", " -> digits 5 base 10", " -> frac", " -> sci", " -> eng base 10", "kg -> lb;oz", "W -> horsepower", "m -> potato = 3 ft"])).prop_map(|(a, t)| format!("{} {}", a, t)),
        // definition lookups and commands
        2 => proptest::sample::select(vec!["foot", "watt", "kg", "power", "mile", "c", "pi"]).prop_map(|s| s.to_string()),
        2 => proptest::sample::select(vec!["units for velocity", "units for kg", "factorize velocity", "factorize m/s", "search mile", "search watt", "units of area", "search 5", "search 42 m", "search 7 + 1", "search 'mile'", "search", "factorize 6", "units for 5 m", "units 3", "search ans"]).prop_map(|s| s.to_string()),
        // substances and dates
        2 => proptest::sample::select(vec!["water", "density of water", "H2O", "5 kg water", "molar_mass of NaCl", "gold"]).prop_map(|s| s.to_string()),
        2 => proptest::sample::select(vec!["#2020-01-01#", "#2020-01-01 12:00:00 +05:00#", "#2020-01-02# - #2020-01-01#", "#2020-01-01# + 3 days", "#2020-03-01# -> +02:00"]).prop_map(|s| s.to_string()),
        // failures
        2 => proptest::sample::select(vec!["1 +", "(", ")", "1 ^", "-> m", "#nonsense#", "'unterminated", "5 m ->", "7 ->", "ans ->", "9 -> ->"]).prop_map(|s| s.to_string()),
        2 => proptest::sample::select(vec!["xyzzy", "3 flurbs", "metre", "5 xyzzy -> m"]).prop_map(|s| s.to_string()),
        2 => proptest::sample::select(vec!["5 m -> s", "5 m + 3 s", "1 kg -> m^2", "hypot(3 m, 4 s)", "3 m °C"]).prop_map(|s| s.to_string()),
        2 => proptest::sample::select(vec!["1/0", "5 mod 0", "0^-1", "1 m / 0 s", "1|0"]).prop_map(|s| s.to_string()),
    ]
}

pub fn case_strategy() -> impl Strategy<Value = Case> {
    (
        proptest::bool::weighted(0.8),
        proptest::option::weighted(0.7, (1i64..100, proptest::sample::select(vec!["m", "s", "kg"]))),
        proptest::collection::vec(query_strategy(), 5..40),
        any::<prop::sample::Index>(),
    )
        .prop_map(|(flag, preset, queries, f)| {
            let fresh_at = f.index(queries.len());
            Case {
                flag,
                preset: preset.map(|(v, u)| (v, u.to_string())),
                queries,
                fresh_at,
            }
        })
}

pub fn run(cx: &Cx) -> Report {
    let mut rep = Report::new(RULE);
    rep.assumptions = vec![
        "a time-valued plain expression (reply kind Duration) counts as a numeric result of a plain expression and updates ans, as the manual's wording suggests; the pristine-context equivalence does not depend on this reading".into(),
        "rink_core::eval re-reads the wall clock by design; queries that depend on `now` are not generated, humanize is off".into(),
        "the registry's public fields are the database".into(),
    ];
    let known = cx.known.clone();
    crate::regress::run(cx, &mut rep, &replay);
    let k = known.clone();
    rep.absorb(par_proptest(
        cx,
        "histories",
        cx.tier.pick(2000, 150_000),
        case_strategy,
        move || mk_env(k.clone()),
        |env, c, st| check(env, c, st),
        |c| serde_json::to_value(c).unwrap(),
    ));
    rep.mark(cx, "histories");
    rep
}

pub fn replay(cx: &Cx, _phase: &str, case: &J, st: &mut Stats) -> CaseResult {
    let env = mk_env(cx.known.clone());
    let c: Case = serde_json::from_value(case.clone()).map_err(|e| format!("bad case: {}", e))?;
    check(&env, &c, st)
}
