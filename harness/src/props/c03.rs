//! C03 — conversions are exact and refuse non-conformable targets.

use crate::engine::*;
use crate::gen::units::*;
use crate::oracle::refarith::Q;
use crate::rinkx::{self, Out};
use proptest::prelude::*;
use rink_core::output::{QueryError, QueryReply};
use rink_core::Context;
use serde_derive::{Deserialize, Serialize};
use serde_json::{json, Value as J};
use std::collections::{BTreeMap, BTreeSet};
use std::sync::Arc;

pub const RULE: &str = "case = (coefficient c, source term S, target term T) rendered as `c S -> T`; terms are products / \
quotients of integer powers of database units (bare, prefixed, plural), optionally with a numeric constant or an inline \
`name = expr` definition on the right. Phases: every ordered pair of units in every dimensionality class of <= 40 members \
(exhaustive), seeded samples of pairs in the larger classes, random compound conformable pairs (target built from the source by \
swapping each unit for another of its class), random non-conformable pairs of which a third are exact reciprocals. Oracle: \
x * val(T) = c * val(S) exactly with values recomputed from registry leaves by own rational arithmetic; `x T -> S` gives c back; \
non-conformable => QueryError::Conformance whose suggestions multiply out. Non-trivial = distinct (dims, S, T) with S != T.";

#[derive(Clone, Debug, PartialEq, Eq, Serialize, Deserialize, Hash)]
pub struct Term {
    pub konst: Option<(u64, u64)>,
    pub num: Vec<(String, i8)>,
    pub den: Vec<(String, i8)>,
    /// the whole term in parentheses raised to this power: `(k a b / c)^n`
    #[serde(default)]
    pub wrap_pow: Option<u8>,
    /// write a power of one explicitly (`m^1`)
    #[serde(default)]
    pub explicit_one: bool,
    /// a sum of two multiples of the same single unit: `k1 u + k2 u` (only with one numerator unit)
    #[serde(default)]
    pub plus: Option<(u64, bool)>,
    /// the second summand's unit when it is another unit of the same dimensionality: `k1 u + k2 v`
    #[serde(default)]
    pub plus_unit: Option<String>,
}

impl Term {
    pub fn unit(name: &str) -> Term {
        Term {
            konst: None,
            num: vec![(name.to_string(), 1)],
            den: vec![],
            wrap_pow: None,
            explicit_one: false,
            plus: None,
            plus_unit: None,
        }
    }
    pub fn render(&self) -> String {
        let inner = self.render_inner();
        let inner = match self.plus {
            Some((k2, minus)) if self.num.len() == 1 && self.den.is_empty() => {
                let (u, p) = &self.num[0];
                let uu = match &self.plus_unit {
                    Some(v) => v.clone(),
                    None if *p == 1 => u.clone(),
                    None => format!("{}^{}", u, p),
                };
                format!("{} {} {} {}", inner, if minus { "-" } else { "+" }, k2, uu)
            }
            _ => inner,
        };
        match self.wrap_pow {
            Some(n) => format!("({})^{}", inner, n),
            None => inner,
        }
    }
    fn render_inner(&self) -> String {
        let one = self.explicit_one;
        let fac = |v: &Vec<(String, i8)>| {
            v.iter()
                .map(|(u, k)| if *k == 1 && !one { u.clone() } else { format!("{}^{}", u, k) })
                .collect::<Vec<_>>()
                .join(" ")
        };
        let mut s = String::new();
        if let Some((n, d)) = self.konst {
            if d == 1 {
                s.push_str(&n.to_string());
            } else {
                s.push_str(&format!("{}|{}", n, d));
            }
        }
        if !self.num.is_empty() {
            if !s.is_empty() {
                s.push(' ');
            }
            s.push_str(&fac(&self.num));
        }
        if s.is_empty() {
            s.push('1');
        }
        if !self.den.is_empty() {
            s.push_str(" / ");
            s.push_str(&fac(&self.den));
        }
        s
    }
    fn names(&self) -> Vec<&str> {
        self.num.iter().chain(self.den.iter()).map(|(u, _)| u.as_str()).collect()
    }
}

#[derive(Clone, Debug, Serialize, Deserialize)]
pub struct Case {
    pub c: (u64, u64),
    pub src: Term,
    pub tgt: Term,
    pub inline_name: Option<String>,
}

fn coef_text(c: (u64, u64)) -> String {
    if c.1 == 1 {
        c.0.to_string()
    } else {
        format!("{}|{}", c.0, c.1)
    }
}

impl Case {
    pub fn text(&self) -> String {
        let t = match &self.inline_name {
            Some(n) => format!("{} = {}", n, self.tgt.render()),
            None => self.tgt.render(),
        };
        format!("{} {} -> {}", coef_text(self.c), self.src.render(), t)
    }
}

pub struct Env {
    pub ctx: Context,
    pub known: BTreeSet<String>,
    pub quantity_dims: BTreeMap<String, Dims>,
}

pub fn mk_env(known: BTreeSet<String>) -> Env {
    let ctx = rinkx::new_ctx();
    let quantity_dims = ctx
        .registry
        .quantities
        .iter()
        .map(|(d, n)| (n.clone(), d.iter().map(|(k, v)| (k.to_string(), *v)).collect()))
        .collect();
    Env {
        ctx,
        known,
        quantity_dims,
    }
}

fn fail(env: &Env, st: &mut Stats, sig: &str, text: &str, detail: String) -> CaseResult {
    if env.known.contains(sig) {
        st.known(sig, text);
        Ok(())
    } else {
        Err(format!("[{}] `{}`: {}", sig, text, detail))
    }
}

enum TermVal {
    Ok(Q, Dims),
    Unusable(&'static str),
}

/// a name defined exactly wins over a prefix + unit or plural reading of the same letters (C07), also
/// when what it defines is a substance: such a string is no unit name
pub fn names_a_substance(ctx: &Context, name: &str) -> bool {
    ctx.registry.substances.contains_key(name) && !ctx.registry.units.contains_key(name) && !ctx.registry.base_units.contains(name)
}

fn term_value(ctx: &Context, t: &Term) -> TermVal {
    let mut v = match t.konst {
        Some((n, d)) => Q::new(n.into(), d.into()),
        None => Q::small(1),
    };
    let mut dims = Dims::new();
    for (side, list) in [(1i64, &t.num), (-1i64, &t.den)] {
        for (u, k) in list {
            if unusable(u).is_some() {
                return TermVal::Unusable("name not usable bare in a query");
            }
            if names_a_substance(ctx, u) {
                return TermVal::Unusable("generated prefix/plural form is the exact name of a substance (`hg`: mercury, not a hectogram)");
            }
            let n = match ctx.lookup(u) {
                Some(n) => n,
                None => return TermVal::Unusable("generated prefix/plural form does not resolve"),
            };
            let q = match rinkx::rational_of(&n.value) {
                Some((a, b)) => Q::new(a, b),
                None => return TermVal::Unusable("float-valued unit"),
            };
            if q.is_zero() {
                return TermVal::Unusable("zero-valued unit");
            }
            let e = side * (*k as i64);
            v = v.mul(&q.powi(e).unwrap());
            dims = dims_mul(&dims, &dims_pow(&rinkx::dims_of(&n), e), 1);
        }
    }
    if let Some((k2, minus)) = t.plus {
        if t.num.len() == 1 && t.den.is_empty() {
            // (k1 + k2) u  or (k1 - k2) u
            let k1 = match t.konst {
                Some((n, d)) => Q::new(n.into(), d.into()),
                None => Q::small(1),
            };
            let unit_part = v.div(&k1).unwrap();
            if let Some(other) = &t.plus_unit {
                // k1 u + k2 v with v another unit of u's dimensionality
                if unusable(other).is_some() {
                    return TermVal::Unusable("name not usable bare in a query");
                }
                if names_a_substance(ctx, other) {
                    return TermVal::Unusable("generated prefix/plural form is the exact name of a substance (`hg`: mercury, not a hectogram)");
                }
                let n = match ctx.lookup(other) {
                    Some(n) => n,
                    None => return TermVal::Unusable("generated prefix/plural form does not resolve"),
                };
                if rinkx::dims_of(&n) != dims {
                    return TermVal::Unusable("second summand of another dimensionality");
                }
                let q = match rinkx::rational_of(&n.value) {
                    Some((a, b)) => Q::new(a, b),
                    None => return TermVal::Unusable("float-valued unit"),
                };
                let second = q.mul(&Q::new(k2.into(), 1.into()));
                let sum = if minus { v.sub(&second) } else { v.add(&second) };
                if sum.is_zero() || sum.signum() < 0 {
                    return TermVal::Unusable("sum target cancels to zero or is negative");
                }
                v = sum;
            } else {
                let k = if minus { k1.sub(&Q::new(k2.into(), 1.into())) } else { k1.add(&Q::new(k2.into(), 1.into())) };
                if k.is_zero() {
                    return TermVal::Unusable("sum target cancels to zero");
                }
                v = unit_part.mul(&k);
            }
        }
    }
    if let Some(n) = t.wrap_pow {
        v = match v.powi(n as i64) {
            Ok(x) => x,
            Err(_) => return TermVal::Unusable("power too large"),
        };
        dims = dims_pow(&dims, n as i64);
    }
    TermVal::Ok(v, dims)
}

/// parse one side of a suggestion: "<word> <side> side by <desc>"
fn parse_suggestion(env: &Env, s: &str) -> Option<(bool, bool, Dims)> {
    let (word, rest) = s.split_once(' ')?;
    let multiply = match word {
        "multiply" => true,
        "divide" => false,
        _ => return None,
    };
    let (side, desc) = rest.split_once(" side by ")?;
    let left = match side {
        "left" => true,
        "right" => false,
        _ => return None,
    };
    let mut dims = Dims::new();
    let mut sign = 1i64;
    for tok in desc.split(' ') {
        if tok.is_empty() {
            continue;
        }
        if tok == "/" {
            if sign == -1 {
                return None;
            }
            sign = -1;
            continue;
        }
        let (name, pow) = match tok.rsplit_once('^') {
            Some((n, p)) => (n, p.parse::<i64>().ok()?),
            None => (tok, 1),
        };
        let d: Dims = if let Some(q) = name.strip_prefix('\'') {
            let b = q.strip_suffix('\'')?;
            let mut m = Dims::new();
            m.insert(b.to_string(), 1);
            m
        } else {
            env.quantity_dims.get(name)?.clone()
        };
        dims = dims_mul(&dims, &dims_pow(&d, pow), sign);
    }
    Some((multiply, left, dims))
}

pub fn check(env: &Env, case: &Case, st: &mut Stats) -> CaseResult {
    let (sv, sd) = match term_value(&env.ctx, &case.src) {
        TermVal::Ok(v, d) => (v, d),
        TermVal::Unusable(why) => {
            st.excluded(why);
            return Ok(());
        }
    };
    let (tv, td) = match term_value(&env.ctx, &case.tgt) {
        TermVal::Ok(v, d) => (v, d),
        TermVal::Unusable(why) => {
            st.excluded(why);
            return Ok(());
        }
    };
    // a bare single-name target that is itself something else for the parser is filtered by `unusable`
    let text = case.text();
    let c = Q::new(case.c.0.into(), case.c.1.into());
    let v = c.mul(&sv);
    st.eval();
    let conformable = sd == td;
    if case.src != case.tgt {
        st.nontrivial(&(dims_show(&sd), &case.src, &case.tgt, case.inline_name.is_some()));
        st.nt_sample(|| json!(text));
    } else {
        st.sample(|| json!(text));
    }
    if case.tgt.konst.is_some() {
        st.class("target_with_constant");
    }
    if case.inline_name.is_some() {
        st.class("inline_definition");
    }
    let out = rinkx::eval_line(&env.ctx, &text);
    match out {
        Out::Panic(p) => fail(env, st, &panic_signature(&p), &text, format!("panicked: {}", p)),
        Out::Reply(QueryReply::Conversion(conv)) => {
            if !conformable {
                return fail(
                    env,
                    st,
                    "converted-nonconformable",
                    &text,
                    format!("{} vs {} but rink answered {}", dims_show(&sd), dims_show(&td), conv),
                );
            }
            st.class("conformable_converted");
            let raw = match &conv.value.raw_value {
                Some(r) => r,
                None => return fail(env, st, "no-raw-value", &text, "conversion without raw_value".into()),
            };
            let (n, d) = match rinkx::rational_of(&raw.value) {
                Some(x) => x,
                None => return fail(env, st, "float-result", &text, "conversion result is a float".into()),
            };
            let x = Q::new(n, d);
            if !x.mul(&tv).eq_val(&v) {
                let (en, ed) = v.div(&tv).unwrap().reduced();
                return fail(
                    env,
                    st,
                    "wrong-quotient",
                    &text,
                    format!("rink x = {}, but v / t = {}/{}", x.to_string(), en, ed),
                );
            }
            // round trip: x T -> S must give c back
            let (xn, xd) = x.reduced();
            let back = format!("({}|{}) ({}) -> {}", xn, xd, case.tgt.render(), case.src.render());
            // a compound source on the right of -> is itself a compound target: fine
            match rinkx::eval_line(&env.ctx, &back) {
                Out::Reply(QueryReply::Conversion(b)) => {
                    let r = b.value.raw_value.as_ref().and_then(|r| rinkx::rational_of(&r.value));
                    match r {
                        Some((n, d)) if Q::new(n.clone(), d.clone()).eq_val(&c) => Ok(()),
                        Some((n, d)) => fail(
                            env,
                            st,
                            "round-trip-drift",
                            &text,
                            format!("`{}` gave {}/{} instead of {}", back, n, d, coef_text(case.c)),
                        ),
                        None => fail(env, st, "round-trip-float", &text, format!("`{}` gave a float", back)),
                    }
                }
                Out::Panic(p) => fail(env, st, &panic_signature(&p), &back, format!("panicked: {}", p)),
                other => fail(
                    env,
                    st,
                    "round-trip-refused",
                    &text,
                    format!("`{}` was not converted: {}", back, other.describe()),
                ),
            }
        }
        Out::Reply(other) => fail(env, st, "unexpected-reply-kind", &text, format!("{}", other)),
        Out::Error(QueryError::Conformance(ce)) => {
            if conformable {
                return fail(
                    env,
                    st,
                    "refused-conformable",
                    &text,
                    format!("both sides are {} but rink reported a conformance error", dims_show(&sd)),
                );
            }
            st.class("nonconformable_refused");
            let recip = dims_mul(&sd, &td, 1).is_empty() && !sd.is_empty();
            let first = ce.suggestions.first().cloned().unwrap_or_default();
            let flagged = first.to_lowercase().contains("reciprocal");
            if recip {
                st.class("reciprocal_pair");
            }
            if recip != flagged {
                return fail(
                    env,
                    st,
                    "reciprocal-flag-wrong",
                    &text,
                    format!("reciprocal case = {}, suggestions = {:?}", recip, ce.suggestions),
                );
            }
            if !recip {
                if ce.suggestions.len() != 2 {
                    return fail(env, st, "suggestion-count", &text, format!("suggestions = {:?}", ce.suggestions));
                }
                for s in &ce.suggestions {
                    match parse_suggestion(env, s) {
                        None => st.class("suggestion_unparsed"),
                        Some((multiply, left, f)) => {
                            st.class("suggestion_checked");
                            let sign = if multiply { 1 } else { -1 };
                            let ok = if left {
                                dims_mul(&sd, &f, sign) == td
                            } else {
                                dims_mul(&td, &f, sign) == sd
                            };
                            if !ok {
                                return fail(
                                    env,
                                    st,
                                    "suggested-factor-wrong",
                                    &text,
                                    format!(
                                        "`{}` does not turn {} into {} (left {}, right {})",
                                        s,
                                        if left { "left" } else { "right" },
                                        if left { "right" } else { "left" },
                                        dims_show(&sd),
                                        dims_show(&td)
                                    ),
                                );
                            }
                        }
                    }
                }
            }
            Ok(())
        }
        Out::Error(e) => {
            if conformable {
                fail(env, st, "refused-conformable", &text, format!("refused: {}", e))
            } else {
                fail(
                    env,
                    st,
                    "not-a-conformance-error",
                    &text,
                    format!("non-conformable pair refused with a different error: {}", e),
                )
            }
        }
    }
}

// ---------------------------------------------------------------------------
// generators
// ---------------------------------------------------------------------------

const COEFS: [(u64, u64); 9] = [(1, 1), (3, 1), (5, 2), (1, 7), (1000000007, 1), (1, 1000000000), (22, 7), (100, 1), (0, 1)];

fn coef() -> impl Strategy<Value = (u64, u64)> {
    prop_oneof![
        3 => proptest::sample::select(COEFS.to_vec()),
        1 => (1u64..100000, 1u64..1000),
    ]
}

pub fn decorated(pool: &UnitPool, idx: usize, prefix: Option<usize>, plural: bool) -> String {
    let mut s = String::new();
    if let Some(p) = prefix {
        s.push_str(&pool.prefixes[p % pool.prefixes.len()]);
    }
    s.push_str(&pool.units[idx].name);
    if plural {
        s.push('s');
    }
    s
}

type Deco = (prop::sample::Index, Option<prop::sample::Index>, bool);

fn deco() -> impl Strategy<Value = Deco> {
    (
        any::<prop::sample::Index>(),
        proptest::option::weighted(0.2, any::<prop::sample::Index>()),
        proptest::bool::weighted(0.15),
    )
}

fn pick_in_class(pool: &UnitPool, class: usize, d: &Deco) -> String {
    let cl = &pool.classes[class];
    decorated(pool, cl[d.0.index(cl.len())], d.1.map(|p| p.index(pool.prefixes.len())), d.2)
}

/// a skeleton: list of (class, power, in_numerator) with unit choices for source and target
fn compound(pool: Arc<UnitPool>, reciprocal: bool, conformable: bool) -> impl Strategy<Value = Case> {
    let ncl = pool.classes.len();
    let factor = (prop_oneof![4 => 0usize..ncl.min(14), 1 => 0usize..ncl], 1i8..=3, any::<bool>(), deco(), deco());
    (
        coef(),
        proptest::collection::vec(factor, 1..=3),
        proptest::option::weighted(0.35, prop_oneof![(1u64..50, 1u64..2), (1u64..20, 2u64..9)]),
        proptest::option::weighted(0.12, Just("potato".to_string())),
        any::<prop::sample::Index>(),
        (proptest::option::weighted(0.15, 2u8..=3), proptest::bool::weighted(0.15), proptest::option::weighted(0.12, (1u64..9, any::<bool>())), proptest::option::weighted(0.5, deco())),
    )
        .prop_map(move |(c, factors, konst, inline_name, twist, (wrap_pow, explicit_one, plus, plus_deco))| {
            let mut src = Term {
                konst: None,
                num: vec![],
                den: vec![],
                wrap_pow,
                explicit_one,
                plus: None,
                plus_unit: None,
            };
            let mut tgt = Term {
                konst,
                num: vec![],
                den: vec![],
                wrap_pow,
                explicit_one: false,
                plus: None,
                plus_unit: None,
            };
            for (class, pow, in_num, ds, dt) in &factors {
                let su = pick_in_class(&pool, *class, ds);
                let tu = pick_in_class(&pool, *class, dt);
                if *in_num {
                    src.num.push((su, *pow));
                } else {
                    src.den.push((su, *pow));
                }
                let to_num = if reciprocal { !*in_num } else { *in_num };
                if to_num {
                    tgt.num.push((tu, *pow));
                } else {
                    tgt.den.push((tu, *pow));
                }
            }
            if !conformable && !reciprocal {
                // break conformance: change one power or drop a factor
                let i = twist.index(factors.len());
                let all: Vec<&mut (String, i8)> = tgt.num.iter_mut().chain(tgt.den.iter_mut()).collect();
                if let Some(f) = all.into_iter().nth(i) {
                    f.1 += 1;
                }
            }
            // the target list is in class order of the source; shuffle a little by reversing
            if twist.index(2) == 1 {
                tgt.num.reverse();
                tgt.den.reverse();
            }
            if tgt.num.len() == 1 && tgt.den.is_empty() && inline_name.is_none() {
                tgt.plus = plus;
                if let (Some(_), Some(d)) = (plus, &plus_deco) {
                    // a different unit of the same dimensionality, only for a first power
                    if tgt.num[0].1 == 1 && tgt.wrap_pow.is_none() {
                        tgt.plus_unit = Some(pick_in_class(&pool, factors[0].0, d));
                    }
                }
            }
            Case {
                c,
                src,
                tgt,
                inline_name,
            }
        })
}

fn sampled_pair(pool: Arc<UnitPool>, big_only: bool) -> impl Strategy<Value = Case> {
    let classes: Vec<usize> = (0..pool.classes.len())
        .filter(|c| {
            let n = pool.classes[*c].len();
            n >= 2 && (!big_only || n > 40)
        })
        .collect();
    (proptest::sample::select(classes), deco(), deco(), coef()).prop_map(move |(class, a, b, c)| Case {
        c,
        src: Term::unit(&pick_in_class(&pool, class, &a)),
        tgt: Term::unit(&pick_in_class(&pool, class, &b)),
        inline_name: None,
    })
}

fn random_pair(pool: Arc<UnitPool>) -> impl Strategy<Value = Case> {
    let n = pool.classes.len();
    (0usize..n, 0usize..n, deco(), deco(), coef()).prop_map(move |(c1, c2, a, b, c)| Case {
        c,
        src: Term::unit(&pick_in_class(&pool, c1, &a)),
        tgt: Term::unit(&pick_in_class(&pool, c2, &b)),
        inline_name: None,
    })
}

/// conformable compound conversions (used by C06 as well)
pub fn conformable_strategy(pool: Arc<UnitPool>) -> impl Strategy<Value = Case> {
    prop_oneof![3 => compound(pool.clone(), false, true).boxed(), 1 => sampled_pair(pool, false).boxed()]
}

fn small_class_pairs(pool: &UnitPool) -> Vec<Case> {
    let mut out = vec![];
    let mut k = 0usize;
    for cl in &pool.classes {
        if cl.len() < 2 || cl.len() > 40 {
            continue;
        }
        for &i in cl {
            for &j in cl {
                k += 1;
                out.push(Case {
                    c: COEFS[k % COEFS.len()],
                    src: Term::unit(&pool.units[i].name),
                    tgt: Term::unit(&pool.units[j].name),
                    inline_name: None,
                });
            }
        }
    }
    out
}

fn all_pairs(pool: &UnitPool) -> Vec<Case> {
    let mut out = vec![];
    let mut k = 0usize;
    for cl in &pool.classes {
        if cl.len() < 2 {
            continue;
        }
        for &i in cl {
            for &j in cl {
                k += 1;
                out.push(Case {
                    c: COEFS[k % COEFS.len()],
                    src: Term::unit(&pool.units[i].name),
                    tgt: Term::unit(&pool.units[j].name),
                    inline_name: None,
                });
            }
        }
    }
    out
}

pub fn run(cx: &Cx) -> Report {
    let mut rep = Report::new(RULE);
    rep.assumptions = vec![
        "values of leaf names are taken from Context::lookup; everything above the leaves is recomputed with own rational arithmetic".into(),
        "float-valued units (one in the bundled file) are excluded from exactness checks".into(),
        "a suggestion text the check cannot read is counted (suggestion_unparsed), not reported".into(),
        "substances, time zones, temperature scales and unit lists as targets belong to C16/C14/C10/C09".into(),
    ];
    let ctx = rinkx::new_ctx();
    let pool = Arc::new(build(&ctx));
    drop(ctx);
    let known = cx.known.clone();
    crate::regress::run(cx, &mut rep, &replay);

    let items = if cx.tier == Tier::Thorough {
        rep.exhaustive = true;
        all_pairs(&pool)
    } else {
        small_class_pairs(&pool)
    };
    rep.stats.note("ordered_pairs_enumerated", json!(items.len()));
    rep.stats.note(
        "enumeration",
        json!(if cx.tier == Tier::Thorough {
            "every ordered pair of every class"
        } else {
            "every ordered pair of classes with <= 40 members; larger classes sampled"
        }),
    );
    let k = known.clone();
    rep.absorb(par_sweep(
        cx,
        "unit-pairs",
        items,
        move || mk_env(k.clone()),
        |env, c, st| check(env, c, st),
        |c| json!({"case": c, "text": c.text()}),
    ));
    rep.mark(cx, "unit-pairs");

    let phases: Vec<(&'static str, u64, Box<dyn Fn(Arc<UnitPool>) -> BoxedStrategy<Case> + Send + Sync>)> = vec![
        ("sampled-pairs", cx.tier.pick(40_000, 300_000), Box::new(|p| sampled_pair(p, true).boxed())),
        ("compound-conformable", cx.tier.pick(40_000, 1_500_000), Box::new(|p| compound(p, false, true).boxed())),
        ("compound-nonconformable", cx.tier.pick(15_000, 500_000), Box::new(|p| compound(p, false, false).boxed())),
        ("reciprocal", cx.tier.pick(10_000, 300_000), Box::new(|p| compound(p, true, true).boxed())),
        ("random-pairs", cx.tier.pick(15_000, 400_000), Box::new(|p| random_pair(p).boxed())),
    ];
    for (name, n, mk) in phases {
        let k = known.clone();
        let p = pool.clone();
        let mk = Arc::new(mk);
        rep.absorb(par_proptest(
            cx,
            name,
            n,
            move || mk(p.clone()),
            move || mk_env(k.clone()),
            |env, c, st| check(env, c, st),
            |c| json!({"case": c, "text": c.text()}),
        ));
        rep.mark(cx, name);
    }
    let conv = rep.stats.classes.get("conformable_converted").cloned().unwrap_or(0);
    let refused = rep.stats.classes.get("nonconformable_refused").cloned().unwrap_or(0);
    if rep.violations.is_empty() && (conv == 0 || refused == 0) {
        rep.inconclusive = Some(format!("vacuous: converted {} refused {}", conv, refused));
    }
    rep
}

pub fn replay(cx: &Cx, _phase: &str, case: &J, st: &mut Stats) -> CaseResult {
    let env = mk_env(cx.known.clone());
    let c: Case = serde_json::from_value(case["case"].clone()).map_err(|e| format!("bad case: {}", e))?;
    check(&env, &c, st)
}
