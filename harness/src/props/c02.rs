//! C02 — dimensional analysis is sound.

use crate::engine::*;
use crate::gen::units::*;
use crate::oracle::refarith::Q;
use crate::rinkx::{self, Out};
use num_bigint::BigInt;
use proptest::prelude::*;
use rink_core::output::QueryReply;
use rink_core::Context;
use serde_derive::{Deserialize, Serialize};
use serde_json::{json, Value as J};
use std::collections::{BTreeMap, BTreeSet};
use std::sync::Arc;

pub const RULE: &str = "case = expression tree whose leaves are `coef unit` (unit: any usable database name, prefix+name, \
plural, or a quoted ad-hoc base unit; coef a positive rational) under juxtaposition, * / |, ^k (k in -4..4), ^(1|n), sqrt, \
unary -, + - mod, hypot, atan2, sin cos tan, asin acos atan, log(x, b), optionally converted to a unit list; gated operators \
draw both operands from one dimensionality class 60% of the time. Oracle: own exponent-vector algebra, both directions. \
Non-trivial = distinct rendered query with >= 2 distinct base units in its leaves and either an exponent cancelling to zero \
somewhere or a conformance gate exercised.";

#[derive(Clone, Debug, PartialEq, Eq, Serialize, Deserialize)]
pub enum T {
    Leaf { n: u32, d: u32, unit: String },
    Juxt(Box<T>, Box<T>),
    Mul(Box<T>, Box<T>),
    Div(Box<T>, Box<T>),
    Frac(Box<T>, Box<T>),
    PowI(Box<T>, i8),
    Root(Box<T>, u8),
    Sqrt(Box<T>),
    Neg(Box<T>),
    Add(Box<T>, Box<T>),
    Sub(Box<T>, Box<T>),
    Mod(Box<T>, Box<T>),
    Hypot(Box<T>, Box<T>),
    Atan2(Box<T>, Box<T>),
    Trig(u8, Box<T>),
    ATrig(u8, Box<T>),
    Log(Box<T>, Box<T>),
}

#[derive(Clone, Debug, Serialize, Deserialize)]
pub struct Case {
    pub tree: T,
    pub list: Option<Vec<String>>,
}

const TRIG: [&str; 3] = ["sin", "cos", "tan"];
const ATRIG: [&str; 3] = ["asin", "acos", "atan"];

impl T {
    pub fn render(&self) -> String {
        let p = |t: &T| format!("({})", t.render());
        match self {
            T::Leaf { n, d, unit } => {
                if *d == 1 {
                    format!("{} {}", n, unit)
                } else if *d == 10 {
                    format!("{}.{} {}", n / 10, n % 10, unit)
                } else {
                    format!("{}|{} {}", n, d, unit)
                }
            }
            T::Juxt(a, b) => format!("{} {}", p(a), p(b)),
            T::Mul(a, b) => format!("{} * {}", p(a), p(b)),
            T::Div(a, b) => format!("{} / {}", p(a), p(b)),
            T::Frac(a, b) => format!("{}|{}", p(a), p(b)),
            T::PowI(a, k) => format!("{}^{}", p(a), k),
            T::Root(a, n) => format!("{}^(1|{})", p(a), n),
            T::Sqrt(a) => format!("sqrt({})", a.render()),
            T::Neg(a) => format!("-{}", p(a)),
            T::Add(a, b) => format!("{} + {}", p(a), p(b)),
            T::Sub(a, b) => format!("{} - {}", p(a), p(b)),
            T::Mod(a, b) => format!("{} mod {}", p(a), p(b)),
            T::Hypot(a, b) => format!("hypot({}, {})", a.render(), b.render()),
            T::Atan2(a, b) => format!("atan2({}, {})", a.render(), b.render()),
            T::Trig(f, a) => format!("{}({})", TRIG[*f as usize % 3], a.render()),
            T::ATrig(f, a) => format!("{}({})", ATRIG[*f as usize % 3], a.render()),
            T::Log(a, b) => format!("log({}, {})", a.render(), b.render()),
        }
    }
    fn leaves<'a>(&'a self, out: &mut Vec<&'a str>) {
        match self {
            T::Leaf { unit, .. } => out.push(unit),
            T::Juxt(a, b)
            | T::Mul(a, b)
            | T::Div(a, b)
            | T::Frac(a, b)
            | T::Add(a, b)
            | T::Sub(a, b)
            | T::Mod(a, b)
            | T::Hypot(a, b)
            | T::Atan2(a, b)
            | T::Log(a, b) => {
                a.leaves(out);
                b.leaves(out);
            }
            T::PowI(a, _) | T::Root(a, _) | T::Sqrt(a) | T::Neg(a) | T::Trig(_, a) | T::ATrig(_, a) => a.leaves(out),
        }
    }
}

#[derive(Clone, Debug)]
enum V {
    Exact(Q),
    Float,
}

#[derive(Clone, Debug)]
struct RV {
    dims: Dims,
    val: V,
    /// a value-side refusal is possible somewhere below (division by / root of an unknown float)
    hazard: bool,
    /// dims are not asserted (log's result)
    dims_unknown: bool,
}

#[derive(Debug)]
enum Refusal {
    Dimensional(&'static str),
    Value(&'static str),
    UnknownLeaf(String),
}

struct Facts {
    cancels: bool,
    gate_used: bool,
    gate_refused: bool,
}

fn radian() -> Dims {
    let mut d = Dims::new();
    d.insert("radian".into(), 1);
    d
}

fn reference(ctx: &Context, t: &T, f: &mut Facts) -> Result<RV, Refusal> {
    let bin = |ctx: &Context, a: &T, b: &T, f: &mut Facts| -> Result<(RV, RV), Refusal> {
        let x = reference(ctx, a, f)?;
        let y = reference(ctx, b, f)?;
        Ok((x, y))
    };
    let mulv = |x: &V, y: &V| match (x, y) {
        (V::Exact(a), V::Exact(b)) => V::Exact(a.mul(b)),
        _ => V::Float,
    };
    match t {
        T::Leaf { n, d, unit } => {
            let coef = Q::frac(*n as i64, *d as i64);
            if let Some(q) = unit.strip_prefix('\'') {
                let name = q.trim_end_matches('\'');
                let mut dims = Dims::new();
                dims.insert(name.to_string(), 1);
                return Ok(RV {
                    dims,
                    val: V::Exact(coef),
                    hazard: false,
                    dims_unknown: false,
                });
            }
            // a composed prefix + unit string that is the exact name of a substance denotes the
            // substance (`hg` is mercury, not a hectogram): not a unit leaf
            if crate::props::c03::names_a_substance(ctx, unit) {
                return Err(Refusal::UnknownLeaf(unit.clone()));
            }
            match ctx.lookup(unit) {
                Some(num) => {
                    let val = match rinkx::rational_of(&num.value) {
                        Some((a, b)) => V::Exact(coef.mul(&Q::new(a, b))),
                        None => V::Float,
                    };
                    Ok(RV {
                        dims: rinkx::dims_of(&num),
                        val,
                        hazard: false,
                        dims_unknown: false,
                    })
                }
                None => Err(Refusal::UnknownLeaf(unit.clone())),
            }
        }
        T::Juxt(a, b) | T::Mul(a, b) => {
            let (x, y) = bin(ctx, a, b, f)?;
            let dims = dims_mul(&x.dims, &y.dims, 1);
            if dims.len() < x.dims.len() + y.dims.len() && x.dims.keys().any(|k| y.dims.contains_key(k) && !dims.contains_key(k)) {
                f.cancels = true;
            }
            Ok(RV {
                dims,
                val: mulv(&x.val, &y.val),
                hazard: x.hazard || y.hazard,
                dims_unknown: x.dims_unknown || y.dims_unknown,
            })
        }
        T::Div(a, b) | T::Frac(a, b) => {
            let (x, y) = bin(ctx, a, b, f)?;
            let dims = dims_mul(&x.dims, &y.dims, -1);
            if x.dims.keys().any(|k| y.dims.contains_key(k) && !dims.contains_key(k)) {
                f.cancels = true;
            }
            let (val, hz) = match (&x.val, &y.val) {
                (_, V::Exact(q)) if q.is_zero() => return Err(Refusal::Value("division by zero")),
                (V::Exact(p), V::Exact(q)) => (V::Exact(p.div(q).unwrap()), false),
                (_, V::Float) => (V::Float, true),
                _ => (V::Float, false),
            };
            Ok(RV {
                dims,
                val,
                hazard: x.hazard || y.hazard || hz,
                dims_unknown: x.dims_unknown || y.dims_unknown,
            })
        }
        T::PowI(a, k) => {
            let x = reference(ctx, a, f)?;
            let k = *k as i64;
            if k == 0 && !x.dims.is_empty() {
                f.cancels = true;
            }
            let (val, hz) = match &x.val {
                V::Exact(q) => {
                    if q.is_zero() && k < 0 {
                        return Err(Refusal::Value("zero to a negative power"));
                    }
                    if q.is_zero() && k == 0 {
                        (V::Exact(Q::small(1)), true) // 0^0 unspecified
                    } else {
                        (V::Exact(q.powi(k).map_err(|_| Refusal::Value("pow"))?), false)
                    }
                }
                V::Float => (V::Float, k < 0),
            };
            Ok(RV {
                dims: dims_pow(&x.dims, k),
                val,
                hazard: x.hazard || hz,
                dims_unknown: x.dims_unknown,
            })
        }
        T::Root(a, _) | T::Sqrt(a) => {
            let n = match t {
                T::Root(_, n) => *n as i64,
                _ => 2,
            };
            let x = reference(ctx, a, f)?;
            if n == 1 {
                return Ok(x);
            }
            // the value test comes first in rink; either refusal is a refusal
            let neg = matches!(&x.val, V::Exact(q) if q.signum() < 0);
            let dims = match dims_root(&x.dims, n) {
                Some(d) => d,
                None => return Err(Refusal::Dimensional("root with non-divisible exponents")),
            };
            if neg {
                return Err(Refusal::Value("root of a negative number"));
            }
            Ok(RV {
                dims,
                val: V::Float,
                hazard: x.hazard || matches!(x.val, V::Float),
                dims_unknown: x.dims_unknown,
            })
        }
        T::Neg(a) => {
            let x = reference(ctx, a, f)?;
            Ok(RV {
                val: match &x.val {
                    V::Exact(q) => V::Exact(q.neg()),
                    V::Float => V::Float,
                },
                ..x
            })
        }
        T::Add(a, b) | T::Sub(a, b) | T::Mod(a, b) | T::Hypot(a, b) | T::Atan2(a, b) => {
            let (x, y) = bin(ctx, a, b, f)?;
            f.gate_used = true;
            if x.dims_unknown || y.dims_unknown {
                // cannot decide the gate
                return Ok(RV {
                    dims: x.dims.clone(),
                    val: V::Float,
                    hazard: true,
                    dims_unknown: true,
                });
            }
            if x.dims != y.dims {
                f.gate_refused = true;
                return Err(Refusal::Dimensional("operands of different dimensionality"));
            }
            let (dims, val) = match t {
                T::Add(..) => (
                    x.dims.clone(),
                    match (&x.val, &y.val) {
                        (V::Exact(p), V::Exact(q)) => V::Exact(p.add(q)),
                        _ => V::Float,
                    },
                ),
                T::Sub(..) => (
                    x.dims.clone(),
                    match (&x.val, &y.val) {
                        (V::Exact(p), V::Exact(q)) => V::Exact(p.sub(q)),
                        _ => V::Float,
                    },
                ),
                T::Mod(..) => (
                    x.dims.clone(),
                    match (&x.val, &y.val) {
                        (_, V::Exact(q)) if q.is_zero() => return Err(Refusal::Value("mod by zero")),
                        (V::Exact(p), V::Exact(q)) => V::Exact(p.rem_trunc(q).map_err(|_| Refusal::Value("mod"))?),
                        _ => V::Float,
                    },
                ),
                T::Hypot(..) => (x.dims.clone(), V::Float),
                _ => (radian(), V::Float),
            };
            // a divisor whose value is not known exactly may be zero (`x mod sqrt(90 mod 90)`)
            let hz = matches!(t, T::Mod(..)) && matches!(y.val, V::Float);
            Ok(RV {
                dims,
                val,
                hazard: x.hazard || y.hazard || hz,
                dims_unknown: false,
            })
        }
        T::Trig(_, a) => {
            let x = reference(ctx, a, f)?;
            f.gate_used = true;
            if x.dims_unknown {
                return Ok(RV {
                    dims: Dims::new(),
                    val: V::Float,
                    hazard: true,
                    dims_unknown: true,
                });
            }
            if !x.dims.is_empty() && x.dims != radian() {
                f.gate_refused = true;
                return Err(Refusal::Dimensional("trigonometric function of a non-angle"));
            }
            Ok(RV {
                dims: Dims::new(),
                val: V::Float,
                hazard: x.hazard,
                dims_unknown: false,
            })
        }
        T::ATrig(_, a) => {
            let x = reference(ctx, a, f)?;
            f.gate_used = true;
            if x.dims_unknown {
                return Ok(RV {
                    dims: radian(),
                    val: V::Float,
                    hazard: true,
                    dims_unknown: true,
                });
            }
            if !x.dims.is_empty() {
                f.gate_refused = true;
                return Err(Refusal::Dimensional("inverse trigonometric function of a dimensioned value"));
            }
            Ok(RV {
                dims: radian(),
                val: V::Float,
                hazard: x.hazard,
                dims_unknown: false,
            })
        }
        T::Log(a, b) => {
            let (x, y) = bin(ctx, a, b, f)?;
            f.gate_used = true;
            if !y.dims_unknown && !y.dims.is_empty() {
                f.gate_refused = true;
                return Err(Refusal::Dimensional("logarithm base with a dimension"));
            }
            // the statement does not say what dimensionality a logarithm has
            Ok(RV {
                dims: x.dims.clone(),
                val: V::Float,
                hazard: x.hazard || y.hazard,
                dims_unknown: true,
            })
        }
    }
}

pub struct Env {
    pub ctx: Context,
    pub known: BTreeSet<String>,
}

fn fail(env: &Env, st: &mut Stats, sig: &str, text: &str, detail: String) -> CaseResult {
    if env.known.contains(sig) {
        st.known(sig, text);
        Ok(())
    } else {
        Err(format!("[{}] `{}`: {}", sig, text, detail))
    }
}

pub fn check(env: &Env, case: &Case, st: &mut Stats) -> CaseResult {
    let mut text = case.tree.render();
    if let Some(l) = &case.list {
        text = format!("{} -> {}", text, l.join("; "));
    }
    // leaves must be usable names
    let mut ls = vec![];
    case.tree.leaves(&mut ls);
    for l in &ls {
        if !l.starts_with('\'') && unusable(l).is_some() {
            st.excluded("leaf name not usable bare in a query");
            return Ok(());
        }
    }
    let mut facts = Facts {
        cancels: false,
        gate_used: false,
        gate_refused: false,
    };
    let mut want = reference(&env.ctx, &case.tree, &mut facts);
    if let Err(Refusal::UnknownLeaf(_)) = want {
        st.excluded("generated prefix/plural form does not resolve");
        return Ok(());
    }
    // unit list: every member and the value must share one dimensionality
    let mut list_dims: Option<Dims> = None;
    if let (Some(l), Ok(rv)) = (&case.list, &want) {
        facts.gate_used = true;
        let mut mismatch = rv.dims_unknown;
        let mut unknown = false;
        for name in l {
            if unusable(name).is_some() {
                st.excluded("list member not usable bare in a query");
                return Ok(());
            }
            match env.ctx.lookup(name) {
                Some(n) => {
                    let d = rinkx::dims_of(&n);
                    if d != rv.dims {
                        mismatch = true;
                    }
                }
                None => unknown = true,
            }
        }
        if unknown {
            st.excluded("list member does not resolve");
            return Ok(());
        }
        if rv.dims_unknown {
            st.excluded("list conversion of a logarithm (dimensionality not specified)");
            return Ok(());
        }
        if mismatch {
            facts.gate_refused = true;
            want = Err(Refusal::Dimensional("unit list member of another dimensionality"));
        } else {
            list_dims = Some(rv.dims.clone());
        }
    }
    st.eval();
    // non-triviality
    let mut bases = BTreeSet::new();
    for l in &ls {
        if let Some(q) = l.strip_prefix('\'') {
            bases.insert(q.trim_end_matches('\'').to_string());
        } else if let Some(n) = env.ctx.lookup(l) {
            for k in rinkx::dims_of(&n).keys() {
                bases.insert(k.clone());
            }
        }
    }
    if bases.len() >= 2 && (facts.cancels || facts.gate_used) {
        st.nontrivial(&text);
        st.nt_sample(|| json!(text));
    } else {
        st.sample(|| json!(text));
    }
    if facts.cancels {
        st.class("exponent_cancels");
    }
    if facts.gate_used {
        st.class(if facts.gate_refused { "gate_must_refuse" } else { "gate_must_accept" });
    }
    if case.list.is_some() {
        st.class("unit_list");
    }

    let out = rinkx::eval_line(&env.ctx, &text);
    let got: Result<Option<Dims>, String> = match &out {
        Out::Panic(p) => return fail(env, st, &panic_signature(p), &text, format!("panicked: {}", p)),
        Out::Error(e) => Err(e.to_string()),
        Out::Reply(QueryReply::Number(p)) => Ok(p.raw_value.as_ref().map(|n| raw_dims(n))),
        Out::Reply(QueryReply::Duration(d)) => Ok(d.raw.raw_value.as_ref().map(|n| raw_dims(n))),
        Out::Reply(QueryReply::UnitList(_)) => Ok(None),
        Out::Reply(other) => {
            return fail(env, st, "unexpected-reply-kind", &text, format!("reply: {}", other));
        }
    };
    match (want, got) {
        (Ok(rv), Ok(d)) => {
            st.class("defined_and_answered");
            if case.list.is_some() {
                let _ = list_dims;
                return Ok(());
            }
            let d = match d {
                Some(d) => d,
                None => return fail(env, st, "no-raw-value", &text, "number reply without raw value".into()),
            };
            if d.values().any(|e| *e == 0) {
                return fail(
                    env,
                    st,
                    "zero-exponent-carried",
                    &text,
                    format!("result carries a base unit with exponent zero: {}", dims_show(&d)),
                );
            }
            if !rv.dims_unknown && d != rv.dims {
                return fail(
                    env,
                    st,
                    "wrong-dimensionality",
                    &text,
                    format!("rink: {}; algebra: {}", dims_show(&d), dims_show(&rv.dims)),
                );
            }
            Ok(())
        }
        (Ok(rv), Err(e)) => {
            if rv.hazard {
                st.class("refused_with_value_hazard");
                Ok(())
            } else {
                fail(
                    env,
                    st,
                    "refused-though-defined",
                    &text,
                    format!("dimensionally fine ({}) with no value hazard, but refused: {}", dims_show(&rv.dims), e),
                )
            }
        }
        (Err(Refusal::Dimensional(why)), Ok(d)) => fail(
            env,
            st,
            "accepted-though-undefined",
            &text,
            format!("must be refused ({}), but rink answered with dimensionality {:?}", why, d.map(|d| dims_show(&d))),
        ),
        (Err(Refusal::Dimensional(_)), Err(_)) => {
            st.class("refused_as_required");
            Ok(())
        }
        (Err(Refusal::Value(_)), Err(_)) => {
            st.class("value_refusal");
            Ok(())
        }
        (Err(Refusal::Value(why)), Ok(_)) => fail(env, st, "number-for-undefined-value", &text, format!("{} yet answered", why)),
        (Err(Refusal::UnknownLeaf(_)), _) => Ok(()),
    }
}

fn raw_dims(n: &rink_core::types::Number) -> Dims {
    // keep zero exponents visible
    n.unit.iter().map(|(k, v)| (k.to_string(), *v)).collect()
}

// ---------------------------------------------------------------------------
// strategies
// ---------------------------------------------------------------------------

fn coef() -> impl Strategy<Value = (u32, u32)> {
    prop_oneof![
        4 => (1u32..=12).prop_map(|n| (n, 1)),
        2 => (1u32..=999).prop_map(|n| (n, 10)),
        2 => (1u32..=20, 2u32..=9).prop_map(|(n, d)| (n, d)),
    ]
}

fn name_of(pool: &UnitPool, class: usize, member: usize, prefix: Option<usize>, plural: bool) -> String {
    let cl = &pool.classes[class % pool.classes.len()];
    let u = &pool.units[cl[member % cl.len()]];
    let mut s = String::new();
    if let Some(p) = prefix {
        s.push_str(&pool.prefixes[p % pool.prefixes.len()]);
    }
    s.push_str(&u.name);
    if plural {
        s.push('s');
    }
    s
}

fn class_index(nclasses: usize) -> impl Strategy<Value = usize> {
    prop_oneof![
        5 => 0usize..nclasses.min(12),
        3 => 0usize..nclasses,
    ]
}

fn leaf_in_class(pool: Arc<UnitPool>, class: usize) -> impl Strategy<Value = T> {
    (
        coef(),
        any::<prop::sample::Index>(),
        proptest::option::weighted(0.15, any::<prop::sample::Index>()),
        proptest::bool::weighted(0.1),
    )
        .prop_map(move |((n, d), m, pre, plural)| {
            let cl = &pool.classes[class % pool.classes.len()];
            let member = m.index(cl.len());
            let prefix = pre.map(|p| p.index(pool.prefixes.len()));
            T::Leaf {
                n,
                d,
                unit: name_of(&pool, class, member, prefix, plural),
            }
        })
}

fn any_leaf(pool: Arc<UnitPool>) -> BoxedStrategy<T> {
    let n = pool.classes.len();
    let p2 = pool.clone();
    prop_oneof![
        12 => class_index(n).prop_flat_map(move |c| leaf_in_class(p2.clone(), c)),
        1 => (coef(), proptest::sample::select(vec!["'apple'", "'core'", "'m'"])).prop_map(|((n, d), q)| T::Leaf { n, d, unit: q.to_string() }),
    ]
    .boxed()
}

fn same_class_pair(pool: Arc<UnitPool>) -> BoxedStrategy<(T, T)> {
    let n = pool.classes.len();
    class_index(n)
        .prop_flat_map(move |c| (leaf_in_class(pool.clone(), c), leaf_in_class(pool.clone(), c)))
        .boxed()
}

pub fn tree_strategy(pool: Arc<UnitPool>) -> impl Strategy<Value = T> {
    let leaf = any_leaf(pool.clone());
    let pool2 = pool.clone();
    leaf.prop_recursive(4, 16, 2, move |inner| {
        let b = |f: fn(Box<T>, Box<T>) -> T, s: BoxedStrategy<(T, T)>| s.prop_map(move |(a, c)| f(Box::new(a), Box::new(c)));
        let pair_any = (inner.clone(), inner.clone()).boxed();
        let gate_pair = || -> BoxedStrategy<(T, T)> {
            prop_oneof![3 => same_class_pair(pool2.clone()), 2 => (inner.clone(), inner.clone()).boxed()].boxed()
        };
        prop_oneof![
            3 => b(T::Juxt, pair_any.clone()),
            2 => b(T::Mul, pair_any.clone()),
            3 => b(T::Div, pair_any.clone()),
            1 => b(T::Frac, pair_any.clone()),
            3 => (inner.clone(), -4i8..=4).prop_map(|(a, k)| T::PowI(Box::new(a), k)),
            1 => (inner.clone(), 1u8..=4).prop_map(|(a, n)| T::Root(Box::new(a), n)),
            1 => inner.clone().prop_map(|a| T::Sqrt(Box::new(a))),
            // squares under a root so that exact roots are common
            1 => (inner.clone(), 2u8..=3).prop_map(|(a, n)| T::Root(Box::new(T::PowI(Box::new(a), n as i8)), n)),
            1 => inner.clone().prop_map(|a| T::Neg(Box::new(a))),
            3 => b(T::Add, gate_pair()),
            2 => b(T::Sub, gate_pair()),
            2 => b(T::Mod, gate_pair()),
            1 => b(T::Hypot, gate_pair()),
            1 => b(T::Atan2, gate_pair()),
            1 => (0u8..3, inner.clone()).prop_map(|(f, a)| T::Trig(f, Box::new(a))),
            1 => (0u8..3, inner.clone()).prop_map(|(f, a)| T::ATrig(f, Box::new(a))),
        ]
    })
}

pub fn case_strategy(pool: Arc<UnitPool>) -> impl Strategy<Value = Case> {
    let n = pool.classes.len();
    let p1 = pool.clone();
    let p2 = pool.clone();
    let p3 = pool.clone();
    let p4 = pool.clone();
    prop_oneof![
        10 => tree_strategy(pool.clone()).prop_map(|tree| Case { tree, list: None }),
        // log only at the root (its result dimensionality is not specified)
        1 => (tree_strategy(p1.clone()), tree_strategy(p1)).prop_map(|(a, b)| Case { tree: T::Log(Box::new(a), Box::new(b)), list: None }),
        // angle arguments for trig
        1 => (0u8..3, coef(), proptest::sample::select(vec!["radian", "degree", "arcmin", "turn", "m", "percent"]))
            .prop_map(|(f, (n, d), u)| Case { tree: T::Trig(f, Box::new(T::Leaf { n, d, unit: u.to_string() })), list: None }),
        // unit lists: value and members from one class (mostly), sometimes one stranger
        3 => (class_index(n), proptest::collection::vec(any::<prop::sample::Index>(), 2..=4), proptest::option::weighted(0.3, (class_index(n), any::<prop::sample::Index>())), tree_strategy(p2))
            .prop_flat_map(move |(c, ms, stranger, tr)| {
                let pool = p3.clone();
                let cl = pool.classes[c % pool.classes.len()].clone();
                let mut names: Vec<String> = ms.iter().map(|m| pool.units[cl[m.index(cl.len())]].name.clone()).collect();
                if let Some((sc, sm)) = stranger {
                    let scl = &pool.classes[sc % pool.classes.len()];
                    let pos = sm.index(names.len());
                    names[pos] = pool.units[scl[sm.index(scl.len())]].name.clone();
                }
                let value = prop_oneof![3 => leaf_in_class(pool.clone(), c).boxed(), 1 => Just(tr).boxed()];
                value.prop_map(move |v| Case { tree: v, list: Some(names.clone()) })
            }),
        // m^0-like cancellations at the root
        1 => (any_leaf(p4), -1i8..=1).prop_map(|(a, k)| Case { tree: T::PowI(Box::new(a), k), list: None }),
    ]
}

pub fn mk_env(known: BTreeSet<String>) -> Env {
    Env {
        ctx: rinkx::new_ctx(),
        known,
    }
}

/// products and quotients of power towers whose exponents run up to and past the ends of the
/// i64 range, optionally applied to a substance: the dimensionality is either exactly the one
/// exact integer arithmetic gives, or the expression is refused - never a saturated or wrapped one
#[derive(Clone, Debug, Serialize, Deserialize)]
pub struct Huge {
    /// (divide?, unit index, exponents of the tower, innermost first)
    pub factors: Vec<(bool, u8, Vec<i64>)>,
    pub substance: Option<u8>,
}

const HUGE_UNITS: [&str; 3] = ["m", "s", "kg"];
const HUGE_SUBSTANCES: [&str; 3] = ["water", "hydrogen", "egg"];
const HUGE_EXPONENTS: [i64; 14] = [2147483647, -2147483647, 1073741824, 65536, 3, 2, -1, 49, 73, 127, 337, 92737, 649657, -2];

impl Huge {
    pub fn text(&self) -> String {
        let mut s = String::new();
        for (i, (div, u, tower)) in self.factors.iter().enumerate() {
            let mut f = HUGE_UNITS[*u as usize % 3].to_string();
            for e in tower {
                f = format!("({}^{})", f, e);
            }
            if i == 0 {
                s = if *div { format!("1 / {}", f) } else { f };
            } else {
                s = format!("{} {} {}", s, if *div { "/" } else { "*" }, f);
            }
        }
        match self.substance {
            Some(k) => format!("{} * {}", HUGE_SUBSTANCES[k as usize % 3], s),
            None => s,
        }
    }
}

fn huge_strategy() -> impl Strategy<Value = Huge> {
    let e = proptest::sample::select(HUGE_EXPONENTS.to_vec());
    let factor = (any::<bool>(), 0u8..3, proptest::collection::vec(e, 1..=6));
    (proptest::collection::vec(factor, 1..=6), proptest::option::weighted(0.35, 0u8..3)).prop_map(|(factors, substance)| Huge { factors, substance })
}

pub fn check_huge(env: &Env, c: &Huge, st: &mut Stats) -> CaseResult {
    use rink_core::runtime::Value;
    let text = c.text();
    // exact arithmetic on the exponents, with the running results rink has to go through
    const LIM: i128 = i64::MAX as i128;
    let mut total: BTreeMap<&str, i128> = BTreeMap::new();
    let mut must_fit = true; // every power and every running sum stays strictly inside the i64 range
    for (div, u, tower) in &c.factors {
        let mut e: i128 = 1;
        for k in tower {
            e = e.saturating_mul(*k as i128).clamp(-(1i128 << 100), 1i128 << 100);
            if e.abs() > LIM {
                must_fit = false;
            }
        }
        let unit = HUGE_UNITS[*u as usize % 3];
        let t = total.entry(unit).or_insert(0);
        *t = t.saturating_add(if *div { -e } else { e }).clamp(-(1i128 << 110), 1i128 << 110);
        if t.abs() > LIM {
            must_fit = false;
        }
    }
    total.retain(|_, v| *v != 0);
    st.eval();
    st.class(if c.substance.is_some() { "huge_exponents_on_a_substance" } else { "huge_exponents" });
    st.class(if must_fit { "huge_must_be_exact" } else { "huge_out_of_range_somewhere" });
    let parsed = catch(|| {
        let mut it = rink_core::parsing::text_query::TokenIterator::new(&text).peekable();
        rink_core::parsing::text_query::parse_expr(&mut it)
    });
    let expr = match parsed {
        Ok(e) => e,
        Err(p) => return fail(env, st, &panic_signature(&p), &text, format!("parsing panicked: {}", p)),
    };
    // evaluated without rendering (showing meter^9223372036854775807 is slow, which C04 tolerates)
    let got = match catch(|| env.ctx.eval(&expr)) {
        Ok(r) => r,
        Err(p) => return fail(env, st, &panic_signature(&p), &text, format!("panicked: {}", p)),
    };
    let dims: Dims = match got {
        Err(_) => {
            st.class("huge_refused");
            if must_fit && c.substance.is_none() {
                // (a substance's own amount is dimensionless here, so the same holds with one; but its
                // error path differs, so only plain numbers are required to be accepted)
                return fail(env, st, "in-range-exponents-refused", &text, "every power and running sum fits in i64, yet the expression was refused".into());
            }
            return Ok(());
        }
        Ok(Value::Number(n)) => rinkx::dims_of(&n),
        Ok(Value::Substance(sub)) => rinkx::dims_of(&sub.amount),
        Ok(_) => return Ok(()),
    };
    st.nontrivial(&text);
    st.nt_sample(|| json!(text));
    let want: Dims = total.iter().map(|(k, v)| (k.to_string(), (*v).clamp(i64::MIN as i128, i64::MAX as i128) as i64)).collect();
    let exact_fits = total.values().all(|v| v.abs() <= LIM);
    if !exact_fits || dims != want {
        return fail(
            env,
            st,
            "huge-exponent-wrong-dimensionality",
            &text,
            format!("accepted with dimensionality {}, exact arithmetic gives {:?}", dims_show(&dims), total),
        );
    }
    Ok(())
}

pub fn run(cx: &Cx) -> Report {
    let mut rep = Report::new(RULE);
    rep.assumptions = vec![
        "leaf dimensionalities are taken from Context::lookup (trusted as the definition of the leaf); the homomorphism is what is tested".into(),
        "coefficients are positive; where a value-side refusal is possible (division by / root of a float of unknown sign) a refusal is accepted".into(),
        "the dimensionality of log(x, b) is not stated by the property: only its base gate is checked".into(),
        "functions whose dimensional rule the property does not state (exp ln log2 log10 sinh ...) are not generated".into(),
    ];
    let ctx = rinkx::new_ctx();
    let pool = Arc::new(build(&ctx));
    drop(ctx);
    rep.stats.note("pool_units", json!(pool.units.len()));
    rep.stats.note("pool_classes", json!(pool.classes.len()));
    rep.stats.note("pool_filtered_out", json!(pool.filtered_out));
    let known = cx.known.clone();
    crate::regress::run(cx, &mut rep, &replay);
    let k = known.clone();
    let p = pool.clone();
    rep.absorb(par_proptest(
        cx,
        "random",
        cx.tier.pick(120_000, 4_000_000),
        move || case_strategy(p.clone()),
        move || mk_env(k.clone()),
        |env, c, st| check(env, c, st),
        |c| json!({"case": c, "text": c.tree.render()}),
    ));
    rep.mark(cx, "random");
    let k = known.clone();
    rep.absorb(par_proptest(
        cx,
        "huge-exponents",
        cx.tier.pick(30_000, 600_000),
        huge_strategy,
        move || mk_env(k.clone()),
        |env, c, st| check_huge(env, c, st),
        |c| json!({"huge": c, "text": c.text()}),
    ));
    rep.mark(cx, "huge-exponents");
    let s = &rep.stats.classes;
    let accept = s.get("gate_must_accept").cloned().unwrap_or(0);
    let refuse = s.get("gate_must_refuse").cloned().unwrap_or(0);
    if rep.violations.is_empty() && (accept == 0 || refuse == 0) {
        rep.inconclusive = Some(format!("vacuous: gates accepted {} refused {}", accept, refuse));
    }
    let _ = BigInt::from(0);
    rep
}

pub fn replay(cx: &Cx, _phase: &str, case: &J, st: &mut Stats) -> CaseResult {
    let env = mk_env(cx.known.clone());
    if case.get("huge").is_some() {
        let c: Huge = serde_json::from_value(case["huge"].clone()).map_err(|e| format!("bad case: {}", e))?;
        return check_huge(&env, &c, st);
    }
    let c: Case = serde_json::from_value(case["case"].clone()).map_err(|e| format!("bad case: {}", e))?;
    check(&env, &c, st)
}
