//! Synthetic definition databases with known values (for C12 and C13).

use crate::gen::units::{dims_mul, dims_pow, Dims};
use crate::oracle::refarith::Q;
use proptest::prelude::*;
use serde_derive::{Deserialize, Serialize};
use std::collections::{BTreeMap, BTreeSet};

#[derive(Clone, Debug, Serialize, Deserialize, PartialEq, Eq)]
pub enum RefForm {
    Bare,
    Prefixed(u8),
    Plural,
}

#[derive(Clone, Debug, Serialize, Deserialize, PartialEq, Eq)]
pub enum Target {
    Base(u8),
    Unit(u16),
}

#[derive(Clone, Debug, Serialize, Deserialize, PartialEq, Eq)]
pub struct Factor {
    pub target: Target,
    pub pow: i8,
    pub form: RefForm,
}

#[derive(Clone, Debug, Serialize, Deserialize, PartialEq, Eq)]
pub struct SynUnit {
    pub coef: (u32, u32),
    pub num: Vec<Factor>,
    pub den: Vec<Factor>,
    pub doc: bool,
    pub cat: Option<u8>,
}

#[derive(Clone, Debug, Serialize, Deserialize, PartialEq, Eq)]
pub struct SynProp {
    pub konst: bool,
    pub input: (u32, u16),  // coefficient, unit index
    pub output: (u32, u16), // coefficient, unit index
    pub doc: bool,
}

#[derive(Clone, Debug, Serialize, Deserialize, PartialEq, Eq)]
pub struct SynSubstance {
    pub props: Vec<SynProp>,
    pub symbol: bool,
    pub doc: bool,
}

#[derive(Clone, Debug, Serialize, Deserialize, PartialEq, Eq)]
pub struct SynDb {
    pub nbases: u8,
    pub long_base_names: u8, // bit mask
    pub nprefixes: u8,
    pub units: Vec<SynUnit>,
    /// exponent vectors over bases (deduplicated when rendering)
    pub quantities: Vec<Vec<i8>>,
    pub substances: Vec<SynSubstance>,
    pub ncats: u8,
}

pub const BASES: [&str; 4] = ["ba", "bb", "bc", "bd"];
pub const LONG_BASES: [&str; 4] = ["longa", "longb", "longc", "longd"];
/// (long name, short name, numerator, denominator)
pub const PREFIXES: [(&str, &str, u32, u32); 6] = [
    ("kilo", "k", 1000, 1),
    ("milli", "m", 1, 1000),
    ("mega", "M", 1000000, 1),
    ("deka", "da", 10, 1),
    ("semi", "sm", 1, 2),
    ("octo", "oc", 8, 1),
];

pub fn unit_name(i: usize) -> String {
    format!("u{}", i)
}
pub fn substance_name(i: usize) -> String {
    format!("sub{}x", i)
}
pub fn cat_id(i: usize) -> String {
    format!("cat{}", i)
}

impl SynDb {
    fn target_name(&self, t: &Target) -> String {
        match t {
            Target::Base(b) => BASES[*b as usize % self.nbases.max(1) as usize].to_string(),
            Target::Unit(u) => unit_name(*u as usize),
        }
    }
    fn factor_text(&self, f: &Factor) -> String {
        let base = self.target_name(&f.target);
        let name = match &f.form {
            RefForm::Bare => base,
            RefForm::Prefixed(p) => {
                let pi = *p as usize % self.nprefixes.max(1) as usize;
                // odd = short form, even = long form
                if self.nprefixes == 0 {
                    base
                } else if p % 2 == 1 {
                    format!("{}{}", PREFIXES[pi].1, base)
                } else {
                    format!("{}{}", PREFIXES[pi].0, base)
                }
            }
            RefForm::Plural => format!("{}s", base),
        };
        if f.pow == 1 {
            name
        } else {
            format!("{}^{}", name, f.pow)
        }
    }
    fn factor_value(&self, f: &Factor, vals: &[Option<(Q, Dims)>]) -> Option<(Q, Dims)> {
        let (mut q, d) = match &f.target {
            Target::Base(b) => {
                let mut d = Dims::new();
                d.insert(BASES[*b as usize % self.nbases.max(1) as usize].to_string(), 1);
                (Q::small(1), d)
            }
            Target::Unit(u) => vals.get(*u as usize)?.clone()?,
        };
        if let RefForm::Prefixed(p) = &f.form {
            if self.nprefixes > 0 {
                let pi = *p as usize % self.nprefixes as usize;
                q = q.mul(&Q::frac(PREFIXES[pi].2 as i64, PREFIXES[pi].3 as i64));
            }
        }
        Some((q.powi(f.pow as i64).ok()?, dims_pow(&d, f.pow as i64)))
    }
    /// unit i may only reference units with a smaller index (keeps the graph acyclic)
    pub fn normalise(mut self) -> SynDb {
        self.nbases = self.nbases.clamp(1, 4);
        self.nprefixes = self.nprefixes.min(6);
        let n = self.units.len();
        for i in 0..n {
            let fix = |f: &mut Factor| {
                if let Target::Unit(u) = &mut f.target {
                    if i == 0 {
                        f.target = Target::Base(0);
                    } else if *u == u16::MAX {
                        *u = (i - 1) as u16; // chain on the predecessor
                    } else {
                        *u %= i as u16;
                    }
                }
                if f.pow == 0 {
                    f.pow = 1;
                }
            };
            let (a, b) = {
                let u = &mut self.units[i];
                u.num.iter_mut().for_each(fix);
                u.den.iter_mut().for_each(fix);
                if u.coef.0 == 0 {
                    u.coef.0 = 1;
                }
                if u.coef.1 == 0 {
                    u.coef.1 = 1;
                }
                (u.num.len(), u.den.len())
            };
            let _ = (a, b);
        }
        for s in &mut self.substances {
            for p in &mut s.props {
                if n == 0 {
                    continue;
                }
                p.input.1 %= n as u16;
                p.output.1 %= n as u16;
                p.input.0 = p.input.0.max(1);
                p.output.0 = p.output.0.max(1);
            }
        }
        self
    }
    /// known values of all units
    pub fn unit_values(&self) -> Vec<Option<(Q, Dims)>> {
        let mut vals: Vec<Option<(Q, Dims)>> = vec![];
        for u in &self.units {
            let mut q = Q::frac(u.coef.0 as i64, u.coef.1 as i64);
            let mut d = Dims::new();
            let mut ok = true;
            for (sign, list) in [(1i64, &u.num), (-1i64, &u.den)] {
                for f in list {
                    match self.factor_value(f, &vals) {
                        Some((fq, fd)) => {
                            if sign == 1 {
                                q = q.mul(&fq);
                                d = dims_mul(&d, &fd, 1);
                            } else {
                                q = match q.div(&fq) {
                                    Some(x) => x,
                                    None => {
                                        ok = false;
                                        break;
                                    }
                                };
                                d = dims_mul(&d, &fd, -1);
                            }
                        }
                        None => ok = false,
                    }
                }
            }
            vals.push(if ok { Some((q, d)) } else { None });
        }
        vals
    }
    pub fn unit_expr(&self, u: &SynUnit) -> String {
        let mut s = if u.coef.1 == 1 {
            format!("{}", u.coef.0)
        } else {
            format!("{}|{}", u.coef.0, u.coef.1)
        };
        for f in &u.num {
            s.push(' ');
            s.push_str(&self.factor_text(f));
        }
        if !u.den.is_empty() {
            s.push_str(" /");
            for f in &u.den {
                s.push(' ');
                s.push_str(&self.factor_text(f));
            }
        }
        s
    }
    /// quantity exponent vectors actually emitted (distinct, non-empty, within the bases)
    pub fn quantity_list(&self) -> Vec<(String, Vec<i8>)> {
        let mut seen = BTreeSet::new();
        let mut out = vec![];
        for v in &self.quantities {
            let v: Vec<i8> = (0..self.nbases as usize).map(|i| *v.get(i).unwrap_or(&0)).collect();
            if v.iter().all(|e| *e == 0) || !seen.insert(v.clone()) {
                continue;
            }
            out.push((format!("q{}", out.len()), v));
        }
        out
    }
    /// the database as definition-file text, one chunk per definition, in logical order
    pub fn chunks(&self) -> Vec<String> {
        let mut out = vec![];
        for b in 0..self.nbases as usize {
            if self.long_base_names >> b & 1 == 1 {
                out.push(format!("{} !{}\n", BASES[b], LONG_BASES[b]));
            } else {
                out.push(format!("{} !\n", BASES[b]));
            }
        }
        for p in 0..self.nprefixes as usize {
            let (l, s, n, d) = PREFIXES[p];
            if d == 1 {
                out.push(format!("{}- {}\n", l, n));
            } else {
                out.push(format!("{}- {}|{}\n", l, n, d));
            }
            out.push(format!("{}-- {}\n", s, l));
        }
        for (i, (name, v)) in self.quantity_list().iter().enumerate() {
            let mut num = vec![];
            let mut den = vec![];
            for (b, e) in v.iter().enumerate() {
                let t = if e.abs() == 1 { BASES[b].to_string() } else { format!("{}^{}", BASES[b], e.abs()) };
                if *e > 0 {
                    num.push(t);
                } else if *e < 0 {
                    den.push(t);
                }
            }
            let mut s = if num.is_empty() { "1".to_string() } else { num.join(" ") };
            if !den.is_empty() {
                s.push_str(" / ");
                s.push_str(&den.join(" "));
            }
            let _ = i;
            out.push(format!("{} ? {}\n", name, s));
        }
        for (i, u) in self.units.iter().enumerate() {
            let mut s = String::new();
            if let Some(c) = u.cat {
                if self.ncats > 0 {
                    let c = c as usize % self.ncats as usize;
                    s.push_str(&format!("!category {} \"Category {}\"\n", cat_id(c), c));
                }
            }
            if u.doc {
                s.push_str(&format!("?? documentation of {}\n", unit_name(i)));
            }
            s.push_str(&format!("{} {}\n", unit_name(i), self.unit_expr(u)));
            if u.cat.is_some() && self.ncats > 0 {
                s.push_str("!endcategory\n");
            }
            out.push(s);
        }
        for (i, sub) in self.substances.iter().enumerate() {
            if self.units.is_empty() {
                break;
            }
            let mut s = String::new();
            if sub.symbol {
                s.push_str(&format!("!symbol {} Sy{}\n", substance_name(i), i));
            }
            if sub.doc {
                s.push_str(&format!("?? about {}\n", substance_name(i)));
            }
            s.push_str(&format!("{} {{\n", substance_name(i)));
            for (j, p) in sub.props.iter().enumerate() {
                if p.doc {
                    s.push_str(&format!("    ?? property {} of {}\n", j, substance_name(i)));
                }
                if p.konst {
                    s.push_str(&format!(
                        "    p{}_{} const in{}_{} {} {}\n",
                        i,
                        j,
                        i,
                        j,
                        p.output.0,
                        unit_name(p.output.1 as usize)
                    ));
                } else {
                    s.push_str(&format!(
                        "    p{}_{} out{}_{} {} {} / in{}_{} {} {}\n",
                        i,
                        j,
                        i,
                        j,
                        p.output.0,
                        unit_name(p.output.1 as usize),
                        i,
                        j,
                        p.input.0,
                        unit_name(p.input.1 as usize)
                    ));
                }
            }
            s.push_str("}\n");
            out.push(s);
        }
        out
    }
    pub fn text(&self) -> String {
        self.chunks().concat()
    }
    /// expected values by name (units, plus base units)
    pub fn expected(&self) -> BTreeMap<String, (Q, Dims)> {
        let mut m = BTreeMap::new();
        for (i, v) in self.unit_values().into_iter().enumerate() {
            if let Some(v) = v {
                m.insert(unit_name(i), v);
            }
        }
        m
    }
    /// edges unit i -> units it references
    pub fn dependencies(&self) -> Vec<(usize, usize)> {
        let mut out = vec![];
        for (i, u) in self.units.iter().enumerate() {
            for f in u.num.iter().chain(u.den.iter()) {
                if let Target::Unit(j) = f.target {
                    out.push((i, j as usize));
                }
            }
        }
        out
    }
}

fn factor() -> impl Strategy<Value = Factor> {
    (
        prop_oneof![1 => (0u8..4).prop_map(Target::Base), 4 => any::<u16>().prop_map(Target::Unit)],
        prop_oneof![6 => Just(1i8), 2 => Just(2i8), 1 => Just(3i8), 1 => Just(-1i8)],
        prop_oneof![6 => Just(RefForm::Bare), 2 => (0u8..12).prop_map(RefForm::Prefixed), 1 => Just(RefForm::Plural)],
    )
        .prop_map(|(target, pow, form)| Factor { target, pow, form })
}

fn unit() -> impl Strategy<Value = SynUnit> {
    (
        prop_oneof![3 => (1u32..20).prop_map(|n| (n, 1u32)), 1 => (1u32..20, 2u32..9)],
        proptest::collection::vec(factor(), 0..=3),
        proptest::collection::vec(factor(), 0..=2),
        proptest::bool::weighted(0.3),
        proptest::option::weighted(0.4, 0u8..4),
    )
        .prop_map(|(coef, num, den, doc, cat)| SynUnit { coef, num, den, doc, cat })
}

/// a unit that chains on its predecessor (deep graphs)
fn chain_unit() -> impl Strategy<Value = SynUnit> {
    (1u32..5, proptest::bool::weighted(0.2)).prop_map(|(c, doc)| SynUnit {
        coef: (c, 1),
        num: vec![Factor {
            target: Target::Unit(u16::MAX),
            pow: 1,
            form: RefForm::Bare,
        }],
        den: vec![],
        doc,
        cat: None,
    })
}

fn substance() -> impl Strategy<Value = SynSubstance> {
    (
        proptest::collection::vec(
            (any::<bool>(), (1u32..50, any::<u16>()), (1u32..50, any::<u16>()), proptest::bool::weighted(0.3))
                .prop_map(|(konst, input, output, doc)| SynProp { konst, input, output, doc }),
            1..=4,
        ),
        any::<bool>(),
        any::<bool>(),
    )
        .prop_map(|(props, symbol, doc)| SynSubstance { props, symbol, doc })
}

pub fn db_strategy(max_units: usize) -> impl Strategy<Value = SynDb> {
    (
        1u8..=4,
        0u8..16,
        0u8..=6,
        proptest::collection::vec(prop_oneof![4 => unit().boxed(), 1 => chain_unit().boxed()], 1..=max_units),
        proptest::collection::vec(proptest::collection::vec(-2i8..=2, 4), 0..=6),
        proptest::collection::vec(substance(), 0..=3),
        0u8..=3,
    )
        .prop_map(|(nbases, long_base_names, nprefixes, units, quantities, substances, ncats)| {
            SynDb {
                nbases,
                long_base_names,
                nprefixes,
                units,
                quantities,
                substances,
                ncats,
            }
            .normalise()
        })
}
