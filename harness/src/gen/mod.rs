pub mod arith;
