pub mod arith;
pub mod defs;
pub mod query;
pub mod units;
