pub mod arith;
pub mod defs;
pub mod units;
