pub mod arith;
pub mod units;
