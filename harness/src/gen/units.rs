//! The unit pool: names of the loaded database usable inside generated
//! queries, grouped by dimensionality.

use crate::oracle::refarith::Q;
use crate::rinkx;
use rink_core::ast::Function;
use rink_core::Context;
use std::collections::BTreeMap;
use std::str::FromStr;

pub type Dims = BTreeMap<String, i64>;

#[derive(Clone, Debug)]
pub struct PoolUnit {
    pub name: String,
    pub dims: Dims,
    /// exact value if rational
    pub val: Option<Q>,
}

#[derive(Clone, Debug, Default)]
pub struct UnitPool {
    pub units: Vec<PoolUnit>,
    /// indices grouped by dimensionality, largest classes first
    pub classes: Vec<Vec<usize>>,
    pub prefixes: Vec<String>,
    pub filtered_out: BTreeMap<String, u64>,
    pub filtered_names: Vec<String>,
}

pub const RESERVED: [&str; 40] = [
    "of", "digits", "base", "hex", "hexadecimal", "base16", "oct", "octal", "base8", "bin", "binary", "base2", "frac",
    "fraction", "ratio", "sci", "scientific", "eng", "engineering", "to", "in", "per", "mod", "and", "or", "xor", "now",
    "ans", "ANS", "_", "factorize", "units", "search", "for", "int", "international", "UKSJJ", "UKB", "UKC", "UKK",
];
pub const ATTRS: [&str; 14] = [
    "imperial", "british", "UK", "survey", "geodetic", "irish", "aust", "australian", "roman", "egyptian", "greek",
    "olympic", "int", "international",
];

/// why a name cannot be used bare inside a generated query (None = usable)
pub fn unusable(name: &str) -> Option<&'static str> {
    if !rinkx::lexer_safe(name) {
        return Some("not one identifier token for rink's lexer");
    }
    if RESERVED.contains(&name) || ATTRS.contains(&name) {
        return Some("keyword / attribute word");
    }
    if Function::from_name(name).is_some() {
        return Some("function name");
    }
    if name != "GB" && chrono_tz::Tz::from_str(name).is_ok() {
        return Some("time zone name");
    }
    None
}

pub fn build(ctx: &Context) -> UnitPool {
    let mut pool = UnitPool::default();
    let mut names: Vec<String> = ctx.registry.units.keys().cloned().collect();
    for b in ctx.registry.base_units.iter() {
        names.push(b.to_string());
    }
    names.sort();
    names.dedup();
    let mut by_dim: BTreeMap<Dims, Vec<usize>> = BTreeMap::new();
    for n in names {
        if let Some(why) = unusable(&n) {
            *pool.filtered_out.entry(why.to_string()).or_insert(0) += 1;
            pool.filtered_names.push(n);
            continue;
        }
        // a name that is also a substance evaluates as the unit (lookup first): fine
        let v = match ctx.lookup(&n) {
            Some(v) => v,
            None => {
                *pool.filtered_out.entry("lookup gives nothing".to_string()).or_insert(0) += 1;
                continue;
            }
        };
        let dims = rinkx::dims_of(&v);
        let val = rinkx::rational_of(&v.value).map(|(a, b)| Q::new(a, b));
        by_dim.entry(dims.clone()).or_default().push(pool.units.len());
        pool.units.push(PoolUnit { name: n, dims, val });
    }
    let mut classes: Vec<Vec<usize>> = by_dim.into_values().collect();
    classes.sort_by(|a, b| b.len().cmp(&a.len()).then(a.cmp(b)));
    pool.classes = classes;
    pool.prefixes = ctx.registry.prefixes.iter().map(|(p, _)| p.clone()).collect();
    pool
}

pub fn dims_mul(a: &Dims, b: &Dims, sign: i64) -> Dims {
    let mut out = a.clone();
    for (k, v) in b {
        let e = out.entry(k.clone()).or_insert(0);
        *e += sign * v;
        if *e == 0 {
            out.remove(k);
        }
    }
    out
}

pub fn dims_pow(a: &Dims, k: i64) -> Dims {
    if k == 0 {
        return Dims::new();
    }
    a.iter().map(|(n, e)| (n.clone(), e * k)).collect()
}

/// exact division of every exponent by n, if possible
pub fn dims_root(a: &Dims, n: i64) -> Option<Dims> {
    let mut out = Dims::new();
    for (k, e) in a {
        if e % n != 0 {
            return None;
        }
        out.insert(k.clone(), e / n);
    }
    Some(out)
}

pub fn dims_show(d: &Dims) -> String {
    if d.is_empty() {
        return "dimensionless".into();
    }
    d.iter().map(|(k, v)| format!("{}^{}", k, v)).collect::<Vec<_>>().join(" ")
}
