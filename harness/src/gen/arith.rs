//! Arithmetic expression trees for C01: literals in every notation,
//! rendering with minimal + redundant parentheses, reference evaluation.

use crate::oracle::refarith::*;
use num_bigint::BigInt;
use num_traits::{One, ToPrimitive, Zero};
use proptest::prelude::*;
use serde_derive::{Deserialize, Serialize};

#[derive(Clone, Debug, PartialEq, Eq, Serialize, Deserialize)]
pub struct Lit {
    pub radix: u32,          // 10, 16, 8, 2
    pub int_digits: String,  // digits without separators; for radix 10 may be "" only if frac present (".5")
    pub frac_digits: Option<String>, // radix 10 only
    pub exp: Option<i32>,    // radix 10 only
    pub exp_style: u8,       // bit0: upper-case E, bit1: doubled, bit2: explicit '+'
    pub seps: Vec<(u16, bool)>, // (position code, thin-space?) separators
    pub upper_hex: bool,
}

impl Lit {
    pub fn dec(s: &str) -> Lit {
        Lit {
            radix: 10,
            int_digits: s.to_string(),
            frac_digits: None,
            exp: None,
            exp_style: 0,
            seps: vec![],
            upper_hex: false,
        }
    }
    pub fn is_plain_decimal(&self) -> bool {
        self.radix == 10 && self.frac_digits.is_none() && self.exp.is_none() && self.seps.is_empty()
    }
    /// value from the abstract parts (own digit folding)
    pub fn value(&self) -> Q {
        let int = if self.int_digits.is_empty() {
            BigInt::zero()
        } else {
            fold_digits(&self.int_digits, self.radix).expect("digits")
        };
        let mut q = Q::int(int);
        if let Some(f) = &self.frac_digits {
            let fv = fold_digits(f, 10).expect("frac digits");
            let scale = pow_big(&BigInt::from(10), f.len() as u64);
            q = q.add(&Q::new(fv, scale));
        }
        if let Some(e) = self.exp {
            let p = pow_big(&BigInt::from(10), e.unsigned_abs() as u64);
            q = if e >= 0 {
                q.mul(&Q::int(p))
            } else {
                q.mul(&Q::new(BigInt::one(), p))
            };
        }
        q
    }
    /// residue mod p computed with u128 arithmetic only
    pub fn residue(&self, p: u64) -> Option<u64> {
        let mut acc = 0u64;
        for c in self.int_digits.chars() {
            acc = addmod(mulmod(acc, self.radix as u64, p), c.to_digit(self.radix)? as u64, p);
        }
        if let Some(f) = &self.frac_digits {
            let mut fv = 0u64;
            for c in f.chars() {
                fv = addmod(mulmod(fv, 10, p), c.to_digit(10)? as u64, p);
            }
            let scale = powmod(10, f.len() as u64, p);
            acc = addmod(acc, mulmod(fv, invmod(scale, p)?, p), p);
        }
        if let Some(e) = self.exp {
            let t = powmod(10, e.unsigned_abs() as u64, p);
            acc = if e >= 0 {
                mulmod(acc, t, p)
            } else {
                mulmod(acc, invmod(t, p)?, p)
            };
        }
        Some(acc)
    }
    fn with_seps(&self, digits: &str, salt: u16) -> String {
        // insert separators strictly between digits
        let chars: Vec<char> = digits.chars().collect();
        if chars.len() < 2 || self.seps.is_empty() {
            return digits.to_string();
        }
        let mut marks = vec![None; chars.len()];
        for (pos, thin) in &self.seps {
            let i = 1 + ((pos.wrapping_add(salt)) as usize % (chars.len() - 1));
            marks[i] = Some(*thin);
        }
        let mut out = String::new();
        for (i, c) in chars.iter().enumerate() {
            if let Some(thin) = marks[i] {
                out.push(if thin { '\u{2009}' } else { '_' });
            }
            out.push(*c);
        }
        out
    }
    pub fn render(&self) -> String {
        let case = |s: String| {
            if self.upper_hex {
                s.to_uppercase()
            } else {
                s
            }
        };
        match self.radix {
            16 => format!("0x{}", case(self.with_seps(&self.int_digits, 0))),
            8 => format!("0o{}", self.with_seps(&self.int_digits, 0)),
            2 => format!("0b{}", self.with_seps(&self.int_digits, 0)),
            _ => {
                let mut s = String::new();
                s.push_str(&self.with_seps(&self.int_digits, 0));
                if let Some(f) = &self.frac_digits {
                    s.push('.');
                    s.push_str(&self.with_seps(f, 7));
                }
                if let Some(e) = self.exp {
                    let ch = if self.exp_style & 1 == 1 { 'E' } else { 'e' };
                    s.push(ch);
                    if self.exp_style & 2 == 2 {
                        s.push(ch);
                    }
                    if e < 0 {
                        s.push('-');
                    } else if self.exp_style & 4 == 4 {
                        s.push('+');
                    }
                    s.push_str(&e.unsigned_abs().to_string());
                }
                s
            }
        }
    }
}

#[derive(Clone, Copy, Debug, PartialEq, Eq, Serialize, Deserialize, Hash)]
pub enum Op {
    Add,
    Sub,
    Mul,  // explicit *
    Div,  // /
    Frac, // |
    Juxt,
    Pow,
    Mod,
    Shl,
    Shr,
    And,
    Or,
    Xor,
}

pub const ALL_OPS: [Op; 13] = [
    Op::Add,
    Op::Sub,
    Op::Mul,
    Op::Div,
    Op::Frac,
    Op::Juxt,
    Op::Pow,
    Op::Mod,
    Op::Shl,
    Op::Shr,
    Op::And,
    Op::Or,
    Op::Xor,
];

impl Op {
    /// precedence class: larger binds tighter
    pub fn level(self) -> u8 {
        match self {
            Op::Add | Op::Sub => 1,
            Op::Mul | Op::Div | Op::Mod | Op::Shl | Op::Shr | Op::And | Op::Or | Op::Xor => 2,
            Op::Juxt => 3,
            Op::Frac => 4,
            Op::Pow => 5,
        }
    }
    pub fn symbol(self) -> &'static str {
        match self {
            Op::Add => "+",
            Op::Sub => "-",
            Op::Mul => "*",
            Op::Div => "/",
            Op::Frac => "|",
            Op::Juxt => "",
            Op::Pow => "^",
            Op::Mod => "mod",
            Op::Shl => "<<",
            Op::Shr => ">>",
            Op::And => "and",
            Op::Or => "or",
            Op::Xor => "xor",
        }
    }
    pub fn is_keyword(self) -> bool {
        matches!(self, Op::Mod | Op::And | Op::Or | Op::Xor)
    }
}

#[derive(Clone, Debug, PartialEq, Eq, Serialize, Deserialize)]
pub enum Ar {
    Lit(Lit),
    Neg(Box<Ar>),
    Pos(Box<Ar>),
    Bin(Op, Box<Ar>, Box<Ar>),
    /// redundant parentheses (style bits: inner spaces)
    Paren(Box<Ar>),
}

#[derive(Clone, Copy, Debug, Serialize, Deserialize, Default)]
pub struct Style {
    /// bit i: squeeze spaces around the i-th symbolic operator; pow alt `**`
    pub squeeze: u64,
    pub starstar: u64,
    pub full_parens: bool,
    pub unicode_minus: bool,
}

pub struct Rendered {
    pub text: String,
    /// number of operator boundaries left without parentheses where the
    /// child is a binary operator of a different precedence class
    pub open_mixed: u32,
    pub ops: u32,
}

impl Ar {
    pub fn lit(s: &str) -> Ar {
        Ar::Lit(Lit::dec(s))
    }
    pub fn bin(op: Op, a: Ar, b: Ar) -> Ar {
        Ar::Bin(op, Box::new(a), Box::new(b))
    }
    fn level(&self) -> u8 {
        match self {
            Ar::Lit(_) | Ar::Paren(_) => 7,
            Ar::Neg(_) | Ar::Pos(_) => 6,
            Ar::Bin(op, _, _) => op.level(),
        }
    }
    fn starts_with_sign(&self) -> bool {
        match self {
            Ar::Neg(_) | Ar::Pos(_) => true,
            Ar::Bin(_, l, _) => l.starts_with_sign(),
            _ => false,
        }
    }
    pub fn count_ops(&self) -> u32 {
        match self {
            Ar::Lit(_) => 0,
            Ar::Neg(a) | Ar::Pos(a) | Ar::Paren(a) => a.count_ops(),
            Ar::Bin(_, a, b) => 1 + a.count_ops() + b.count_ops(),
        }
    }
    pub fn size(&self) -> u32 {
        match self {
            Ar::Lit(_) => 1,
            Ar::Neg(a) | Ar::Pos(a) | Ar::Paren(a) => 1 + a.size(),
            Ar::Bin(_, a, b) => 1 + a.size() + b.size(),
        }
    }
    pub fn any_lit(&self, f: &dyn Fn(&Lit) -> bool) -> bool {
        match self {
            Ar::Lit(l) => f(l),
            Ar::Neg(a) | Ar::Pos(a) | Ar::Paren(a) => a.any_lit(f),
            Ar::Bin(_, a, b) => a.any_lit(f) || b.any_lit(f),
        }
    }

    pub fn render(&self, st: &Style) -> Rendered {
        let mut r = Rendered {
            text: String::new(),
            open_mixed: 0,
            ops: 0,
        };
        let mut opno = 0u32;
        self.emit(st, &mut r, &mut opno);
        r
    }

    fn emit_child(&self, need_paren: bool, parent: Option<Op>, st: &Style, r: &mut Rendered, opno: &mut u32) {
        let paren = need_paren || (st.full_parens && !matches!(self, Ar::Lit(_) | Ar::Paren(_)));
        if paren {
            r.text.push('(');
            self.emit(st, r, opno);
            r.text.push(')');
        } else {
            if let (Some(p), Ar::Bin(c, _, _)) = (parent, self) {
                if p.level() != c.level() {
                    r.open_mixed += 1;
                }
            }
            self.emit(st, r, opno);
        }
    }

    fn emit(&self, st: &Style, r: &mut Rendered, opno: &mut u32) {
        match self {
            Ar::Lit(l) => r.text.push_str(&l.render()),
            Ar::Paren(a) => {
                r.text.push('(');
                a.emit(st, r, opno);
                r.text.push(')');
            }
            Ar::Neg(a) | Ar::Pos(a) => {
                let neg = matches!(self, Ar::Neg(_));
                r.text.push_str(if neg {
                    if st.unicode_minus {
                        "\u{2212}"
                    } else {
                        "-"
                    }
                } else {
                    "+"
                });
                // operand must be a term or another sign
                let need = a.level() < 6;
                a.emit_child(need, None, st, r, opno);
            }
            Ar::Bin(op, a, b) => {
                r.ops += 1;
                let my = *opno;
                *opno += 1;
                let lv = op.level();
                let (lneed, rneed) = match op {
                    // base: term only (signs and nested ^ always parenthesised)
                    // base: term only (a sign under ^ is always parenthesised: the manual is silent and
                    // rink reads -2^2 as 4); exponent: a further ^ chains to the right unparenthesised
                    // (a^b^c = a^(b^c), the universal convention and what the parser implements)
                    Op::Pow => (a.level() < 7, b.level() < 5 || matches!(**b, Ar::Pos(_))),
                    // `|` does not chain
                    Op::Frac => (a.level() <= 4, b.level() <= 4),
                    // juxtaposition: a later factor must not start with a sign
                    Op::Juxt => (a.level() < 3, b.level() <= 3 || b.starts_with_sign()),
                    // left-associative levels
                    _ => (a.level() < lv, b.level() <= lv),
                };
                // a left operand that begins with a sign directly under `^` or `|`
                // is fine for `|` (term-level sign) but we parenthesise under ^ (above).
                a.emit_child(lneed, Some(*op), st, r, opno);
                let squeeze = !op.is_keyword() && (st.squeeze >> (my % 64)) & 1 == 1;
                match op {
                    Op::Juxt => r.text.push(' '),
                    Op::Pow => {
                        let sym = if (st.starstar >> (my % 64)) & 1 == 1 { "**" } else { "^" };
                        if squeeze {
                            r.text.push_str(sym);
                        } else {
                            r.text.push(' ');
                            r.text.push_str(sym);
                            r.text.push(' ');
                        }
                    }
                    _ => {
                        let sym = if *op == Op::Sub && st.unicode_minus { "\u{2212}" } else { op.symbol() };
                        if squeeze {
                            r.text.push_str(sym);
                        } else {
                            r.text.push(' ');
                            r.text.push_str(sym);
                            r.text.push(' ');
                        }
                    }
                }
                // `a*` followed by `*b`? impossible: operands never start with '*'.
                // `a -` followed by `>`? impossible.
                b.emit_child(rneed, Some(*op), st, r, opno);
            }
        }
    }

    /// reference value (strict: unspecified cases are reported as such)
    pub fn eval(&self) -> R {
        self.eval_with(false)
    }

    /// lenient: 0^0 = 1 and a negative shift count is the opposite shift
    pub fn eval_lenient(&self) -> R {
        self.eval_with(true)
    }

    fn eval_with(&self, lenient: bool) -> R {
        match self {
            Ar::Lit(l) => Ok(l.value()),
            Ar::Paren(a) | Ar::Pos(a) => a.eval_with(lenient),
            Ar::Neg(a) => Ok(a.eval_with(lenient)?.neg()),
            Ar::Bin(op, a, b) => {
                let x = a.eval_with(lenient)?;
                let y = b.eval_with(lenient)?;
                if x.bits() > MAX_BITS || y.bits() > MAX_BITS {
                    return Err(Undef::TooBig);
                }
                match op {
                    Op::Add => Ok(x.add(&y)),
                    Op::Sub => Ok(x.sub(&y)),
                    Op::Mul | Op::Juxt => Ok(x.mul(&y)),
                    Op::Div | Op::Frac => x.div(&y).ok_or(Undef::Undefined("division by zero")),
                    Op::Pow => {
                        let e = y
                            .as_integer()
                            .ok_or(Undef::Unspecified("non-integer exponent"))?;
                        let e = e.to_i64().ok_or(Undef::TooBig)?;
                        if e.unsigned_abs() >= (1 << 31) {
                            return Err(Undef::TooBig);
                        }
                        if lenient && e == 0 && x.is_zero() {
                            return Ok(Q::small(1));
                        }
                        x.powi(e)
                    }
                    Op::Mod => x.rem_trunc(&y),
                    Op::Shl | Op::Shr => {
                        let k = y
                            .as_integer()
                            .ok_or(Undef::Undefined("non-integer shift count"))?;
                        let k = k.to_i64().ok_or(Undef::TooBig)?;
                        if k.unsigned_abs() >= (1 << 31) {
                            return Err(Undef::TooBig);
                        }
                        if k < 0 && !lenient {
                            return Err(Undef::Unspecified("negative shift count"));
                        }
                        x.shift(if *op == Op::Shl { k } else { -k })
                    }
                    Op::And | Op::Or | Op::Xor => {
                        let xi = x
                            .as_integer()
                            .ok_or(Undef::Undefined("bit operator on non-integer"))?;
                        let yi = y
                            .as_integer()
                            .ok_or(Undef::Undefined("bit operator on non-integer"))?;
                        let c = match op {
                            Op::And => b'&',
                            Op::Or => b'|',
                            _ => b'^',
                        };
                        Ok(Q::int(bitop(&xi, &yi, c)))
                    }
                }
            }
        }
    }

    /// fingerprint in Z_p with u128 arithmetic only. None = not computable
    /// (non-homomorphic operator, zero denominator mod p).
    /// `exps` supplies integer values for exponent/shift subtrees (from refarith).
    pub fn residue(&self, p: u64) -> Option<u64> {
        match self {
            Ar::Lit(l) => l.residue(p),
            Ar::Paren(a) | Ar::Pos(a) => a.residue(p),
            Ar::Neg(a) => Some(submod(0, a.residue(p)?, p)),
            Ar::Bin(op, a, b) => {
                let x = a.residue(p)?;
                match op {
                    Op::Add => Some(addmod(x, b.residue(p)?, p)),
                    Op::Sub => Some(submod(x, b.residue(p)?, p)),
                    Op::Mul | Op::Juxt => Some(mulmod(x, b.residue(p)?, p)),
                    Op::Div | Op::Frac => Some(mulmod(x, invmod(b.residue(p)?, p)?, p)),
                    Op::Pow => {
                        let e = b.eval().ok()?.as_integer()?.to_i64()?;
                        let t = powmod(x, e.unsigned_abs(), p);
                        if e >= 0 {
                            Some(t)
                        } else {
                            invmod(t, p)
                        }
                    }
                    Op::Shl | Op::Shr => {
                        let k = b.eval().ok()?.as_integer()?.to_i64()?;
                        if k < 0 {
                            return None;
                        }
                        let t = powmod(2, k as u64, p);
                        if *op == Op::Shl {
                            Some(mulmod(x, t, p))
                        } else {
                            Some(mulmod(x, invmod(t, p)?, p))
                        }
                    }
                    Op::Mod | Op::And | Op::Or | Op::Xor => None,
                }
            }
        }
    }
}

// ---------------------------------------------------------------------------
// Strategies
// ---------------------------------------------------------------------------

pub fn boundary_ints() -> Vec<String> {
    let mut v: Vec<BigInt> = vec![];
    for s in [0i64, 1, 2, 3, 7, 10, 255, 256, 1000] {
        v.push(BigInt::from(s));
    }
    for k in [31u32, 32, 53, 63, 64, 128] {
        let p = pow_big(&BigInt::from(2), k as u64);
        v.push(&p - 1);
        v.push(p.clone());
        v.push(&p + 1);
    }
    for k in [9u32, 18, 19, 20] {
        let p = pow_big(&BigInt::from(10), k as u64);
        v.push(&p - 1);
        v.push(p.clone());
        v.push(&p + 1);
    }
    v.iter().map(|x| x.to_string()).collect()
}

fn digit_string(radix: u32, max_len: usize) -> impl Strategy<Value = String> {
    // first digit non-zero-biased; lengths skewed small with a long tail
    let len = prop_oneof![
        6 => 1usize..=6,
        3 => 7usize..=40,
        1 => 41usize..=max_len.max(42),
    ];
    len.prop_flat_map(move |n| {
        proptest::collection::vec(0u32..radix, n).prop_map(move |ds| {
            ds.iter()
                .map(|d| std::char::from_digit(*d, radix).unwrap())
                .collect::<String>()
        })
    })
}

fn to_radix_string(v: &BigInt, radix: u32) -> String {
    // own conversion: repeated division
    if v.is_zero() {
        return "0".into();
    }
    let mut x = v.clone();
    let r = BigInt::from(radix);
    let mut out = vec![];
    while !x.is_zero() {
        let d = (&x % &r).to_u32().unwrap();
        out.push(std::char::from_digit(d, radix).unwrap());
        x = &x / &r;
    }
    out.iter().rev().collect()
}

pub fn lit_strategy(max_digits: usize) -> impl Strategy<Value = Lit> {
    let bounds = boundary_ints();
    let bounds2 = bounds.clone();
    let seps = proptest::collection::vec((any::<u16>(), any::<bool>()), 0..3);
    let dec_int = prop_oneof![
        3 => proptest::sample::select(bounds.clone()),
        4 => digit_string(10, max_digits),
    ];
    let plain = dec_int.clone().prop_map(|s| Lit::dec(&s));
    let fancy_dec = (
        prop_oneof![2 => dec_int.clone(), 1 => Just(String::new())],
        proptest::option::weighted(0.6, digit_string(10, 60)),
        proptest::option::weighted(
            0.5,
            prop_oneof![8 => -30i32..=30, 1 => -400i32..=400, 1 => Just(0i32)]
        ),
        0u8..8,
        prop_oneof![3 => Just(vec![]), 1 => seps.clone()],
    )
        .prop_map(|(int, frac, exp, style, seps)| {
            let (int, frac) = if int.is_empty() && frac.is_none() {
                ("0".to_string(), None)
            } else {
                (int, frac)
            };
            Lit {
                radix: 10,
                int_digits: int,
                frac_digits: frac,
                exp,
                exp_style: style,
                seps,
                upper_hex: false,
            }
        });
    let radixed = (
        proptest::sample::select(vec![16u32, 8, 2]),
        prop_oneof![
            1 => proptest::sample::select(bounds2).prop_map(|s| (s, true)),
            1 => digit_string(16, max_digits.min(300)).prop_map(|s| (s, false)),
        ],
        any::<bool>(),
        prop_oneof![3 => Just(vec![]), 1 => seps],
    )
        .prop_map(|(radix, (digits, is_dec), upper, seps)| {
            let v = if is_dec {
                fold_digits(&digits, 10).unwrap()
            } else {
                fold_digits(&digits, 16).unwrap()
            };
            Lit {
                radix,
                int_digits: to_radix_string(&v, radix),
                frac_digits: None,
                exp: None,
                exp_style: 0,
                seps,
                upper_hex: upper,
            }
        });
    prop_oneof![4 => plain, 4 => fancy_dec, 2 => radixed]
}

fn small_int_lit(lo: i64, hi: i64) -> impl Strategy<Value = Ar> {
    (lo..=hi).prop_map(|k| {
        if k < 0 {
            Ar::Neg(Box::new(Ar::lit(&(-k).to_string())))
        } else {
            Ar::lit(&k.to_string())
        }
    })
}

/// exponent subtree: integer-valued, small
fn exponent() -> impl Strategy<Value = Ar> {
    prop_oneof![
        8 => small_int_lit(-8, 8),
        2 => small_int_lit(-64, 64),
        1 => (small_int_lit(0, 6), small_int_lit(0, 6)).prop_map(|(a, b)| Ar::bin(Op::Add, a, b)),
        1 => (small_int_lit(1, 4), small_int_lit(1, 4)).prop_map(|(a, b)| Ar::bin(Op::Mul, a, b)),
        1 => (small_int_lit(0, 30), small_int_lit(1, 30)).prop_map(|(a, b)| Ar::bin(Op::Frac, a, b)),
        2 => (small_int_lit(1, 3), small_int_lit(0, 3)).prop_map(|(a, b)| Ar::bin(Op::Pow, a, b)),
        1 => (small_int_lit(2, 2), small_int_lit(1, 2), small_int_lit(0, 2)).prop_map(|(a, b, c)| Ar::bin(Op::Pow, a, Ar::bin(Op::Pow, b, c))),
        1 => Just(Ar::Lit(Lit { radix: 16, int_digits: "3".into(), frac_digits: None, exp: None, exp_style: 0, seps: vec![], upper_hex: false })),
    ]
}

fn shift_count(allow_negative: bool) -> BoxedStrategy<Ar> {
    let lo = if allow_negative { -8 } else { 0 };
    prop_oneof![
        6 => small_int_lit(lo, 70),
        2 => small_int_lit(0, 4000),
        1 => (small_int_lit(1, 9), small_int_lit(1, 4)).prop_map(|(a, b)| Ar::bin(Op::Frac, a, b)),
    ]
    .boxed()
}

#[derive(Clone, Copy)]
pub struct GenCfg {
    pub max_digits: usize,
    pub allow_negative_shift: bool,
}

pub fn tree_strategy(cfg: GenCfg) -> impl Strategy<Value = Ar> {
    let leaf = lit_strategy(cfg.max_digits).prop_map(Ar::Lit);
    leaf.prop_recursive(5, 28, 3, move |inner| {
        let ops = proptest::sample::select(vec![
            Op::Add,
            Op::Add,
            Op::Sub,
            Op::Sub,
            Op::Mul,
            Op::Mul,
            Op::Div,
            Op::Div,
            Op::Frac,
            Op::Juxt,
            Op::Juxt,
            Op::Mod,
            Op::And,
            Op::Or,
            Op::Xor,
        ]);
        prop_oneof![
            12 => (ops, inner.clone(), inner.clone()).prop_map(|(op, a, b)| Ar::bin(op, a, b)),
            2 => (inner.clone(), exponent()).prop_map(|(a, e)| Ar::bin(Op::Pow, a, e)),
            2 => (proptest::sample::select(vec![Op::Shl, Op::Shr]), inner.clone(), shift_count(cfg.allow_negative_shift))
                .prop_map(|(op, a, k)| Ar::bin(op, a, k)),
            2 => inner.clone().prop_map(|a| Ar::Neg(Box::new(a))),
            1 => inner.clone().prop_map(|a| Ar::Pos(Box::new(a))),
            1 => inner.clone().prop_map(|a| Ar::Paren(Box::new(a))),
        ]
    })
}

pub fn style_strategy() -> impl Strategy<Value = Style> {
    (
        prop_oneof![2 => Just(0u64), 1 => any::<u64>(), 1 => Just(u64::MAX)],
        prop_oneof![3 => Just(0u64), 1 => any::<u64>()],
        proptest::bool::weighted(0.1),
        proptest::bool::weighted(0.1),
    )
        .prop_map(|(squeeze, starstar, full_parens, unicode_minus)| Style {
            squeeze,
            starstar,
            full_parens,
            unicode_minus,
        })
}
