//! Query-text generators for C04 / C15 / C17: a tape-driven grammar, token
//! soup, corpus mutation and aimed shapes. Every choice comes from a
//! proptest-generated tape (`Vec<u32>`), so shrinking and replay work.

use rink_core::Context;

pub struct Tape<'a> {
    data: &'a [u32],
    pos: usize,
}

impl<'a> Tape<'a> {
    pub fn new(data: &'a [u32]) -> Tape<'a> {
        Tape { data, pos: 0 }
    }
    pub fn next(&mut self) -> u32 {
        let v = self.data.get(self.pos).cloned().unwrap_or(0);
        self.pos += 1;
        v
    }
    /// index in 0..n, small tape values map to small indices
    pub fn pick(&mut self, n: usize) -> usize {
        if n == 0 {
            return 0;
        }
        (self.next() as u64 * n as u64 >> 32) as usize
    }
    pub fn chance(&mut self, percent: u32) -> bool {
        (self.next() as u64 * 100 >> 32) < percent as u64
    }
    pub fn exhausted(&self) -> bool {
        self.pos >= self.data.len()
    }
    pub fn choose<'b, T: ?Sized>(&mut self, items: &'b [&'b T]) -> &'b T {
        items[self.pick(items.len())]
    }
}

pub struct Dict {
    pub units: Vec<String>,
    pub substances: Vec<String>,
    pub quantities: Vec<String>,
    pub symbols: Vec<String>,
    pub prefixes: Vec<String>,
    pub corpus: Vec<String>,
}

pub const KEYWORDS: [&str; 78] = [
    "->", "to", "in", "per", "mod", "and", "or", "xor", "of", "digits", "base", "hex", "oct", "bin", "hexadecimal", "octal",
    "binary", "base16", "base8", "base2", "frac", "fraction", "ratio", "sci", "scientific", "eng", "engineering", "factorize",
    "units", "for", "search", "ans", "ANS", "_", "now", "int", "international", "survey", "UK", "imperial", "sqrt", "exp", "ln",
    "log", "log2", "log10", "sin", "cos", "tan", "asin", "acos", "atan", "atan2", "sinh", "cosh", "tanh", "asinh", "acosh",
    "atanh", "hypot", "degC", "°C", "celsius", "℃", "degF", "°F", "°Ré", "°Rø", "°De", "°N", "delisle", "romer", "reaumur", "%",
    "→", "**", "<<", ">>",
];
pub const OPS: [&str; 26] = [
    "+", "-", "*", "/", "|", "^", "**", "(", ")", ",", ";", "=", ":", "<<", ">>", "%", "−", "∕", "'", "\"", "#", "\\", "//", "/*", "*/", "\n",
];
pub const ZONES: [&str; 9] = ["UTC", "US/Pacific", "Europe/London", "Asia/Tokyo", "GB", "EST", "Australia/Lord_Howe", "America/St_Johns", "Etc/GMT+12"];
pub const FUNCS: [&str; 20] = [
    "sqrt", "exp", "ln", "log2", "log10", "sin", "cos", "tan", "asin", "acos", "atan", "sinh", "cosh", "tanh", "asinh", "acosh",
    "atanh", "log", "hypot", "atan2",
];
pub const DEGREES: [&str; 12] = ["degC", "°C", "celsius", "℃", "degF", "°F", "°Ré", "reaumur", "°Rø", "°De", "°N", "degnewton"];
pub const ATTRS: [&str; 8] = ["int", "international", "survey", "UK", "imperial", "british", "roman", "olympic"];

impl Dict {
    pub fn build(ctx: &Context) -> Dict {
        let mut units: Vec<String> = ctx.registry.units.keys().cloned().collect();
        for b in ctx.registry.base_units.iter() {
            units.push(b.to_string());
        }
        units.sort();
        // a spread of ~300 names plus the ones the manual uses
        let step = (units.len() / 300).max(1);
        let mut picked: Vec<String> = units.iter().step_by(step).cloned().collect();
        for n in [
            "m", "meter", "s", "second", "kg", "gram", "foot", "inch", "mile", "hour", "day", "year", "week", "minute", "byte", "bit",
            "K", "radian", "degree", "percent", "W", "J", "N", "ohm", "volt", "liter", "gallon", "mol", "c", "gravity", "pi", "USD",
            "tonne", "lb", "oz", "kWh", "mph", "ms", "ns", "century", "month", "semitone", "delisle_absolute", "g00",
        ] {
            picked.push(n.to_string());
        }
        let substances: Vec<String> = ctx.registry.substances.keys().cloned().collect();
        let quantities: Vec<String> = ctx.registry.quantities.values().cloned().collect();
        let symbols: Vec<String> = ctx.registry.substance_symbols.keys().cloned().collect();
        let prefixes: Vec<String> = ctx.registry.prefixes.iter().map(|(p, _)| p.clone()).collect();
        Dict {
            units: picked,
            substances,
            quantities,
            symbols,
            prefixes,
            corpus: corpus_from_repo(),
        }
    }
}

/// query strings found in the repo's tests and manual (read at run time)
pub fn corpus_from_repo() -> Vec<String> {
    let mut out: Vec<String> = vec![];
    for f in ["/repo/core/tests/query.rs", "/repo/core/tests/token_fmt.rs", "/repo/core/tests/spans.rs"] {
        if let Ok(text) = std::fs::read_to_string(f) {
            // first string literal of each test(...) call: crude scan for `"..."` after `test`
            let bytes: Vec<char> = text.chars().collect();
            let mut i = 0;
            while i < bytes.len() {
                if bytes[i] == '"' {
                    let mut j = i + 1;
                    let mut s = String::new();
                    while j < bytes.len() && bytes[j] != '"' {
                        if bytes[j] == '\\' && j + 1 < bytes.len() {
                            let c = bytes[j + 1];
                            s.push(match c {
                                'n' => '\n',
                                't' => '\t',
                                other => other,
                            });
                            j += 2;
                        } else {
                            s.push(bytes[j]);
                            j += 1;
                        }
                    }
                    if !s.is_empty() && s.chars().count() <= 200 {
                        out.push(s);
                    }
                    i = j + 1;
                } else {
                    i += 1;
                }
            }
        }
    }
    if let Ok(text) = std::fs::read_to_string("/repo/docs/rink.7.adoc") {
        for l in text.lines() {
            if let Some(q) = l.trim_start().strip_prefix("> ") {
                out.push(q.to_string());
            }
        }
    }
    if let Ok(text) = std::fs::read_to_string("/repo/core/definitions.units") {
        // right-hand sides of plain definitions
        for l in text.lines().step_by(3) {
            if l.starts_with('#') || l.starts_with('!') || l.starts_with('?') || l.trim().is_empty() {
                continue;
            }
            let l = l.split('#').next().unwrap_or("");
            let mut it = l.splitn(2, char::is_whitespace);
            let _name = it.next();
            if let Some(rhs) = it.next() {
                let rhs = rhs.trim();
                if !rhs.is_empty() && rhs.len() < 120 {
                    out.push(rhs.to_string());
                }
            }
        }
    }
    out.sort();
    out.dedup();
    out
}

// ---------------------------------------------------------------------------
// grammar
// ---------------------------------------------------------------------------

pub fn number(t: &mut Tape) -> String {
    match t.pick(22) {
        0 => t.pick(10).to_string(),
        1 => t.pick(1000).to_string(),
        2 => format!("{}.{}", t.pick(100), t.pick(1000)),
        3 => format!(".{}", t.pick(1000)),
        4 => format!("{}e{}", t.pick(100), t.pick(40)),
        5 => format!("{}e-{}", t.pick(100), t.pick(40)),
        6 => format!("{}.{}E+{}", t.pick(10), t.pick(100), t.pick(400)),
        7 => format!("{}ee{}", t.pick(10), t.pick(30)),
        8 => format!("0x{:x}", t.next()),
        9 => format!("0o{:o}", t.next()),
        10 => format!("0b{:b}", t.next() & 0xffff),
        11 => format!("1_000_{}", t.pick(1000)),
        12 => format!("1\u{2009}000.5\u{2009}{}", t.pick(10)),
        13 => t.choose(&["0", "0.0", "0e0", "-0", "1|0", "0|0", "0x0"]).to_string(),
        14 => t.choose(&["2147483647", "2147483648", "4294967295", "4294967296", "9223372036854775807", "9223372036854775808", "18446744073709551615", "18446744073709551616"]).to_string(),
        15 => format!("1e{}", t.choose(&["2147483647", "2147483648", "-2147483648", "-2147483649", "4999", "5000", "-5000", "99999999999999999999"])),
        16 => {
            let n = 1 + t.pick(60);
            "9".repeat(n)
        }
        17 => format!("{}|{}", t.pick(1000), t.pick(1000)),
        18 => t.choose(&["1.", "1e", "1e+", "0x", "0b", "0o", "0b2", "0o8", "0xg", "1..2", "1.2.3", "1e1e1", ".", "..", "1_", "_1"]).to_string(),
        19 => format!("{}e{}{}", t.pick(9) + 1, if t.chance(50) { "-" } else { "" }, 300 + t.pick(4000)),
        20 => format!("0.{}{}", "0".repeat(t.pick(40)), t.pick(1000)),
        _ => format!("{}", t.next()),
    }
}

pub fn unit_name(t: &mut Tape, d: &Dict) -> String {
    match t.pick(16) {
        0..=6 => d.units[t.pick(d.units.len())].clone(),
        7 => format!("{}{}", d.prefixes[t.pick(d.prefixes.len())], d.units[t.pick(d.units.len())]),
        8 => format!("{}s", d.units[t.pick(d.units.len())]),
        9 => d.substances[t.pick(d.substances.len().max(1)) % d.substances.len().max(1)].clone(),
        10 => d.quantities[t.pick(d.quantities.len())].clone(),
        11 => formula(t, d),
        12 => t.choose(&["ans", "ANS", "_", "now", "pi", "c", "gravity"]).to_string(),
        13 => t.choose(&["xyzzy", "metre", "feets", "kilofoo", "µs", "Ω", "é", "日本", "a_b", "a$b", "$", "€"]).to_string(),
        14 => format!("{} {}", t.choose(&ATTRS), d.units[t.pick(d.units.len())]),
        _ => format!("{}{}{}", d.prefixes[t.pick(d.prefixes.len())], d.prefixes[t.pick(d.prefixes.len())], d.units[t.pick(d.units.len())]),
    }
}

pub fn formula(t: &mut Tape, d: &Dict) -> String {
    let mut s = String::new();
    for _ in 0..1 + t.pick(4) {
        if d.symbols.is_empty() {
            s.push('H');
        } else {
            s.push_str(&d.symbols[t.pick(d.symbols.len())]);
        }
        match t.pick(8) {
            0 | 1 | 2 => {}
            3 => s.push_str(&(2 + t.pick(10)).to_string()),
            4 => s.push_str(t.choose(&["0", "1", "65536", "4294967295", "4294967296", "99999999999", "18446744073709551616"])),
            5 => s.push_str(&t.pick(100000).to_string()),
            6 => s.push('x'),
            _ => {}
        }
    }
    s
}

pub fn date(t: &mut Tape) -> String {
    let y = match t.pick(9) {
        8 => t.choose(&["2147483647", "-2147483647", "2147483648", "-2147483648", "-1", "99999999999", "-0", "262143", "-262144"]).to_string(),
        0 => "2020".to_string(),
        1 => "1".to_string(),
        2 => "0001".to_string(),
        3 => "9999".to_string(),
        4 => "10000".to_string(),
        5 => "0".to_string(),
        6 => "275760".to_string(),
        _ => (1900 + t.pick(200)).to_string(),
    };
    let mo = match t.pick(6) {
        0 => "13".to_string(),
        1 => "00".to_string(),
        _ => format!("{:02}", 1 + t.pick(12)),
    };
    let da = match t.pick(6) {
        0 => "31".to_string(),
        1 => "00".to_string(),
        2 => "32".to_string(),
        _ => format!("{:02}", 1 + t.pick(28)),
    };
    let frac = match t.pick(6) {
        0 => String::new(),
        1 => ".".to_string(),
        _ => format!(".{}", "1234567890123".chars().take(t.pick(13)).collect::<String>()),
    };
    let time = format!("{:02}:{:02}:{:02}{}", t.pick(25), t.pick(61), t.pick(62), frac);
    let off = match t.pick(10) {
        8 => format!(" {}{}:{:02}", t.choose(&["+", "-"]), t.choose(&["2000000", "596523", "596524", "2147483647", "2147483648", "99999", "24", "100"]), t.pick(60)),
        9 => format!(" {}{}", t.choose(&["+", "-"]), t.choose(&["9999", "2400", "0000", "00000", "235", "99999999"])),
        0 => String::new(),
        1 => " +00:00".to_string(),
        2 => format!(" -{:02}:{:02}", t.pick(24), t.pick(60)),
        3 => format!(" +{:02}:{:02}", 24 + t.pick(76), t.pick(100)),
        4 => " US/Pacific".to_string(),
        5 => " Z".to_string(),
        6 => " +5:00".to_string(),
        _ => format!(" +{:02}:{:02}", t.pick(15), 15 * t.pick(4)),
    };
    let body = match t.pick(16) {
        14 => format!("{} {} {} {}", y, t.choose(&["jan", "Aug", "december"]), da, t.choose(&["bc", "BC", "bce", "ad", "CE"])),
        15 => format!("{}-{}-{} {:02}:{:02}{}", y, mo, da, t.pick(24), t.pick(60), off),
        0 => format!("{}-{}-{}", y, mo, da),
        1 => format!("{}-{}-{} {}{}", y, mo, da, time, off),
        2 => format!("{}-{}-{}T{}{}", y, mo, da, time, off),
        3 => time.clone(),
        4 => format!("{}-{:03}", y, t.pick(400)),
        5 => format!("{} {} {}", t.choose(&["Jan", "February", "mar", "Sept", "Foo"]), da, y),
        6 => format!("{} {} {} {} {}", t.choose(&["Mon", "Tuesday", "Sun"]), t.choose(&["Jan", "Aug", "Dec"]), da, time, y),
        7 => format!("{} {} {} {}", da, t.choose(&["Jan", "Aug"]), y, t.choose(&["AD", "BC", "CE", "am", "pm"])),
        8 => format!("{}:{} {}", t.pick(13), t.pick(60), t.choose(&["am", "pm", "AM", "xm"])),
        9 => String::new(),
        10 => "now".to_string(),
        11 => format!("{}-{}-{} {}", y, mo, da, "9".repeat(t.pick(30))),
        12 => format!("+{}-{}-{}", y, mo, da),
        _ => format!("{}{}{}", y, mo, da),
    };
    if t.chance(8) {
        format!("#{}", body) // unterminated
    } else {
        format!("#{}#", body)
    }
}

pub fn term(t: &mut Tape, d: &Dict, depth: u32) -> String {
    match t.pick(24) {
        0..=5 => number(t),
        6..=11 => unit_name(t, d),
        12 if depth > 0 => format!("({})", expr(t, d, depth - 1)),
        13 => format!("{} {}", number(t), unit_name(t, d)),
        14 => match t.pick(5) {
            0 => "'apple'".to_string(),
            1 => "'a b'".to_string(),
            2 => "'it\\'s'".to_string(),
            3 => "'unterminated".to_string(),
            _ => "'\\q'".to_string(),
        },
        15 => match t.pick(5) {
            0 => "\"US/Pacific\"".to_string(),
            1 => "\"a b\"".to_string(),
            2 => "\"mod\"".to_string(),
            3 => "\"open".to_string(),
            _ => "\"\\\"\"".to_string(),
        },
        16 => date(t),
        17 => "%".to_string(),
        18 => match t.pick(8) {
            0 => "\\u".to_string(),
            1 => "\\u41".to_string(),
            2 => "\\uD800".to_string(),
            3 => "\\u110000".to_string(),
            4 => "\\uFFFFFFFFFF".to_string(),
            5 => "\\x".to_string(),
            6 => "\\".to_string(),
            _ => "\\u3bc".to_string(),
        },
        19 | 20 if depth > 0 => {
            let f = t.choose(&FUNCS);
            match t.pick(5) {
                0 => format!("{} {}", f, term(t, d, depth - 1)),
                1 => format!("{}()", f),
                2 => format!("{}({}, {}, {})", f, expr(t, d, depth - 1), expr(t, d, depth - 1), expr(t, d, depth - 1)),
                3 => format!("{}({}, {})", f, expr(t, d, depth - 1), expr(t, d, depth - 1)),
                _ => format!("{}({})", f, expr(t, d, depth - 1)),
            }
        }
        21 => match t.pick(6) {
            0 => "ln(-1)".to_string(),
            1 => "exp(1000)".to_string(),
            2 => "ln(0)".to_string(),
            3 => "-exp(1000)".to_string(),
            4 => "sqrt(2)".to_string(),
            _ => "asin(2)".to_string(),
        },
        22 => format!("// {}", unit_name(t, d)),
        _ => format!("/* {} */ {}", unit_name(t, d), number(t)),
    }
}

pub fn expr(t: &mut Tape, d: &Dict, depth: u32) -> String {
    if depth == 0 || t.exhausted() {
        return term(t, d, 0);
    }
    match t.pick(26) {
        0..=4 => term(t, d, depth),
        5 => format!("{} + {}", expr(t, d, depth - 1), expr(t, d, depth - 1)),
        6 => format!("{} - {}", expr(t, d, depth - 1), expr(t, d, depth - 1)),
        7 => format!("{} * {}", expr(t, d, depth - 1), expr(t, d, depth - 1)),
        8 => format!("{} / {}", expr(t, d, depth - 1), expr(t, d, depth - 1)),
        9 => format!("{}|{}", term(t, d, depth - 1), term(t, d, depth - 1)),
        10 => format!("{} {}", expr(t, d, depth - 1), expr(t, d, depth - 1)),
        11 => format!("{}^{}", term(t, d, depth - 1), term(t, d, depth - 1)),
        12 => format!("{}^{}", term(t, d, depth - 1), t.choose(&["2", "-1", "0", "(1|2)", "(1|3)", "0.5", "(1|4294967296)", "(1|0)", "-2147483648", "2147483647", "1e3", "(2|3)", "ln(-1)"])),
        13 => format!("{} {} {}", expr(t, d, depth - 1), t.choose(&["mod", "and", "or", "xor", "<<", ">>", "per", "**"]), expr(t, d, depth - 1)),
        14 => format!("-{}", expr(t, d, depth - 1)),
        15 => format!("+{}", term(t, d, depth - 1)),
        16 => format!("{} %", term(t, d, depth - 1)),
        17 => format!("{} {}", expr(t, d, depth - 1), t.choose(&DEGREES)),
        18 => format!("{} of {}", t.choose(&["density", "molar_mass", "speed", "mass", "specific_heat", "foo"]), expr(t, d, depth - 1)),
        19 => format!("{} = {}", unit_name(t, d), expr(t, d, depth - 1)),
        20 => format!("{} {} {}", term(t, d, 0), t.choose(&["<<", ">>"]), t.choose(&["-1", "64", "4000", "2147483647", "2147483648", "1|2", "m", "0"])),
        21 => format!("now {} {} {}", t.choose(&["+", "-"]), number(t), t.choose(&["s", "ms", "ns", "year", "day", "century", "m", ""])),
        22 => format!("{} - {}", date(t), date(t)),
        23 => format!("{} {} {}", date(t), t.choose(&["+", "-", "*", "/"]), expr(t, d, depth - 1)),
        24 => format!("{} mod {}", expr(t, d, depth - 1), t.choose(&["0", "0 m", "3", "1|3 foot"])),
        _ => format!("({})", expr(t, d, depth - 1)),
    }
}

pub fn target(t: &mut Tape, d: &Dict) -> String {
    match t.pick(20) {
        0..=4 => expr(t, d, 1),
        5 => t.choose(&DEGREES).to_string(),
        6 => format!("{} {}", t.choose(&DEGREES), unit_name(t, d)),
        7 => match t.pick(8) {
            0 => "+05:00".to_string(),
            1 => "-23:59".to_string(),
            2 => "+25:00".to_string(),
            3 => "-99:99".to_string(),
            4 => "+5:00".to_string(),
            5 => "+005:00".to_string(),
            6 => t.choose(&["+24:00", "+99999999999999999999:00", "+005:00", "+05:99999999999999999999", "-0000000000000000000000005:00", "+5:0", "+05:000"]).to_string(),
            _ => format!("{}{:02}:{:02}", t.choose(&["+", "-"]), t.pick(100), t.pick(100)),
        },
        8 => format!("\"{}\"", t.choose(&ZONES)),
        9 => t.choose(&ZONES).to_string(),
        10 | 11 => {
            let n = 2 + t.pick(4);
            let sep = t.choose(&[";", ",", "; ", " , "]);
            (0..n).map(|_| unit_name(t, d)).collect::<Vec<_>>().join(sep)
        }
        12 | 13 => {
            let digits = match t.pick(9) {
                0 => "digits".to_string(),
                1 => format!("digits {}", t.pick(40)),
                2 => format!("digits {}", t.choose(&["0", "2147483647", "2147483648", "4294967295", "18446744073709551615", "18446744073709551616", "10000", "9999", "-1", "1.5"])),
                3 => "frac".to_string(),
                4 => "sci".to_string(),
                5 => "eng".to_string(),
                6 => "ratio".to_string(),
                7 => "scientific".to_string(),
                _ => String::new(),
            };
            let base = match t.pick(9) {
                0 => format!("base {}", 2 + t.pick(35)),
                1 => format!("base {}", t.choose(&["0", "1", "37", "256", "-2", "2.5", "99999999999999999999", "x"])),
                2 => "hex".to_string(),
                3 => "oct".to_string(),
                4 => "bin".to_string(),
                5 => "base".to_string(),
                _ => String::new(),
            };
            let rest = if t.chance(40) { expr(t, d, 1) } else { String::new() };
            format!("{} {} {}", digits, base, rest)
        }
        14 => format!("{} = {}", unit_name(t, d), expr(t, d, 1)),
        15 => String::new(),
        16 => format!("{} {}", number(t), unit_name(t, d)),
        17 => format!("0 {}", unit_name(t, d)),
        18 => format!("{} of {}", t.choose(&["density", "molar_mass", "mass"]), unit_name(t, d)),
        _ => format!("{} -> {}", unit_name(t, d), unit_name(t, d)),
    }
}

pub fn query(t: &mut Tape, d: &Dict) -> String {
    let depth = 1 + t.pick(4) as u32;
    match t.pick(20) {
        0..=6 => expr(t, d, depth),
        7..=11 => format!("{} {} {}", expr(t, d, depth.min(3)), t.choose(&["->", "to", "in", "→", "->"]), target(t, d)),
        12 => format!("factorize {}", t.choose(&["velocity", "force", "m/s", "m", "area", "acceleration", "kg m", "1", "5", "frequency", "xyzzy", "water"])),
        13 => format!("units {} {}", t.choose(&["for", "of", ""]), if t.chance(50) { d.quantities[t.pick(d.quantities.len())].clone() } else { expr(t, d, 1) }),
        14 => format!("search {}", unit_name(t, d)),
        15 => unit_name(t, d),
        16 => format!("{} {}", number(t), unit_name(t, d)),
        17 => format!("{} {} {}", date(t), t.choose(&["->", "to"]), target(t, d)),
        18 => format!("{} -> {} -> {}", expr(t, d, 1), unit_name(t, d), unit_name(t, d)),
        _ => t.choose(&["", " ", "factorize", "units", "units for", "search", "->", "-> m", "ans", "search ", "factorize factorize"]).to_string(),
    }
}

/// token soup from the dictionary
pub fn soup(t: &mut Tape, d: &Dict) -> String {
    let n = 1 + t.pick(14);
    let mut s = String::new();
    for _ in 0..n {
        match t.pick(10) {
            0 | 1 => s.push_str(t.choose(&KEYWORDS)),
            2 | 3 => s.push_str(t.choose(&OPS)),
            4 | 5 => s.push_str(&unit_name(t, d)),
            6 | 7 => s.push_str(&number(t)),
            8 => s.push_str(&date(t)),
            _ => s.push_str(t.choose(&FUNCS)),
        }
        if t.chance(70) {
            s.push(' ');
        }
    }
    s
}

/// k edits on a corpus string
pub fn mutate(t: &mut Tape, d: &Dict) -> String {
    if d.corpus.is_empty() {
        return soup(t, d);
    }
    let mut s: Vec<char> = d.corpus[t.pick(d.corpus.len())].chars().collect();
    let k = 1 + t.pick(4);
    for _ in 0..k {
        let len = s.len();
        match t.pick(9) {
            0 if len > 0 => {
                s.remove(t.pick(len));
            }
            1 => {
                let c = t.choose(&["(", ")", "-", "^", "|", "'", "\"", "#", "0", "9", "e", " ", "%", "\\", ";", "°"]);
                let p = t.pick(len + 1);
                for (i, ch) in c.chars().enumerate() {
                    s.insert(p + i, ch);
                }
            }
            2 if len > 1 => {
                let a = t.pick(len);
                let b = t.pick(len);
                s.swap(a, b);
            }
            3 => {
                let w: Vec<char> = t.choose(&KEYWORDS).chars().collect();
                let p = t.pick(len + 1);
                s.insert(p, ' ');
                for (i, ch) in w.iter().enumerate() {
                    s.insert(p + 1 + i, *ch);
                }
                s.insert(p + 1 + w.len(), ' ');
            }
            4 => {
                // splice with another corpus entry
                let o: Vec<char> = d.corpus[t.pick(d.corpus.len())].chars().collect();
                let cut = t.pick(len + 1);
                let ocut = t.pick(o.len() + 1);
                s.truncate(cut);
                s.extend_from_slice(&o[ocut..]);
            }
            5 if len > 0 => {
                let p = t.pick(len);
                let n = number(t);
                s.splice(p..p, n.chars());
            }
            6 if len > 0 => {
                s.truncate(t.pick(len));
            }
            7 if len > 0 => {
                // duplicate a slice
                let a = t.pick(len);
                let b = (a + 1 + t.pick(8)).min(len);
                let slice: Vec<char> = s[a..b].to_vec();
                let reps = 1 + t.pick(6);
                for _ in 0..reps {
                    s.splice(a..a, slice.iter().cloned());
                }
            }
            _ => {
                let p = t.pick(len + 1);
                s.insert(p, char::from_u32(0x20 + t.pick(0x2ff) as u32).unwrap_or('?'));
            }
        }
    }
    s.into_iter().take(500).collect()
}

/// shapes aimed at specific branches read in the code
pub fn shape(t: &mut Tape, d: &Dict) -> String {
    let n = 1 + t.pick(240);
    match t.pick(36) {
        35 => {
            // towers whose exponents multiply to exactly the ends of the i64 range (2^63 - 1 =
            // 7^2 * 73 * 127 * 337 * 92737 * 649657), on a unit and on an inline definition, on
            // either side of a conversion, under the commands, beside another factor
            let sets: [&[&str]; 6] = [
                &["49", "73", "127", "337", "92737", "649657"],
                &["2097152", "2097152", "2097152"],
                &["2147483648", "4294967296"],
                &["153092023", "92737", "649657"],
                &["3037000500", "3037000500"],
                &["100000"],
            ];
            let set = sets[t.pick(6)];
            let mut s = t.choose(&["m", "(x=1)", "s", "(x = 1 m)", "'apple'", "bit"]).to_string();
            let neg_at = t.pick(set.len() + 2);
            for (i, f) in set.iter().enumerate() {
                s = format!("({}^{}{})", s, if i == neg_at { "-" } else { "" }, f);
            }
            let pre = t.choose(&["", "kg ", "cd ", "A ", "1 / ", "J ", "water "]);
            match t.pick(7) {
                0 => format!("{}{}", pre, s),
                1 => format!("1 -> {}{}", pre, s),
                2 => format!("{}{} -> {}{}", pre, s, pre, s),
                3 => format!("factorize {}{}", pre, s),
                4 => format!("units for {}{}", pre, s),
                5 => format!("{}{} -> m, cm", pre, s),
                _ => format!("({}{}) {}", pre, s, t.choose(&["m", "/ m", "m^2", "s"])),
            }
        }
        32 => {
            // inline definitions inside a conversion target: their constant factor and their value
            format!(
                "{} -> {}",
                t.choose(&["1", "3 m", "2 kg", "0"]),
                t.choose(&[
                    "((x=2) - (x=5))^-1",
                    "1/((x=2)-(x=5))",
                    "(a = 3) - (b = 3)",
                    "(a = 3 m) + (b = 3 m)",
                    "1 / (y = 0)",
                    "(y = 0)^-1",
                    "(z = 2)^(w = 0)",
                    "(q = m) / (q = m) - 1",
                    "((x=2 m) - (x=2 m))^-1",
                    "(x = 2) mod (y = 0)",
                    "2 (x = 5)^-2147483648",
                ])
            )
        }
        33 => {
            // durations right at the edge of what a date can take, as exact and as float numbers
            let n = t.choose(&["9223372036854776", "9223372036854775", "9223372036854775807", "9223372036854.775807", "9223372036.854775807", "292277026596", "106751991167", "2562047788015"]);
            let f = t.choose(&["", " exp(0)", " (1 + 1e-30)", " sqrt(1)", ".0", ".5"]);
            let u = t.choose(&["s", "ms", "us", "ns", "hour", "day", "year", "min"]);
            format!("{} {} {}{} {}", t.choose(&["now", "#2020-01-01#", "#0001-01-01#", "#9999-12-31 23:59:59#"]), t.choose(&["+", "-"]), n, f, u)
        }
        34 => {
            // dimension exponents that land exactly on, or one off, the ends of the i64 range
            let a = "(m^-2147483647)^2147483647";
            let b = "m^-2147483647";
            let tail = t.choose(&["m^-2", "m^-1", "m^-3", "", "/ m^2", "/ m"]);
            let body = format!("{} {} {} {} {} {} {}", a, a, b, b, b, b, tail);
            match t.pick(4) {
                0 => body,
                1 => format!("1 / ({})", body),
                2 => format!("{} -> m", body),
                _ => format!("({})^-1", body),
            }
        }
        31 => {
            // sums of substances (elements share molar_mass) with amounts of every kind
            let el = ["hydrogen", "oxygen", "carbon", "iron", "H", "O", "Fe", "water", "NaCl", "CH4"];
            let am = ["", "2 ", "(2 m) ", "(3 s) ", "3 mol ", "2 kg ", "(1|3) ", "0 ", "-1 ", "(2 m/s) ", "1e30 "];
            let n = 2 + t.pick(3);
            (0..n).map(|_| format!("{}{}", t.choose(&am), t.choose(&el))).collect::<Vec<_>>().join(t.choose(&[" + ", " + ", " - ", " * ", " / "]))
        }
        28 => {
            // towers of integer powers on a unit: the dimension exponents multiply
            let k = 2 + t.pick(5);
            let mut s = t.choose(&["m s", "m/s", "kg m", "'apple' m", "bit / s", "m s kg", "m", "s", "kg", "bit", "1|m", "'apple'", "radian"]).to_string();
            if s.contains('/') || s.contains('|') || s.contains(' ') {
                s = format!("({})", s);
            }
            for _ in 0..k {
                s = format!("({}^{})", s, t.choose(&["2147483647", "-2147483648", "-2147483647", "1073741824", "65536", "3", "2", "-1", "49", "92737", "649657"]));
            }
            match t.pick(4) {
                0 => s,
                1 => format!("{} {} {}", s, s, s),
                2 => format!("{} -> m", s),
                _ => format!("1 / {} / {}", s, s),
            }
        }
        29 => {
            // one value multiplied / divided by itself through `ans`
            t.choose(&["ans ans", "ans * ans", "ans / (1 / ans)", "ans^2147483647", "(ans ans)^2", "1 / ans / ans"]).to_string()
        }
        30 => format!("1 -> {}", {
            let mut s = "m".to_string();
            for _ in 0..1 + t.pick(4) {
                s = format!("({}^{})", s, t.choose(&["2147483647", "4000000000", "-2147483648", "1e10", "3", "65536"]));
            }
            s
        }),
        0 => format!("{}1{}", "(".repeat(n), ")".repeat(n)),
        1 => format!("{}1", "-".repeat(n)),
        2 => (0..n.min(160)).map(|_| "2").collect::<Vec<_>>().join("^"),
        3 => format!("{}1", "+".repeat(n)),
        4 => "(".repeat(n),
        5 => format!("1{}", ")".repeat(n)),
        6 => format!("{}1", "sqrt ".repeat(n.min(90))),
        7 => format!("{}m{}", "sin(".repeat(n.min(100)), ")".repeat(n.min(100))),
        8 => (0..n.min(120)).map(|_| "m").collect::<Vec<_>>().join(" / "),
        9 => (0..n.min(120)).map(|_| "1").collect::<Vec<_>>().join("|"),
        10 => format!("1 -> {}", (0..n.min(100)).map(|_| "m").collect::<Vec<_>>().join(";")),
        11 => format!("{} %", "1 %".repeat(n.min(100))),
        12 => format!("a{}", " = a".repeat(n.min(100))),
        13 => format!("{}m", "mass of ".repeat(n.min(50))),
        14 => format!("{} m", "int ".repeat(n.min(100))),
        15 => format!("1{}", " °C".repeat(n.min(100))),
        16 => "/* ".repeat(n.min(150)),
        17 => format!("{}1", "// x\n".repeat(n.min(100))),
        18 => format!("1 -> digits {}", t.choose(&["0", "1", "100", "1000", "9999", "10000", "2147483646", "2147483647", "2147483648", "4294967295", "18446744073709551615"])),
        19 => format!("1|3 -> digits {} base {}", t.pick(50), 2 + t.pick(35)),
        20 => format!("{} -> +{:02}:{:02}", date(t), t.pick(100), t.pick(100)),
        21 => format!("{}{}", unit_name(t, d), t.choose(&["4294967295", "4294967296", "99999999999", "0", "00", "2e3"])),
        22 => format!("{} {} {}", t.choose(&["ln(-1)", "exp(1000)", "-exp(1000)", "ln(0)", "0/ln(1)", "exp(1000)/exp(1000)"]), t.choose(&["+", "-", "*", "/", "^", "mod", "<<", ">>", "and", "|", "->", " "]), t.choose(&["1", "m", "ln(-1)", "now", "#2020-01-01#", "3 m", "exp(1000)", "digits 5", "°C", "hour;min", "water"])),
        23 => format!("now {} {} {}", t.choose(&["+", "-"]), t.choose(&["ln(-1)", "exp(1000)", "1e30", "-1e30", "9.2e24 ns", "1e-30", "1|3 ns", "0.5 ms"]), t.choose(&["s", "ns", "year", ""])),
        24 => format!("{} {} {}", t.choose(&["0 m", "0", "0 s", "-0"]), t.choose(&["->", "mod", "/", "|", "^"]), t.choose(&["0 m", "0", "m;cm", "0 m;0 cm", "-1", "hour;min;sec"])),
        25 => t.choose(&["ans", "ans + 1", "_ m", "ANS -> m", "ans ans", "-ans", "ans^ans"]).to_string(),
        26 => format!("{}{}", "\u{2212}".repeat(n.min(100)), "1"),
        _ => format!("\"{}", "\\".repeat(n)),
    }
}
