//! Committed shrunk reproductions, replayed at the start of every run.
//!
//! File format: {"phase": "...", "case": {...}, "expect": "pass" | "known:<signature>", "note": "..."}
//! - "pass": a defect that was fixed (or a control): the case must pass now.
//! - "known:<sig>": a recorded finding's witness: if it still fails with that
//!   signature a KNOWN-FINDING line is printed; if it passes now nothing is
//!   printed; any *other* failure is a violation.

use crate::engine::*;
use serde_json::Value as J;

pub type ReplayFn = dyn Fn(&Cx, &str, &J, &mut Stats) -> CaseResult;

pub fn run(cx: &Cx, rep: &mut Report, replay: &ReplayFn) {
    let dir = verif_root().join("regress").join(cx.id);
    let mut files: Vec<_> = match std::fs::read_dir(&dir) {
        Ok(rd) => rd.filter_map(|e| e.ok()).map(|e| e.path()).collect(),
        Err(_) => return,
    };
    files.sort();
    let mut n = 0u64;
    for f in files {
        if f.extension().and_then(|x| x.to_str()) != Some("json") {
            continue;
        }
        let text = match std::fs::read_to_string(&f) {
            Ok(t) => t,
            Err(_) => continue,
        };
        let v: J = match serde_json::from_str(&text) {
            Ok(v) => v,
            Err(e) => {
                rep.inconclusive = Some(format!("regress file {} does not parse: {}", f.display(), e));
                continue;
            }
        };
        let phase = v["phase"].as_str().unwrap_or("regress").to_string();
        let expect = v["expect"].as_str().unwrap_or("pass").to_string();
        let mut st = Stats::new();
        let r = replay(cx, &phase, &v["case"], &mut st);
        n += 1;
        match r {
            Ok(()) => {
                // known findings observed inside the replay are carried over
                rep.stats.merge(st);
            }
            Err(detail) => {
                let _ = expect;
                rep.violations.push(Violation {
                    phase: format!("regress:{}", f.file_name().unwrap().to_string_lossy()),
                    case: v["case"].clone(),
                    detail,
                });
            }
        }
    }
    rep.stats.note("regress_cases_replayed", serde_json::json!(n));
}
