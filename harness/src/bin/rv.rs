use rv::engine::*;
use rv::props;
use serde_json::Value as J;
use std::sync::atomic::AtomicBool;
use std::sync::Arc;
use std::time::Instant;

type RunFn = fn(&Cx) -> Report;
type ReplayFn = fn(&Cx, &str, &J, &mut Stats) -> CaseResult;

fn table() -> Vec<(&'static str, RunFn, ReplayFn)> {
    vec![
        ("C01", props::c01::run as RunFn, props::c01::replay as ReplayFn),
        ("C02", props::c02::run as RunFn, props::c02::replay as ReplayFn),
        ("C03", props::c03::run as RunFn, props::c03::replay as ReplayFn),
        ("C04", props::c04::run as RunFn, props::c04::replay as ReplayFn),
        ("C05", props::c05::run as RunFn, props::c05::replay as ReplayFn),
        ("C06", props::c06::run as RunFn, props::c06::replay as ReplayFn),
        ("C07", props::c07::run as RunFn, props::c07::replay as ReplayFn),
        ("C08", props::c08::run as RunFn, props::c08::replay as ReplayFn),
        ("C09", props::c09::run as RunFn, props::c09::replay as ReplayFn),
        ("C10", props::c10::run as RunFn, props::c10::replay as ReplayFn),
        ("C11", props::c11::run as RunFn, props::c11::replay as ReplayFn),
        ("C12", props::c12::run as RunFn, props::c12::replay as ReplayFn),
        ("C13", props::c13::run as RunFn, props::c13::replay as ReplayFn),
        ("C14", props::c14::run as RunFn, props::c14::replay as ReplayFn),
        ("C15", props::c15::run as RunFn, props::c15::replay as ReplayFn),
        ("C16", props::c16::run as RunFn, props::c16::replay as ReplayFn),
        ("C17", props::c17::run as RunFn, props::c17::replay as ReplayFn),
        #[cfg(feature = "sandbox")]
        ("C18", props::c18::run as RunFn, props::c18::replay as ReplayFn),
        #[cfg(feature = "sandbox")]
        ("C19", props::c19::run as RunFn, props::c19::replay as ReplayFn),
        ("C20", props::c20::run as RunFn, props::c20::replay as ReplayFn),
    ]
}

fn usage() -> ! {
    eprintln!("usage: rv <ID> [--tier quick|thorough] [--seed N] [--threads N] [--replay FILE]");
    std::process::exit(2)
}

fn main() {
    let args: Vec<String> = std::env::args().skip(1).collect();
    if args.is_empty() {
        usage();
    }
    if args[0] == "--worker" {
        rv::worker::worker_main();
    }
    if args[0] == "--dump-corpus" {
        // rv --dump-corpus <query|defs> <dir>: seed corpus and dictionary for the libFuzzer campaigns
        let target = args.get(1).map(|s| s.as_str()).unwrap_or("query");
        let dir = std::path::PathBuf::from(args.get(2).cloned().unwrap_or_else(|| "corpus".into()));
        std::fs::create_dir_all(&dir).expect("corpus dir");
        let mut n = 0;
        let mut put = |text: &str| {
            let name = format!("seed-{:016x}", rv::engine::hash_of(text));
            let _ = std::fs::write(dir.join(name), text);
            n += 1;
        };
        let mut dict: Vec<String> = vec![];
        if target == "query" {
            for q in rv::gen::query::corpus_from_repo() {
                if q.chars().count() <= 300 {
                    put(&q);
                }
            }
            for k in rv::gen::query::KEYWORDS.iter().chain(rv::gen::query::OPS.iter()).chain(rv::gen::query::FUNCS.iter()).chain(rv::gen::query::DEGREES.iter()) {
                dict.push(k.to_string());
            }
            for w in ["#2020-01-01#", "\\u", "1e", "0x", "0b", "0o", "digits 5", "base 16", "+05:00", "US/Pacific", "water", "H2O", "meter", "foot", "kg", "hour;min;sec"] {
                dict.push(w.to_string());
            }
        } else {
            let defs = rink_core::DEFAULT_FILE.unwrap_or("");
            let lines: Vec<&str> = defs.lines().collect();
            for chunk in lines.chunks(40).step_by(9) {
                put(&chunk.join("\n"));
            }
            put(rink_core::CURRENCY_FILE.unwrap_or(""));
            put(rink_core::DATES_FILE.unwrap_or(""));
            if let Ok(js) = std::fs::read_to_string("/repo/core/tests/currency.snapshot.json") {
                put(&js);
            }
            put("ba !\nu0 3 ba\nk- 1000\nkk-- k\nq0 ? ba\nsub0 {\n  p const i 3 u0\n  d o 2 u0 / j 1 ba\n}\n!category c \"C\"\n?? doc\nu1 2 ku0\n!endcategory\n");
            for w in ["!category", "!endcategory", "!symbol", "??", "const", "{", "}", "--", "-", "!", "?", "|", "^", "\\\n", "[\n{\"name\":\"X\",\"type\":\"unit\",\"expr\":\"1\"}]"] {
                dict.push(w.to_string());
            }
        }
        let mut d = String::new();
        for w in dict {
            let esc: String = w.bytes().map(|b| if b.is_ascii_graphic() && b != b'"' && b != b'\\' { (b as char).to_string() } else { format!("\\x{:02x}", b) }).collect();
            d.push_str(&format!("\"{}\"\n", esc));
        }
        let _ = std::fs::write(dir.with_extension("dict"), d);
        println!("wrote {} corpus files to {}", n, dir.display());
        return;
    }
    let id = args[0].clone();
    let mut tier = match std::env::var("VERIF_TIER").ok().as_deref() {
        Some("thorough") => Tier::Thorough,
        _ => Tier::Quick,
    };
    let mut seed: u64 = std::env::var("VERIF_SEED")
        .ok()
        .and_then(|s| s.trim().parse::<i128>().ok())
        .map(|v| v as u64)
        .unwrap_or(0);
    let mut threads: usize = std::thread::available_parallelism().map(|n| n.get()).unwrap_or(8).min(16);
    let mut replay: Option<String> = None;
    let mut i = 1;
    while i < args.len() {
        match args[i].as_str() {
            "--tier" => {
                i += 1;
                tier = match args.get(i).map(|s| s.as_str()) {
                    Some("quick") => Tier::Quick,
                    Some("thorough") => Tier::Thorough,
                    _ => usage(),
                };
            }
            "--seed" => {
                i += 1;
                seed = args.get(i).and_then(|s| s.parse().ok()).unwrap_or_else(|| usage());
            }
            "--threads" => {
                i += 1;
                threads = args.get(i).and_then(|s| s.parse().ok()).unwrap_or_else(|| usage());
            }
            "--replay" => {
                i += 1;
                replay = Some(args.get(i).cloned().unwrap_or_else(|| usage()));
            }
            _ => usage(),
        }
        i += 1;
    }
    let entry = table().into_iter().find(|(n, _, _)| *n == id);
    let (name, run, replay_fn) = match entry {
        Some(e) => e,
        None => {
            eprintln!("unknown property {}", id);
            std::process::exit(2);
        }
    };
    install_panic_hook();
    // a runaway computation must not take the sandbox down: cap the address space
    unsafe {
        let lim = libc::rlimit {
            rlim_cur: 28 << 30,
            rlim_max: 28 << 30,
        };
        libc::setrlimit(libc::RLIMIT_AS, &lim);
    }
    let kf = KnownFindings::load();
    let cx = Cx {
        id: name,
        tier,
        seed,
        threads,
        known: kf.known_for(name),
        stop: Arc::new(AtomicBool::new(false)),
        start: Instant::now(),
    };
    if let Some(path) = replay {
        let text = std::fs::read_to_string(&path).unwrap_or_else(|e| {
            eprintln!("cannot read {}: {}", path, e);
            std::process::exit(2)
        });
        let v: J = serde_json::from_str(&text).unwrap_or_else(|e| {
            eprintln!("cannot parse {}: {}", path, e);
            std::process::exit(2)
        });
        if v["case"].get("preflight").is_some() {
            match rv::rinkx::try_new_ctx() {
                Ok(_) => {
                    println!("REPLAY-PASS property={} file={}", name, path);
                    std::process::exit(0);
                }
                Err(p) => {
                    println!("VIOLATION property={} replay={}", name, path);
                    println!("  detail: loading the bundled definitions panicked: {}", p);
                    std::process::exit(1);
                }
            }
        }
        let mut st = Stats::new();
        let phase = v["phase"].as_str().unwrap_or("replay").to_string();
        match replay_fn(&cx, &phase, &v["case"], &mut st) {
            Ok(()) => {
                for (sig, (_n, ex)) in &st.known {
                    println!("KNOWN-FINDING: property={} {} [{}; e.g. {}]", name, kf.what(name, sig), sig, ex);
                }
                println!("REPLAY-PASS property={} file={}", name, path);
                std::process::exit(0);
            }
            Err(d) => {
                println!("VIOLATION property={} replay={}", name, path);
                println!("  detail: {}", d);
                std::process::exit(1);
            }
        }
    }
    // preflight: every property but the two sandbox ones works on a loaded context
    if name != "C18" && name != "C19" {
        if let Err(p) = rv::rinkx::try_new_ctx() {
            let v = Violation {
                phase: "preflight".into(),
                case: serde_json::json!({"preflight": "load the bundled definitions"}),
                detail: format!(
                    "[{}] loading the bundled definitions panicked, so no query can be answered at all: {}",
                    panic_signature(&p),
                    p
                ),
            };
            let path = write_replay(&cx, &v);
            println!("VIOLATION property={} replay={}", name, path.display());
            println!("  phase=preflight detail: {}", v.detail);
            std::process::exit(1);
        }
    }
    let rep = run(&cx);
    // a failure of the reporting code itself must not turn a found violation into "inconclusive"
    let code = match std::panic::catch_unwind(std::panic::AssertUnwindSafe(|| finish(&cx, &kf, &rep))) {
        Ok(code) => code,
        Err(_) => {
            if rep.violations.is_empty() {
                2
            } else {
                for v in &rep.violations {
                    let p = write_replay(&cx, v);
                    println!("VIOLATION property={} replay={}", name, p.display());
                }
                1
            }
        }
    };
    std::process::exit(code);
}
