//! Sandbox driver + child for C18 (stub).
fn main() {}
