//! Sandbox driver + child for C18.
//!
//! One binary, two roles:
//! * `rv-sbx --child`  : the sandboxed service (`rink_sandbox::become_child`).
//! * `rv-sbx drive`    : reads ONE scenario (JSON) from stdin, creates ONE
//!   `Sandbox::<TestService>`, executes the requests in order on one thread and
//!   prints one JSON line per request on stdout (nothing else goes to stdout).
//!
//! The request/response/scenario types live in `rv::props::c18` so that the
//! check and this binary cannot disagree about the format.

use rink_sandbox::{Alloc, Error, Sandbox, Service};
use rv::props::c18::{fnv64, payload_for, Kind, Obs, Scenario, SvcConfig, WireReq, WireRes};
use std::ffi::OsString;
use std::io::{Error as IoError, Read, Write};
use std::path::PathBuf;
use std::time::{Duration, Instant};

#[global_allocator]
static GLOBAL: Alloc = Alloc::new(usize::MAX);

/// outer cap per `execute`: a missing reply becomes an observation
const NO_REPLY_CAP: Duration = Duration::from_secs(30);

struct TestService {
    born_ns: u64,
}

impl Service for TestService {
    type Req = WireReq;
    type Res = WireRes;
    type Config = SvcConfig;

    fn program() -> Option<PathBuf> {
        std::env::current_exe().ok()
    }

    fn args(_config: &Self::Config) -> Vec<OsString> {
        vec!["--child".into()]
    }

    fn timeout(config: &Self::Config) -> Duration {
        Duration::from_millis(config.timeout_ms)
    }

    fn create(config: Self::Config) -> Result<Self, IoError> {
        let limit = if config.limit_bytes > usize::MAX as u64 {
            usize::MAX
        } else {
            config.limit_bytes as usize
        };
        GLOBAL.set_limit(limit);
        let born_ns = std::time::SystemTime::now()
            .duration_since(std::time::UNIX_EPOCH)
            .map(|d| d.as_nanos() as u64)
            .unwrap_or(0);
        Ok(TestService { born_ns })
    }

    fn handle(&self, req: Self::Req) -> Self::Res {
        let mut res = WireRes {
            echo_id: req.id,
            pid: std::process::id(),
            born_ns: self.born_ns,
            value: 0,
            payload: vec![],
        };
        match req.kind {
            Kind::Add { a, b } => res.value = a.wrapping_add(b) as u64,
            Kind::Panic { msg } => panic!("{}", msg),
            Kind::Sleep { ms } => {
                std::thread::sleep(Duration::from_millis(ms));
                res.value = ms;
            }
            Kind::Alloc { bytes } => {
                // refused by the limiting allocator => handle_alloc_error => abort
                let mut v: Vec<u8> = vec![0u8; bytes as usize];
                let mut i = 0usize;
                while i < v.len() {
                    v[i] = (i >> 12) as u8 | 1;
                    i += 4096;
                }
                let v = std::hint::black_box(v);
                res.value = v.len() as u64;
            }
            Kind::Exit { code } => std::process::exit(code),
            Kind::ExitLater { ms } => {
                std::thread::spawn(move || {
                    std::thread::sleep(Duration::from_millis(ms));
                    std::process::exit(7);
                });
                res.value = ms;
            }
            Kind::Large { n: _ } => {
                res.value = fnv64(&req.payload);
                let mut back = req.payload;
                back.reverse();
                res.payload = back;
            }
        }
        res
    }
}

fn no_core_dumps() {
    unsafe {
        let lim = libc::rlimit {
            rlim_cur: 0,
            rlim_max: 0,
        };
        libc::setrlimit(libc::RLIMIT_CORE, &lim);
    }
}

fn emit(o: &Obs) {
    let out = std::io::stdout();
    let mut out = out.lock();
    let _ = writeln!(out, "{}", serde_json::to_string(o).unwrap());
    let _ = out.flush();
}

fn drive() -> i32 {
    let mut text = String::new();
    if std::io::stdin().read_to_string(&mut text).is_err() {
        eprintln!("rv-sbx: cannot read the scenario from stdin");
        return 3;
    }
    let sc: Scenario = match serde_json::from_str(&text) {
        Ok(s) => s,
        Err(e) => {
            eprintln!("rv-sbx: bad scenario: {}", e);
            return 3;
        }
    };
    let cfg = SvcConfig {
        limit_bytes: sc.limit_bytes,
        timeout_ms: sc.timeout_ms,
    };
    async_std::task::block_on(async move {
        let sandbox = match Sandbox::<TestService>::new(cfg).await {
            Ok(s) => s,
            Err(e) => {
                eprintln!("rv-sbx: Sandbox::new failed: {}", e);
                return 4;
            }
        };
        for (i, step) in sc.steps.iter().enumerate() {
            if step.gap_ms > 0 {
                async_std::task::sleep(Duration::from_millis(step.gap_ms)).await;
            }
            let wire = WireReq {
                id: step.req.id,
                kind: step.req.kind.clone(),
                payload: match step.req.kind {
                    Kind::Large { n } => payload_for(step.req.id, n),
                    _ => vec![],
                },
            };
            let t0 = Instant::now();
            let r = async_std::future::timeout(NO_REPLY_CAP, sandbox.execute(wire)).await;
            let elapsed_ms = t0.elapsed().as_millis() as u64;
            let mut o = Obs {
                i,
                outcome: String::new(),
                detail: None,
                value: None,
                echo_id: None,
                child_pid: None,
                born_ns: None,
                resp_len: None,
                resp_sum: None,
                memory_used: None,
                elapsed_ms,
            };
            match r {
                Err(_) => {
                    // The request may have been handed over already; a later
                    // `execute` on this Sandbox could pick up its reply, which
                    // would be an artefact of this driver. Stop here.
                    o.outcome = "no-reply".into();
                    emit(&o);
                    return 0;
                }
                Ok(Ok(resp)) => {
                    o.outcome = "ok".into();
                    o.value = Some(resp.result.value);
                    o.echo_id = Some(resp.result.echo_id);
                    o.child_pid = Some(resp.result.pid);
                    o.born_ns = Some(resp.result.born_ns);
                    o.resp_len = Some(resp.result.payload.len() as u64);
                    o.resp_sum = Some(fnv64(&resp.result.payload));
                    o.memory_used = Some(resp.memory_used as u64);
                }
                Ok(Err(e)) => {
                    let text = e.to_string();
                    o.outcome = match &e {
                        Error::Panic(_) => "panic".to_string(),
                        Error::Timeout(_) => "timeout".to_string(),
                        Error::Crashed => "crashed".to_string(),
                        _ => format!("other:{}", text),
                    };
                    o.detail = Some(match &e {
                        // keep the whole panic report (it must contain the message)
                        Error::Panic(m) => m.clone(),
                        other => format!("{} ({:?})", text, other),
                    });
                }
            }
            emit(&o);
        }
        0
    })
}

fn main() {
    no_core_dumps();
    let args: Vec<String> = std::env::args().collect();
    match args.get(1).map(|s| s.as_str()) {
        Some("--child") => rink_sandbox::become_child::<TestService, _>(&GLOBAL),
        Some("drive") => {
            let mut rc = drive();
            // Children are started from this very file. If it was replaced or removed while
            // the scenario ran (a concurrent rebuild), respawns failed for a reason that has
            // nothing to do with the sandbox: tell the check to discard this run.
            let exe_ok = std::env::current_exe().map(|p| p.is_file()).unwrap_or(false);
            if rc == 0 && !exe_ok {
                eprintln!("rv-sbx: the executable was replaced during the run");
                rc = 5;
            }
            // do not wait for anything else (zombie children are reaped by init)
            std::process::exit(rc);
        }
        _ => {
            eprintln!("usage: rv-sbx drive < scenario.json   (or --child, used internally)");
            std::process::exit(2);
        }
    }
}
