//! Fault-injecting HTTP server for C20 (stub).
fn main() {}
