//! Fault-injecting HTTP/1.1 server for C20 (std::net + libc only).
//!
//!     rv-httpd <script.json>
//!
//! Binds 127.0.0.1:0, prints the chosen port on the first stdout line, then
//! applies the script to every accepted connection (one thread each).
//!
//! Script (JSON object):
//!   "status":    HTTP status (default 200)
//!   "body_file": path of the body to serve (default: empty body)
//!   "log":       path of the request log (default: stderr). One line per event:
//!                  "REQ <request line>"        request head fully read
//!                  "SENT <n>"                  n body bytes written, now stalling / closing
//!                  "DONE"                      response finished as scripted
//!   "mode":      one of
//!       "complete"              headers (honest Content-Length) + whole body
//!       "chunked_complete"      Transfer-Encoding: chunked, whole body + terminator
//!       "cut_after"             Content-Length = full length, "k" body bytes, then close
//!       "chunked_cut_after"     chunked, cut after "k" body bytes (mid-chunk, no terminator)
//!       "close_delimited_cut"   no Content-Length and no chunking (the body ends where the connection
//!                               does): "k" body bytes, then an orderly close - nothing on the wire
//!                               tells the client that the body is short
//!       "header_cut"            only the first "k" bytes of the header block, then close
//!       "stall_before_headers"  read the request, send nothing, wait for the client to go away
//!       "stall_mid_body"        headers + "k" body bytes, then wait for the client to go away
//!       "status_only"           status line + headers + body_file (if any), Content-Length honest
//!   "k":         byte count for the modes above
//!   "close":     "fin" (default) | "rst" (SO_LINGER 0 => RST) for the cut modes
//!   "location":  value of a Location header (3xx)
//!   "stall_cap_ms": upper bound for a stall (default 15000)
//!
//! In every mode but "close_delimited_cut" a truncated body is detectable by the client from
//! the framing (Content-Length or chunked).

use serde_json::Value as J;
use std::io::{Read, Write};
use std::net::{TcpListener, TcpStream};
use std::os::unix::io::AsRawFd;
use std::sync::{Arc, Mutex};
use std::time::{Duration, Instant};

struct Script {
    status: u16,
    body: Vec<u8>,
    mode: String,
    k: usize,
    rst: bool,
    location: Option<String>,
    stall_cap: Duration,
    log: Mutex<Option<std::fs::File>>,
}

impl Script {
    fn log(&self, line: &str) {
        let mut g = self.log.lock().unwrap();
        match g.as_mut() {
            Some(f) => {
                let _ = writeln!(f, "{}", line);
                let _ = f.flush();
            }
            None => eprintln!("{}", line),
        }
    }
}

fn reason(status: u16) -> &'static str {
    match status {
        200 => "OK",
        204 => "No Content",
        301 => "Moved Permanently",
        302 => "Found",
        304 => "Not Modified",
        400 => "Bad Request",
        403 => "Forbidden",
        404 => "Not Found",
        429 => "Too Many Requests",
        500 => "Internal Server Error",
        502 => "Bad Gateway",
        503 => "Service Unavailable",
        _ => "Status",
    }
}

/// read until the blank line ending the request head; returns the request line
fn read_request(s: &mut TcpStream) -> Option<String> {
    let mut buf = Vec::new();
    let mut tmp = [0u8; 1024];
    let _ = s.set_read_timeout(Some(Duration::from_secs(15)));
    loop {
        match s.read(&mut tmp) {
            Ok(0) => return None,
            Ok(n) => {
                buf.extend_from_slice(&tmp[..n]);
                if buf.windows(4).any(|w| w == b"\r\n\r\n") {
                    break;
                }
                if buf.len() > 65536 {
                    return None;
                }
            }
            Err(_) => return None,
        }
    }
    let text = String::from_utf8_lossy(&buf);
    Some(text.lines().next().unwrap_or("").to_string())
}

/// block until the peer closes / resets or the cap expires
fn wait_for_peer(s: &mut TcpStream, cap: Duration) {
    let end = Instant::now() + cap;
    let _ = s.set_read_timeout(Some(Duration::from_millis(100)));
    let mut tmp = [0u8; 256];
    while Instant::now() < end {
        match s.read(&mut tmp) {
            Ok(0) => return,
            Ok(_) => {}
            Err(e)
                if e.kind() == std::io::ErrorKind::WouldBlock
                    || e.kind() == std::io::ErrorKind::TimedOut => {}
            Err(_) => return,
        }
    }
}

fn close_with(s: TcpStream, rst: bool) {
    if rst {
        let l = libc::linger {
            l_onoff: 1,
            l_linger: 0,
        };
        unsafe {
            libc::setsockopt(
                s.as_raw_fd(),
                libc::SOL_SOCKET,
                libc::SO_LINGER,
                &l as *const _ as *const libc::c_void,
                std::mem::size_of::<libc::linger>() as libc::socklen_t,
            );
        }
        drop(s); // close() with linger 0 => RST
    } else {
        let _ = s.shutdown(std::net::Shutdown::Write);
        drop(s);
    }
}

/// write in pieces so that the client sees several reads
fn write_paced(s: &mut TcpStream, data: &[u8]) -> std::io::Result<()> {
    for piece in data.chunks(8192) {
        s.write_all(piece)?;
        s.flush()?;
    }
    Ok(())
}

fn head(sc: &Script, framing: &str) -> Vec<u8> {
    let mut h = format!("HTTP/1.1 {} {}\r\n", sc.status, reason(sc.status));
    h.push_str("Server: rv-httpd\r\n");
    h.push_str("Content-Type: application/json\r\n");
    if let Some(l) = &sc.location {
        h.push_str(&format!("Location: {}\r\n", l));
    }
    h.push_str(framing);
    h.push_str("Connection: close\r\n\r\n");
    h.into_bytes()
}

fn chunked(body: &[u8], upto: usize, terminate: bool) -> Vec<u8> {
    // chunks of 4096 bytes; the encoding of the first `upto` body bytes, cut
    // in the middle of a chunk when `upto` is not a chunk boundary
    let mut out = Vec::new();
    let mut sent = 0usize;
    for chunk in body.chunks(4096) {
        if sent >= upto && !terminate {
            break;
        }
        out.extend_from_slice(format!("{:x}\r\n", chunk.len()).as_bytes());
        let take = if terminate { chunk.len() } else { chunk.len().min(upto - sent) };
        out.extend_from_slice(&chunk[..take]);
        sent += take;
        if take < chunk.len() {
            return out; // cut mid-chunk
        }
        out.extend_from_slice(b"\r\n");
    }
    if terminate {
        out.extend_from_slice(b"0\r\n\r\n");
    }
    out
}

fn serve(sc: &Script, mut s: TcpStream) {
    let _ = s.set_nodelay(true);
    let req = match read_request(&mut s) {
        Some(r) => r,
        None => {
            sc.log("REQ <incomplete>");
            return;
        }
    };
    sc.log(&format!("REQ {}", req));
    let len = sc.body.len();
    let cl = format!("Content-Length: {}\r\n", len);
    let te = "Transfer-Encoding: chunked\r\n";
    let k = sc.k.min(len);
    match sc.mode.as_str() {
        "complete" | "status_only" => {
            let _ = s.write_all(&head(sc, &cl));
            let _ = write_paced(&mut s, &sc.body);
            sc.log("DONE");
            // let the client read everything before the socket goes away
            let _ = s.shutdown(std::net::Shutdown::Write);
            wait_for_peer(&mut s, Duration::from_secs(5));
        }
        "chunked_complete" => {
            let _ = s.write_all(&head(sc, te));
            let _ = write_paced(&mut s, &chunked(&sc.body, len, true));
            sc.log("DONE");
            let _ = s.shutdown(std::net::Shutdown::Write);
            wait_for_peer(&mut s, Duration::from_secs(5));
        }
        "cut_after" => {
            let _ = s.write_all(&head(sc, &cl));
            let _ = write_paced(&mut s, &sc.body[..k]);
            sc.log(&format!("SENT {}", k));
            close_with(s, sc.rst);
            sc.log("DONE");
        }
        "close_delimited_cut" => {
            let _ = s.write_all(&head(sc, ""));
            let _ = write_paced(&mut s, &sc.body[..k]);
            sc.log(&format!("SENT {}", k));
            close_with(s, false);
            sc.log("DONE");
        }
        "chunked_cut_after" => {
            let _ = s.write_all(&head(sc, te));
            let _ = write_paced(&mut s, &chunked(&sc.body, k, false));
            sc.log(&format!("SENT {}", k));
            close_with(s, sc.rst);
            sc.log("DONE");
        }
        "header_cut" => {
            let h = head(sc, &cl);
            let n = sc.k.min(h.len().saturating_sub(1));
            let _ = s.write_all(&h[..n]);
            sc.log("SENT 0");
            close_with(s, sc.rst);
            sc.log("DONE");
        }
        "stall_before_headers" => {
            sc.log("SENT 0");
            wait_for_peer(&mut s, sc.stall_cap);
            sc.log("DONE");
        }
        "stall_mid_body" => {
            let _ = s.write_all(&head(sc, &cl));
            let _ = write_paced(&mut s, &sc.body[..k]);
            sc.log(&format!("SENT {}", k));
            wait_for_peer(&mut s, sc.stall_cap);
            sc.log("DONE");
        }
        other => {
            sc.log(&format!("ERR unknown mode {}", other));
        }
    }
}

fn main() {
    // never outlive the harness
    unsafe {
        libc::prctl(libc::PR_SET_PDEATHSIG, libc::SIGKILL);
    }
    let path = match std::env::args().nth(1) {
        Some(p) => p,
        None => {
            eprintln!("usage: rv-httpd <script.json>");
            std::process::exit(2);
        }
    };
    let text = std::fs::read_to_string(&path).unwrap_or_else(|e| {
        eprintln!("rv-httpd: cannot read {}: {}", path, e);
        std::process::exit(2);
    });
    let v: J = serde_json::from_str(&text).unwrap_or_else(|e| {
        eprintln!("rv-httpd: bad script: {}", e);
        std::process::exit(2);
    });
    let body = match v["body_file"].as_str() {
        Some(p) => std::fs::read(p).unwrap_or_else(|e| {
            eprintln!("rv-httpd: cannot read body {}: {}", p, e);
            std::process::exit(2);
        }),
        None => Vec::new(),
    };
    let log = v["log"].as_str().map(|p| {
        std::fs::OpenOptions::new()
            .create(true)
            .append(true)
            .open(p)
            .unwrap_or_else(|e| {
                eprintln!("rv-httpd: cannot open log {}: {}", p, e);
                std::process::exit(2);
            })
    });
    let sc = Arc::new(Script {
        status: v["status"].as_u64().unwrap_or(200) as u16,
        body,
        mode: v["mode"].as_str().unwrap_or("complete").to_string(),
        k: v["k"].as_u64().unwrap_or(0) as usize,
        rst: v["close"].as_str() == Some("rst"),
        location: v["location"].as_str().map(|s| s.to_string()),
        stall_cap: Duration::from_millis(v["stall_cap_ms"].as_u64().unwrap_or(15_000)),
        log: Mutex::new(log),
    });
    let listener = TcpListener::bind("127.0.0.1:0").unwrap_or_else(|e| {
        eprintln!("rv-httpd: bind: {}", e);
        std::process::exit(2);
    });
    let port = listener.local_addr().map(|a| a.port()).unwrap_or(0);
    {
        let out = std::io::stdout();
        let mut out = out.lock();
        let _ = writeln!(out, "{}", port);
        let _ = out.flush();
    }
    for conn in listener.incoming() {
        match conn {
            Ok(s) => {
                let sc = sc.clone();
                std::thread::spawn(move || serve(&sc, s));
            }
            Err(_) => {}
        }
    }
}
