//! Shared machinery: seeded proptest runners, parallel shards, statistics,
//! evidence files, replay files, known-findings handling.

use proptest::strategy::Strategy;
use proptest::test_runner::{Config, RngAlgorithm, TestCaseError, TestError, TestRng, TestRunner};
use serde_json::{json, Value as J};
use std::cell::RefCell;
use std::collections::{BTreeMap, BTreeSet, HashSet};
use std::hash::{Hash, Hasher};
use std::path::{Path, PathBuf};
use std::sync::atomic::{AtomicBool, Ordering};
use std::sync::{Arc, Mutex};
use std::time::{Duration, Instant};

#[derive(Clone, Copy, PartialEq, Eq, Debug)]
pub enum Tier {
    Quick,
    Thorough,
}

impl Tier {
    pub fn name(self) -> &'static str {
        match self {
            Tier::Quick => "quick",
            Tier::Thorough => "thorough",
        }
    }
    /// pick by tier
    pub fn pick<T>(self, quick: T, thorough: T) -> T {
        match self {
            Tier::Quick => quick,
            Tier::Thorough => thorough,
        }
    }
}

pub fn verif_root() -> PathBuf {
    if let Ok(p) = std::env::var("VERIF_ROOT") {
        return PathBuf::from(p);
    }
    // the binary lives in <root>/harness/target/release/rv
    let exe = std::env::current_exe().expect("current_exe");
    let mut p = exe.as_path();
    for _ in 0..4 {
        p = p.parent().unwrap_or(Path::new("/verif"));
    }
    if p.join("properties.jsonl").exists() {
        p.to_path_buf()
    } else {
        PathBuf::from("/verif")
    }
}

/// per-run cap on proptest shrink iterations (properties whose cases are
/// expensive to re-run lower it before calling par_proptest)
pub static MAX_SHRINK_ITERS: std::sync::atomic::AtomicU32 = std::sync::atomic::AtomicU32::new(4000);

pub fn hash_of<T: Hash + ?Sized>(t: &T) -> u64 {
    let mut h = Fnv(0xcbf29ce484222325);
    t.hash(&mut h);
    h.finish()
}

/// FNV-1a: deterministic across runs and platforms (std's SipHash keys are
/// fixed too, but this keeps the dependence explicit).
pub struct Fnv(pub u64);
impl Hasher for Fnv {
    fn finish(&self) -> u64 {
        self.0
    }
    fn write(&mut self, bytes: &[u8]) {
        for b in bytes {
            self.0 ^= *b as u64;
            self.0 = self.0.wrapping_mul(0x100000001b3);
        }
    }
}

pub fn mix_seed(seed: u64, prop: &str, phase: &str, shard: u64) -> [u8; 32] {
    let mut out = [0u8; 32];
    for i in 0..4u64 {
        let h = hash_of(&(seed, prop, phase, shard, i));
        out[(i as usize) * 8..(i as usize + 1) * 8].copy_from_slice(&h.to_le_bytes());
    }
    out
}

// ---------------------------------------------------------------------------
// Statistics
// ---------------------------------------------------------------------------

#[derive(Default, Clone)]
pub struct Stats {
    pub evaluations: u64,
    pub nontrivial: HashSet<u64>,
    pub classes: BTreeMap<String, u64>,
    pub excluded: BTreeMap<String, u64>,
    pub samples: Vec<J>,
    pub nontrivial_samples: Vec<J>,
    pub known: BTreeMap<String, (u64, String)>,
    pub notes: BTreeMap<String, J>,
    pub frozen: bool,
    pub sample_cap: usize,
}

impl Stats {
    pub fn new() -> Stats {
        Stats {
            sample_cap: 6,
            ..Default::default()
        }
    }
    pub fn eval(&mut self) {
        if !self.frozen {
            self.evaluations += 1;
        }
    }
    pub fn evals(&mut self, n: u64) {
        if !self.frozen {
            self.evaluations += n;
        }
    }
    /// record a distinct non-trivial case by key
    pub fn nontrivial<T: Hash + ?Sized>(&mut self, key: &T) {
        if !self.frozen {
            self.nontrivial.insert(hash_of(key));
        }
    }
    pub fn class(&mut self, name: &str) {
        if !self.frozen {
            *self.classes.entry(name.to_string()).or_insert(0) += 1;
        }
    }
    pub fn class_n(&mut self, name: &str, n: u64) {
        if !self.frozen {
            *self.classes.entry(name.to_string()).or_insert(0) += n;
        }
    }
    pub fn excluded(&mut self, why: &str) {
        if !self.frozen {
            *self.excluded.entry(why.to_string()).or_insert(0) += 1;
        }
    }
    pub fn sample(&mut self, f: impl FnOnce() -> J) {
        if !self.frozen && self.samples.len() < self.sample_cap {
            self.samples.push(f());
        }
    }
    pub fn nt_sample(&mut self, f: impl FnOnce() -> J) {
        if !self.frozen && self.nontrivial_samples.len() < self.sample_cap {
            self.nontrivial_samples.push(f());
        }
    }
    /// A known finding was re-observed.
    pub fn known(&mut self, sig: &str, example: &str) {
        if self.frozen {
            return;
        }
        let e = self
            .known
            .entry(sig.to_string())
            .or_insert((0, example.to_string()));
        e.0 += 1;
    }
    pub fn note(&mut self, k: &str, v: J) {
        self.notes.insert(k.to_string(), v);
    }
    pub fn merge(&mut self, o: Stats) {
        self.evaluations += o.evaluations;
        self.nontrivial.extend(o.nontrivial);
        for (k, v) in o.classes {
            *self.classes.entry(k).or_insert(0) += v;
        }
        for (k, v) in o.excluded {
            *self.excluded.entry(k).or_insert(0) += v;
        }
        for s in o.samples {
            if self.samples.len() < 12 {
                self.samples.push(s);
            }
        }
        for s in o.nontrivial_samples {
            if self.nontrivial_samples.len() < 12 {
                self.nontrivial_samples.push(s);
            }
        }
        for (k, (n, ex)) in o.known {
            let e = self.known.entry(k).or_insert((0, ex));
            e.0 += n;
        }
        for (k, v) in o.notes {
            // numeric notes add up, others: first wins
            match (self.notes.get(&k).and_then(|x| x.as_u64()), v.as_u64()) {
                (Some(a), Some(b)) => {
                    self.notes.insert(k, json!(a + b));
                }
                _ => {
                    self.notes.entry(k).or_insert(v);
                }
            }
        }
    }
}

// ---------------------------------------------------------------------------
// Violations
// ---------------------------------------------------------------------------

#[derive(Clone, Debug)]
pub struct Violation {
    pub phase: String,
    pub case: J,
    pub detail: String,
}

/// Result of checking one case.
pub type CaseResult = Result<(), String>;

// ---------------------------------------------------------------------------
// Known findings
// ---------------------------------------------------------------------------

#[derive(Clone, Debug)]
pub struct Finding {
    pub property: String,
    pub signature: String,
    pub status: String,
    pub what: String,
}

pub struct KnownFindings {
    pub list: Vec<Finding>,
}

impl KnownFindings {
    pub fn load() -> KnownFindings {
        let p = verif_root().join("known_findings.json");
        let mut list = vec![];
        if let Ok(s) = std::fs::read_to_string(&p) {
            let v: J = serde_json::from_str(&s).expect("known_findings.json must parse");
            for f in v["findings"].as_array().cloned().unwrap_or_default() {
                list.push(Finding {
                    property: f["property"].as_str().unwrap_or("").to_string(),
                    signature: f["signature"].as_str().unwrap_or("").to_string(),
                    status: f["status"].as_str().unwrap_or("").to_string(),
                    what: f["what"].as_str().unwrap_or("").to_string(),
                });
            }
        }
        KnownFindings { list }
    }
    /// signatures listed as *known* (not fixed) for this property
    pub fn known_for(&self, prop: &str) -> BTreeSet<String> {
        self.list
            .iter()
            .filter(|f| f.property == prop && f.status == "known")
            .map(|f| f.signature.clone())
            .collect()
    }
    pub fn what(&self, prop: &str, sig: &str) -> String {
        self.list
            .iter()
            .find(|f| f.property == prop && f.signature == sig)
            .map(|f| f.what.clone())
            .unwrap_or_default()
    }
}

// ---------------------------------------------------------------------------
// Run context
// ---------------------------------------------------------------------------

pub struct Cx {
    pub id: &'static str,
    pub tier: Tier,
    pub seed: u64,
    pub threads: usize,
    pub known: BTreeSet<String>,
    pub stop: Arc<AtomicBool>,
    pub start: Instant,
}

impl Cx {
    pub fn is_known(&self, sig: &str) -> bool {
        self.known.contains(sig)
    }
}

/// Run `f(shard_index, nshards)` on `n` threads with big stacks; collect results in order.
pub fn par_shards<T: Send + 'static>(
    n: usize,
    f: impl Fn(usize, usize) -> T + Send + Sync + 'static,
) -> Vec<T> {
    let f = Arc::new(f);
    let mut hs = vec![];
    for i in 0..n {
        let f = f.clone();
        hs.push(
            std::thread::Builder::new()
                .stack_size(256 << 20)
                .name(format!("shard{}", i))
                .spawn(move || f(i, n))
                .expect("spawn"),
        );
    }
    hs.into_iter()
        .map(|h| h.join().expect("shard thread panicked (harness bug)"))
        .collect()
}

/// One seeded proptest run. `check` gets the value and the shard's stats.
/// Returns the shrunk failing value and reason, if any.
pub fn run_proptest<S: Strategy>(
    seed: [u8; 32],
    cases: u32,
    strategy: &S,
    stats: &RefCell<Stats>,
    stop: &AtomicBool,
    check: impl Fn(&S::Value, &mut Stats) -> CaseResult,
) -> Option<(S::Value, String)>
where
    S::Value: Clone + std::fmt::Debug,
{
    let config = Config {
        cases,
        failure_persistence: None,
        max_shrink_iters: MAX_SHRINK_ITERS.load(Ordering::Relaxed),
        max_shrink_time: 0,
        max_local_rejects: 1 << 20,
        max_global_rejects: 1 << 20,
        verbose: 0,
        ..Config::default()
    };
    let rng = TestRng::from_seed(RngAlgorithm::ChaCha, &seed);
    let mut runner = TestRunner::new_with_rng(config, rng);
    let failed = std::cell::Cell::new(false);
    let res = runner.run(strategy, |v| {
        if !failed.get() && stop.load(Ordering::Relaxed) {
            // another shard failed: stop generating (pass trivially)
            return Ok(());
        }
        let mut st = stats.borrow_mut();
        match check(&v, &mut st) {
            Ok(()) => Ok(()),
            Err(e) => {
                st.frozen = true;
                failed.set(true);
                stop.store(true, Ordering::Relaxed);
                Err(TestCaseError::fail(e))
            }
        }
    });
    stats.borrow_mut().frozen = false;
    match res {
        Ok(()) => None,
        Err(TestError::Fail(reason, v)) => Some((v, reason.message().to_string())),
        Err(TestError::Abort(reason)) => {
            eprintln!("proptest aborted: {}", reason.message());
            None
        }
    }
}

// ---------------------------------------------------------------------------
// Stuck-case watchdog: a single case that runs for minutes (an evaluation that does not return, in a
// check that evaluates in-process) must end the run as *inconclusive* with the case named, not leave
// it spinning: a hang is exit 2, never a verdict.
// ---------------------------------------------------------------------------

type Describe = Box<dyn Fn() -> String + Send>;
static RUNNING: Mutex<Vec<Option<(Instant, &'static str, Describe)>>> = Mutex::new(Vec::new());
static WATCHDOG: std::sync::Once = std::sync::Once::new();
static WATCH_ID: Mutex<&'static str> = Mutex::new("");

pub fn case_limit() -> Duration {
    Duration::from_secs(std::env::var("RV_CASE_LIMIT_S").ok().and_then(|v| v.parse().ok()).unwrap_or(600))
}

fn watch_slot(id: &'static str) -> usize {
    *WATCH_ID.lock().unwrap() = id;
    WATCHDOG.call_once(|| {
        std::thread::spawn(|| loop {
            std::thread::sleep(Duration::from_secs(5));
            let limit = case_limit();
            let stuck = {
                let g = RUNNING.lock().unwrap();
                g.iter().flatten().find(|(t, _, _)| t.elapsed() > limit).map(|(t, phase, d)| (t.elapsed(), *phase, d()))
            };
            if let Some((el, phase, desc)) = stuck {
                let id = *WATCH_ID.lock().unwrap();
                let dir = verif_root().join("replays");
                let _ = std::fs::create_dir_all(&dir);
                let path = dir.join(format!("{}-stuck-{:016x}.json", id, fxhash(&desc)));
                let _ = std::fs::write(&path, &desc);
                println!(
                    "INCONCLUSIVE property={} one case of phase {} has been running for {:.0} s (limit {} s; a hang is not a verdict); the case is in {}: {}",
                    id,
                    phase,
                    el.as_secs_f64(),
                    limit.as_secs(),
                    path.display(),
                    desc.chars().take(1500).collect::<String>()
                );
                std::process::exit(2);
            }
        });
    });
    let mut g = RUNNING.lock().unwrap();
    g.push(None);
    g.len() - 1
}

fn fxhash(s: &str) -> u64 {
    let mut h: u64 = 0xcbf29ce484222325;
    for b in s.bytes() {
        h ^= b as u64;
        h = h.wrapping_mul(0x100000001b3);
    }
    h
}

fn watch_begin(slot: usize, phase: &'static str, d: Describe) {
    RUNNING.lock().unwrap()[slot] = Some((Instant::now(), phase, d));
}

fn watch_end(slot: usize) {
    RUNNING.lock().unwrap()[slot] = None;
}

/// Convenience: run a proptest strategy over `shards` threads; each shard
/// builds its own environment with `mk_env`. Returns merged stats and the
/// violations (at most one per shard, shrunk).
pub fn par_proptest<S, E>(
    cx: &Cx,
    phase: &'static str,
    total_cases: u64,
    strategy: impl Fn() -> S + Send + Sync + 'static,
    mk_env: impl Fn() -> E + Send + Sync + 'static,
    check: impl Fn(&E, &S::Value, &mut Stats) -> CaseResult + Send + Sync + 'static,
    to_json: impl Fn(&S::Value) -> J + Send + Sync + 'static,
) -> (Stats, Vec<Violation>)
where
    S: Strategy,
    S::Value: Clone + std::fmt::Debug + Send + 'static,
{
    let n = cx.threads.max(1);
    let per = ((total_cases + n as u64 - 1) / n as u64) as u32;
    let seed = cx.seed;
    let id = cx.id;
    let stop = cx.stop.clone();
    let to_json = Arc::new(to_json);
    let results = par_shards(n, move |i, _| {
        let env = mk_env();
        let st = RefCell::new(Stats::new());
        let strat = strategy();
        let slot = watch_slot(id);
        let r = run_proptest(
            mix_seed(seed, id, phase, i as u64),
            per,
            &strat,
            &st,
            &stop,
            |v, s| {
                let (tj, vc) = (to_json.clone(), v.clone());
                watch_begin(slot, phase, Box::new(move || tj(&vc).to_string()));
                let r = check(&env, v, s);
                watch_end(slot);
                r
            },
        );
        let viol = r.map(|(v, why)| Violation {
            phase: phase.to_string(),
            case: to_json(&v),
            detail: why,
        });
        (st.into_inner(), viol)
    });
    let mut all = Stats::new();
    let mut viols = vec![];
    for (s, v) in results {
        all.merge(s);
        if let Some(v) = v {
            viols.push(v);
        }
    }
    (all, viols)
}

/// Exhaustive sweep over `items` split across threads.
pub fn par_sweep<T, E>(
    cx: &Cx,
    phase: &'static str,
    items: Vec<T>,
    mk_env: impl Fn() -> E + Send + Sync + 'static,
    check: impl Fn(&E, &T, &mut Stats) -> CaseResult + Send + Sync + 'static,
    to_json: impl Fn(&T) -> J + Send + Sync + 'static,
) -> (Stats, Vec<Violation>)
where
    T: Send + Sync + 'static,
{
    let n = cx.threads.max(1);
    let items = Arc::new(items);
    let to_json = Arc::new(to_json);
    let id = cx.id;
    let results = par_shards(n, move |i, n| {
        let env = mk_env();
        let mut st = Stats::new();
        let mut viols: Vec<Violation> = vec![];
        let mut idx = i;
        let slot = watch_slot(id);
        while idx < items.len() {
            let it = &items[idx];
            {
                let (tj, items2, k) = (to_json.clone(), items.clone(), idx);
                watch_begin(slot, phase, Box::new(move || tj(&items2[k]).to_string()));
            }
            let res = check(&env, it, &mut st);
            watch_end(slot);
            if let Err(e) = res {
                if viols.len() < 3 {
                    viols.push(Violation {
                        phase: phase.to_string(),
                        case: to_json(it),
                        detail: e,
                    });
                }
                st.class("violating_items");
            }
            idx += n;
        }
        (st, viols)
    });
    let mut all = Stats::new();
    let mut viols = vec![];
    for (s, v) in results {
        all.merge(s);
        viols.extend(v);
    }
    (all, viols)
}

// ---------------------------------------------------------------------------
// Evidence + final report
// ---------------------------------------------------------------------------

pub struct Report {
    pub stats: Stats,
    pub violations: Vec<Violation>,
    pub rule: String,
    pub level: &'static str,
    pub exhaustive: bool,
    pub assumptions: Vec<String>,
    /// set when the run measured itself as vacuous / infrastructure failed
    pub inconclusive: Option<String>,
}

impl Report {
    pub fn new(rule: &str) -> Report {
        Report {
            stats: Stats::new(),
            violations: vec![],
            rule: rule.to_string(),
            level: "exploration",
            exhaustive: false,
            assumptions: vec![],
            inconclusive: None,
        }
    }
    pub fn absorb(&mut self, (s, v): (Stats, Vec<Violation>)) {
        self.stats.merge(s);
        self.violations.extend(v);
    }
    /// record elapsed seconds since the run started under a phase name
    pub fn mark(&mut self, cx: &Cx, phase: &str) {
        let t = cx.start.elapsed().as_secs_f64();
        self.stats
            .notes
            .insert(format!("t_after_{}", phase), json!((t * 10.0).round() / 10.0));
        if std::env::var("VERIF_VERBOSE").is_ok() {
            eprintln!("[{}] phase {} done at {:.1}s", cx.id, phase, t);
        }
    }
}

pub fn write_evidence(cx: &Cx, rep: &Report) -> std::io::Result<()> {
    let root = verif_root();
    let dir = root.join("evidence");
    std::fs::create_dir_all(&dir)?;
    let mut samples: Vec<J> = rep.stats.nontrivial_samples.clone();
    for s in &rep.stats.samples {
        if samples.len() < 12 {
            samples.push(s.clone());
        }
    }
    let known: BTreeMap<String, J> = rep
        .stats
        .known
        .iter()
        .map(|(k, (n, ex))| (k.clone(), json!({"observed": n, "example": ex})))
        .collect();
    let ev = json!({
        "property_id": cx.id,
        "tier": cx.tier.name(),
        "seed": cx.seed,
        "level": rep.level,
        "coverage": {
            "evaluations": rep.stats.evaluations,
            "distinct_nontrivial": rep.stats.nontrivial.len(),
            "rule": rep.rule,
            "samples": samples,
            "exhaustive": rep.exhaustive,
            "classes": rep.stats.classes,
            "excluded_by_construction": rep.stats.excluded,
            "known_findings_observed": known,
            "notes": rep.stats.notes,
            "threads": cx.threads,
        },
        "assumptions": rep.assumptions,
        "wall_s": cx.start.elapsed().as_secs_f64(),
        "violations": rep.violations.len(),
        "inconclusive": rep.inconclusive,
    });
    let path = dir.join(format!("{}.json", cx.id));
    let tmp = dir.join(format!(".{}.json.tmp", cx.id));
    std::fs::write(&tmp, serde_json::to_string_pretty(&ev).unwrap())?;
    std::fs::rename(tmp, path)
}

pub fn write_replay(cx: &Cx, v: &Violation) -> PathBuf {
    let root = verif_root();
    let dir = root.join("replays");
    let _ = std::fs::create_dir_all(&dir);
    let body = json!({
        "property": cx.id,
        "phase": v.phase,
        "case": v.case,
        "detail": v.detail,
        "seed": cx.seed,
        "tier": cx.tier.name(),
    });
    let text = serde_json::to_string_pretty(&body).unwrap();
    let h = hash_of(&(v.phase.as_str(), v.case.to_string()));
    let path = dir.join(format!("{}-{:016x}.json", cx.id, h));
    let _ = std::fs::write(&path, text);
    path
}

/// Finish a run: print lines, write files, return the exit code.
pub fn finish(cx: &Cx, kf: &KnownFindings, rep: &Report) -> i32 {
    if let Err(e) = write_evidence(cx, rep) {
        eprintln!("cannot write evidence: {}", e);
        return 2;
    }
    for (sig, (n, ex)) in &rep.stats.known {
        println!(
            "KNOWN-FINDING: property={} {} [{}; seen {}x; e.g. {}]",
            cx.id,
            kf.what(cx.id, sig),
            sig,
            n,
            ex
        );
    }
    if !rep.violations.is_empty() {
        let mut seen = BTreeSet::new();
        // an exhaustive sweep reports every violating item: print the first dozen, count the rest
        let shown: Vec<&Violation> = rep.violations.iter().take(12).collect();
        if rep.violations.len() > shown.len() {
            println!("({} violating cases in all; the first {} follow, all are in the evidence file)", rep.violations.len(), shown.len());
        }
        for v in shown {
            let p = write_replay(cx, v);
            if seen.insert(p.clone()) {
                println!("VIOLATION property={} replay={}", cx.id, p.display());
                println!("  phase={} detail: {}", v.phase, v.detail);
                let c = v.case.to_string();
                println!("  case: {}", c.chars().take(600).collect::<String>());
            }
        }
        return 1;
    }
    if let Some(why) = &rep.inconclusive {
        println!("INCONCLUSIVE property={} {}", cx.id, why);
        return 2;
    }
    println!(
        "OK property={} tier={} seed={} evaluations={} distinct_nontrivial={} wall_s={:.1}",
        cx.id,
        cx.tier.name(),
        cx.seed,
        rep.stats.evaluations,
        rep.stats.nontrivial.len(),
        cx.start.elapsed().as_secs_f64()
    );
    0
}

// ---------------------------------------------------------------------------
// Panic capture
// ---------------------------------------------------------------------------

thread_local! {
    static LAST_PANIC: RefCell<Option<String>> = RefCell::new(None);
}

/// Install a panic hook that records "file:line: message" per thread and
/// prints nothing for panics caught by `catch`.
pub fn install_panic_hook() {
    let default = std::panic::take_hook();
    std::panic::set_hook(Box::new(move |info| {
        let loc = info
            .location()
            .map(|l| format!("{}:{}", l.file(), l.line()))
            .unwrap_or_else(|| "?".into());
        let msg = if let Some(s) = info.payload().downcast_ref::<&str>() {
            s.to_string()
        } else if let Some(s) = info.payload().downcast_ref::<String>() {
            s.clone()
        } else {
            "<non-string panic>".to_string()
        };
        let in_catch = CATCHING.with(|c| c.get());
        if in_catch {
            LAST_PANIC.with(|p| *p.borrow_mut() = Some(format!("{}: {}", loc, msg)));
        } else {
            default(info);
        }
    }));
}

thread_local! {
    static CATCHING: std::cell::Cell<bool> = std::cell::Cell::new(false);
}

/// Run `f`, turning a panic into Err("file:line: message").
pub fn catch<T>(f: impl FnOnce() -> T) -> Result<T, String> {
    let prev = CATCHING.with(|c| c.replace(true));
    let r = std::panic::catch_unwind(std::panic::AssertUnwindSafe(f));
    CATCHING.with(|c| c.set(prev));
    match r {
        Ok(v) => Ok(v),
        Err(_) => Err(LAST_PANIC
            .with(|p| p.borrow_mut().take())
            .unwrap_or_else(|| "panic (no message)".into())),
    }
}

/// Normalise a panic string into a stable signature: strip the path prefix
/// up to the crate dir and digits inside the message.
pub fn panic_signature(p: &str) -> String {
    // "/repo/core/src/x.rs:12: msg" -> "core/src/x.rs: msg-with-digits-collapsed"
    let (loc, msg) = match p.find(": ") {
        Some(i) => (&p[..i], &p[i + 2..]),
        None => (p, ""),
    };
    let file = loc.rsplit_once(':').map(|x| x.0).unwrap_or(loc);
    let file = file
        .trim_start_matches("/repo/")
        .rsplit("/registry/src/")
        .next()
        .unwrap_or(file);
    let file = match file.find('/') {
        Some(i) if file.contains(".dev-") || file.contains("index.crates.io") => &file[i + 1..],
        _ => file,
    };
    let mut m = String::new();
    let mut last_digit = false;
    for ch in msg.chars().take(80) {
        if ch.is_ascii_digit() {
            if !last_digit {
                m.push('#');
            }
            last_digit = true;
        } else {
            last_digit = false;
            m.push(ch);
        }
    }
    format!("panic@{}: {}", file, m)
}

/// Debug aid: with VERIF_TRACE=<file>, append each input before it is evaluated.
pub fn trace(text: &str) {
    use std::io::Write;
    thread_local! {
        static F: RefCell<Option<Option<std::fs::File>>> = RefCell::new(None);
    }
    F.with(|f| {
        let mut f = f.borrow_mut();
        if f.is_none() {
            *f = Some(std::env::var("VERIF_TRACE").ok().and_then(|p| {
                let name = format!("{}.{}", p, std::thread::current().name().unwrap_or("main"));
                std::fs::File::create(name).ok()
            }));
        }
        if let Some(Some(file)) = f.as_mut() {
            let _ = file.set_len(0);
            let _ = std::io::Seek::seek(file, std::io::SeekFrom::Start(0));
            let _ = writeln!(file, "{}", text);
            let _ = file.flush();
        }
    });
}
