//! Thin adapters around rink-core's public API.

use crate::engine::catch;
use chrono::{FixedOffset, TimeZone};
use num_bigint::BigInt;
use rink_core::output::{QueryError, QueryReply};
use rink_core::parsing::text_query;
use rink_core::types::{Number, Numeric};
use rink_core::Context;
use std::collections::BTreeMap;

pub fn pin_time(ctx: &mut Context) {
    let date = FixedOffset::east_opt(-4 * 60 * 60)
        .unwrap()
        .with_ymd_and_hms(2016, 8, 2, 15, 33, 19)
        .unwrap();
    ctx.set_time(date.into());
}

/// Core definitions + date patterns, clock pinned, humanize off.
pub fn new_ctx() -> Context {
    // like rink_core::simple_context(), but a database that reports problems while
    // loading (possible on a modified tree) is still used: whatever loaded is
    // what the checks then examine. C08 is the check that judges the load itself.
    let mut ctx = Context::new();
    let units = rink_core::DEFAULT_FILE.expect("bundle-files feature");
    let dates = rink_core::DATES_FILE.expect("bundle-files feature");
    if let Err(e) = ctx.load_definitions(units) {
        static WARNED: std::sync::Once = std::sync::Once::new();
        WARNED.call_once(|| {
            eprintln!(
                "note: the bundled definitions report problems while loading: {}",
                e.lines().take(3).collect::<Vec<_>>().join(" | ")
            );
        });
    }
    ctx.load_date_file(dates);
    pin_time(&mut ctx);
    ctx.use_humanize = false;
    ctx
}

/// new_ctx under catch: Err(panic text) when loading the bundled database panics
pub fn try_new_ctx() -> Result<Context, String> {
    catch(new_ctx)
}

/// Core + currency overlay from the repo's snapshot.
pub fn new_ctx_currency() -> Result<Context, String> {
    let mut ctx = new_ctx();
    let live = std::fs::read_to_string("/repo/core/tests/currency.snapshot.json")
        .map_err(|e| format!("read snapshot: {}", e))?;
    let base = rink_core::CURRENCY_FILE.ok_or("no CURRENCY_FILE")?;
    ctx.load_currency(&live, base)?;
    Ok(ctx)
}

pub enum Out {
    Reply(QueryReply),
    Error(QueryError),
    Panic(String),
}

impl Out {
    pub fn describe(&self) -> String {
        match self {
            Out::Reply(r) => format!("reply: {}", r),
            Out::Error(e) => format!("error: {}", e),
            Out::Panic(p) => format!("PANIC: {}", p),
        }
    }
}

/// parse_query + eval_query (does not touch clock or `ans`).
pub fn eval_line(ctx: &Context, line: &str) -> Out {
    match catch(|| {
        let mut iter = text_query::TokenIterator::new(line.trim()).peekable();
        let q = text_query::parse_query(&mut iter);
        ctx.eval_query(&q)
    }) {
        Ok(Ok(r)) => Out::Reply(r),
        Ok(Err(e)) => Out::Error(e),
        Err(p) => Out::Panic(p),
    }
}

/// numerator/denominator of a Numeric if it is rational
pub fn rational_of(n: &Numeric) -> Option<(BigInt, BigInt)> {
    match n {
        Numeric::Rational(r) => Some((
            r.numer().inner().clone(),
            r.denom().inner().clone(),
        )),
        Numeric::Float(_) => None,
    }
}

pub fn dims_of(n: &Number) -> BTreeMap<String, i64> {
    n.unit
        .iter()
        .map(|(k, v)| (k.to_string(), *v))
        .collect()
}

pub fn lex_idents(s: &str) -> Vec<text_query::Token> {
    let mut out = vec![];
    let mut it = text_query::TokenIterator::new(s);
    loop {
        match it.next() {
            Some(text_query::Token::Eof) | None => break,
            Some(t) => out.push(t),
        }
        if out.len() > 4 {
            break;
        }
    }
    out
}

/// A name is lexer-safe if rink's own lexer turns it into exactly one Ident
/// equal to itself (precondition filter for generators).
pub fn lexer_safe(name: &str) -> bool {
    let toks = lex_idents(name);
    if toks.len() != 1 {
        return false;
    }
    match &toks[0] {
        // the words the query parser reads as an attribute of the unit that follows (`UK pint`,
        // `survey foot`; attr_from_name in text_query.rs) are not usable as names by themselves
        text_query::Token::Ident(s) => s == name && !ATTRIBUTE_WORDS.contains(&name),
        _ => false,
    }
}

pub const ATTRIBUTE_WORDS: [&str; 18] = [
    "int", "international", "UKSJJ", "UKB", "UKC", "UKK", "imperial", "british", "UK", "survey", "geodetic", "irish", "aust", "australian",
    "roman", "egyptian", "greek", "olympic",
];
