pub mod engine;
pub mod gen;
pub mod oracle;
pub mod props;
pub mod regress;
pub mod rinkx;
pub mod worker;
