#![no_main]
//! libFuzzer target for C04: one input line, same oracle as the property check
//! (eval + every rendering must return; cheap inputs only), in-process.
//! A panic aborts the process (libFuzzer reports the input); a stack overflow
//! or a hang is reported by libFuzzer itself (-timeout).
use libfuzzer_sys::fuzz_target;
use rink_core::Context;
use std::cell::RefCell;

thread_local! {
    static CTX: RefCell<Option<(Context, Context)>> = RefCell::new(None);
}

fuzz_target!(|data: &[u8]| {
    let text = String::from_utf8_lossy(data);
    let line: String = text.replace('\r', " ").replace('\n', " ").chars().take(500).collect();
    CTX.with(|c| {
        let mut c = c.borrow_mut();
        if c.is_none() {
            // (context for the static classifier, context under test)
            *c = Some((rv::rinkx::new_ctx(), rink_core::simple_context().expect("context")));
        }
        let (cls_ctx, ctx) = c.as_mut().unwrap();
        // reset the only state a query can leave behind
        ctx.previous_result = None;
        let cls = rv::oracle::cost::classify(cls_ctx, &line, (1, 1));
        if cls.cost != rv::oracle::cost::Cost::Cheap {
            return;
        }
        let _ = rv::worker::eval_all_forms(ctx, &line, true, true);
    });
});
