#![no_main]
//! libFuzzer target for C13: any text as a definitions file (and as currency
//! JSON on top of the bundled definitions); the load must return and the
//! context must still answer.
use libfuzzer_sys::fuzz_target;
use rink_core::Context;

fuzz_target!(|data: &[u8]| {
    let text = String::from_utf8_lossy(data);
    if rv::oracle::cost::has_huge_exponent(&text) {
        return;
    }
    // keep nesting within what the 8 MiB stack of a real rink would take
    if text.len() > 20_000 {
        return;
    }
    let mut ctx = Context::new();
    let _ = ctx.load_definitions(&text);
    ctx.load_date_file(&text);
    let _ = rv::worker::eval_all_forms(&mut ctx, "1 + 1", false, true);
    let _ = ctx.load_currency(&text, "");
    let _ = rv::worker::eval_all_forms(&mut ctx, "1 + 1", false, true);
});
